//! C14 driver: replays TLC-generated watchpoint scripts through the real `Debugger` API and records,
//! after EVERY command, the debug registers of EVERY task (PTRACE_PEEKUSER on the tracer thread),
//! `watchpoint_list()`, and the text bytes that differ from the ELF file.  It compares nothing with
//! the specification itself: the expected observations come from TLC and are compared in
//! tools/checks/c14.py.  A panic of the debugger is recorded as data.
//!
//!   c14 run  <job.json> <out.ndjson>     replay scripts
//!   c14 dr7  <cases.json> <out.ndjson>   pure DR7 encoder leg (no process involved)
//!   c14 selftest <job.json> <out.json>   does this host deliver hardware data breakpoints?
use bugstalker::debugger::address::RelocatedAddress;
use bugstalker::debugger::register::debug::{
    BreakCondition, BreakSize, DebugControlRegister, DebugRegisterNumber,
};
use bugstalker::debugger::variable::dqe::{Dqe, Selector};
use bugstalker::debugger::Debugger;
use nix::sys::ptrace::AddressType;
use nix::sys::signal::{kill, Signal};
use nix::sys::wait::{waitpid, WaitPidFlag};
use nix::unistd::Pid;
use serde_json::{json, Value};
use std::collections::BTreeMap;
use vharness::dbg::{launch, stop_json, Recorder};
use vharness::probe::{self, Elf};
use vharness::{catch, read_json, tool_error, NdjsonOut};

fn peek_dr(tid: i32) -> Result<Vec<u64>, String> {
    let base = std::mem::offset_of!(libc::user, u_debugreg);
    let mut out = Vec::with_capacity(8);
    for i in 0..8usize {
        // DR4/DR5 are aliases and cannot be read through ptrace
        if i == 4 || i == 5 {
            out.push(0);
            continue;
        }
        match nix::sys::ptrace::read_user(Pid::from_raw(tid), (base + 8 * i) as AddressType) {
            Ok(v) => out.push(v as u64),
            Err(e) => return Err(format!("PEEKUSER dr{i} tid {tid}: {e}")),
        }
    }
    Ok(out)
}

fn cond_of(s: &str) -> BreakCondition {
    match s {
        "w" => BreakCondition::DataWrites,
        "rw" => BreakCondition::DataReadsWrites,
        _ => tool_error(&format!("bad cond {s}")),
    }
}

fn size_of(n: u64) -> BreakSize {
    match n {
        1 => BreakSize::Bytes1,
        2 => BreakSize::Bytes2,
        4 => BreakSize::Bytes4,
        8 => BreakSize::Bytes8,
        _ => tool_error(&format!("bad size {n}")),
    }
}

fn size_num(s: BreakSize) -> u64 {
    match s {
        BreakSize::Bytes1 => 1,
        BreakSize::Bytes2 => 2,
        BreakSize::Bytes4 => 4,
        BreakSize::Bytes8 => 8,
    }
}

struct Sess {
    dbg: Debugger,
    rec: Recorder,
    elf: Elf,
    /// location name -> expression name in the puppet (locals are lower-case there)
    nums: BTreeMap<String, u32>,
}

fn expr_of(loc: &str) -> (String, Dqe) {
    let (name, local) = match loc {
        "LA" => ("la".to_string(), true),
        "LB" => ("lb".to_string(), true),
        g => (g.to_string(), false),
    };
    (name.clone(), Dqe::Variable(Selector::by_name(name, local)))
}

fn observe(s: &Sess) -> Value {
    let pid = s.dbg.process().pid().as_raw();
    let mut states = probe::task_states(pid);
    // a task that is just being reaped / has just been stopped may still show R or S for a moment
    for _ in 0..50 {
        if states.values().all(|st| st == "t" || st == "Z" || st == "X") {
            break;
        }
        std::thread::sleep(std::time::Duration::from_millis(10));
        states = probe::task_states(pid);
    }
    let mut tasks = vec![];
    for (tid, st) in &states {
        let mut t = json!({"tid": tid, "state": st});
        if st == "t" {
            match peek_dr(*tid) {
                Ok(dr) => {
                    // bytes at every enabled address register (identifies stack locals by content)
                    let mut mem = vec![];
                    for i in 0..4 {
                        if dr[7] >> (2 * i) & 3 != 0 {
                            mem.push(probe::read_u64(pid, dr[i]).map(Value::from).unwrap_or(Value::Null));
                        } else {
                            mem.push(Value::Null);
                        }
                    }
                    t["dr"] = json!(dr);
                    t["mem"] = json!(mem);
                }
                Err(e) => t["dr_err"] = json!(e),
            }
        }
        tasks.push(t);
    }
    let list: Vec<Value> = s
        .dbg
        .watchpoint_list()
        .iter()
        .map(|w| {
            json!({"num": w.number, "addr": w.address.as_u64(), "size": size_num(w.size),
                   "cond": w.condition.to_string(), "dqe": w.source_dqe.as_ref().map(|d| d.to_string())})
        })
        .collect();
    let patched = if states.is_empty() { None } else { probe::patched_text(pid, &s.elf) };
    json!({"pid": pid, "bias": probe::load_bias(pid, &s.elf), "tasks": tasks, "list": list,
           "patched": patched, "hooks": s.rec.take()})
}

/// Execute one command; the result is a JSON description of what the API returned.
fn exec(s: &mut Sess, cmd: &Value) -> Value {
    let op = cmd["op"].as_str().unwrap_or("");
    let loc = cmd["loc"].as_str().unwrap_or("").to_string();
    let sym_addr = |s: &Sess, loc: &str| -> u64 {
        let pid = s.dbg.process().pid().as_raw();
        let a = s.elf.sym(loc).unwrap_or_else(|| tool_error(&format!("no symbol {loc}")));
        a + probe::load_bias(pid, &s.elf) + cmd["off"].as_u64().unwrap_or(0)
    };
    match op {
        "add" => {
            let cond = cond_of(cmd["cond"].as_str().unwrap_or(""));
            let r = if cmd["via"] == "expr" {
                let (src, dqe) = expr_of(&loc);
                s.dbg.set_watchpoint_on_expr(&src, dqe, cond).map(|v| v.number)
            } else {
                let a = sym_addr(s, &loc);
                let size = size_of(cmd["size"].as_u64().unwrap_or(0));
                s.dbg
                    .set_watchpoint_on_memory(RelocatedAddress::from(a as usize), size, cond, false)
                    .map(|v| v.number)
            };
            match r {
                Ok(n) => {
                    s.nums.insert(loc, n);
                    json!({"ok": true, "num": n})
                }
                Err(e) => json!({"ok": false, "err": format!("{e:?}"), "msg": e.to_string()}),
            }
        }
        "rm_num" | "rm_addr" | "rm_expr" => {
            let r = match op {
                "rm_num" => {
                    // a location that never had a watchpoint maps to a number nobody owns
                    let n = s.nums.get(&loc).copied().unwrap_or(4_000_000_000);
                    s.dbg.remove_watchpoint_by_number(n).map(|o| o.map(|v| v.number))
                }
                "rm_addr" => {
                    let a = if loc == "LA" || loc == "LB" {
                        // locals: address as the debugger itself reported it when the watch was set
                        s.dbg
                            .watchpoint_list()
                            .iter()
                            .find(|w| Some(w.number) == s.nums.get(&loc).copied())
                            .map(|w| w.address.as_u64())
                            .unwrap_or(8)
                    } else {
                        sym_addr(s, &loc)
                    };
                    s.dbg
                        .remove_watchpoint_by_addr(RelocatedAddress::from(a as usize))
                        .map(|o| o.map(|v| v.number))
                }
                _ => {
                    let (_, dqe) = expr_of(&loc);
                    s.dbg.remove_watchpoint_by_expr(dqe).map(|o| o.map(|v| v.number))
                }
            };
            match r {
                Ok(Some(n)) => json!({"ok": true, "removed": n}),
                Ok(None) => json!({"ok": true, "removed": null}),
                Err(e) => json!({"ok": false, "err": format!("{e:?}"), "msg": e.to_string()}),
            }
        }
        "cont" => match s.dbg.continue_debugee_with_reason() {
            Ok(r) => json!({"ok": true, "stop": stop_json(&r)}),
            Err(e) => json!({"ok": false, "err": format!("{e:?}"), "msg": e.to_string()}),
        },
        "restart" => match s.dbg.restart_debugee() {
            Ok(p) => json!({"ok": true, "pid": p.as_raw()}),
            Err(e) => json!({"ok": false, "err": format!("{e:?}"), "msg": e.to_string()}),
        },
        _ => tool_error(&format!("unknown op {op}")),
    }
}

fn reap_all(pid: i32) {
    let _ = kill(Pid::from_raw(pid), Signal::SIGKILL);
    for _ in 0..200 {
        match waitpid(Pid::from_raw(-1), Some(WaitPidFlag::__WALL | WaitPidFlag::WNOHANG)) {
            Err(_) => return, // ECHILD
            Ok(nix::sys::wait::WaitStatus::StillAlive) => std::thread::sleep(std::time::Duration::from_millis(5)),
            Ok(_) => {}
        }
    }
}

fn start_session(job: &Value, out: &mut NdjsonOut, sid: &Value) -> Option<Sess> {
    let puppet = job["puppet"].as_str().unwrap_or_else(|| tool_error("job.puppet"));
    if job["writes"].as_bool().unwrap_or(false) {
        std::env::set_var("C14_WRITES", "1");
    } else {
        std::env::remove_var("C14_WRITES");
    }
    let t0 = std::time::Instant::now();
    let (mut dbg, rec, _out, _pid) = launch(puppet, &[]);
    let t_launch = t0.elapsed().as_millis() as u64;
    let file = job["source"].as_str().unwrap_or("c14_watch.rs");
    let mut bps = serde_json::Map::new();
    for (name, line) in job["lines"].as_object().unwrap_or_else(|| tool_error("job.lines")) {
        match dbg.set_breakpoint_at_line(file, line.as_u64().unwrap_or(0)) {
            Ok(v) => {
                bps.insert(name.clone(), json!(v.len()));
            }
            Err(e) => tool_error(&format!("breakpoint at {file}:{line}: {e}")),
        }
    }
    let r = catch(|| dbg.start_debugee_with_reason());
    let res = match r {
        Ok(Ok(r)) => stop_json(&r),
        Ok(Err(e)) => tool_error(&format!("start_debugee: {e}")),
        Err(p) => tool_error(&format!("start_debugee panicked: {p}")),
    };
    let elf = Elf::load(puppet);
    let s = Sess { dbg, rec, elf, nums: BTreeMap::new() };
    let mut syms = serde_json::Map::new();
    for g in ["G0", "G1", "G2", "G3", "G4", "G5"] {
        syms.insert(g.to_string(), json!(s.elf.sym(g)));
    }
    out.emit(&json!({"script": sid, "k": -1, "res": {"ok": true, "stop": res}, "obs": observe(&s),
                     "syms": syms, "bps": bps, "ms": [t_launch, t0.elapsed().as_millis() as u64]}));
    Some(s)
}

fn run(job_path: &str, out_path: &str) -> i32 {
    let job = read_json(job_path);
    let mut out = NdjsonOut::create(out_path);
    let deadline = job["script_timeout_s"].as_u64().unwrap_or(30);
    // watchdog: a hang of the code under test is data; the orchestrator sees a `begin` without an end
    let beat = std::sync::Arc::new(std::sync::atomic::AtomicU64::new(0));
    {
        let beat = beat.clone();
        std::thread::spawn(move || {
            let mut last = (0u64, std::time::Instant::now());
            loop {
                std::thread::sleep(std::time::Duration::from_millis(200));
                let b = beat.load(std::sync::atomic::Ordering::Relaxed);
                if b != last.0 {
                    last = (b, std::time::Instant::now());
                } else if b != 0 && last.1.elapsed().as_secs() >= deadline {
                    eprintln!("c14: watchdog fired");
                    std::process::exit(4);
                }
            }
        });
    }
    let empty = vec![];
    for sc in job["scripts"].as_array().unwrap_or(&empty) {
        let sid = sc["id"].clone();
        beat.fetch_add(1, std::sync::atomic::Ordering::Relaxed);
        let Some(mut s) = start_session(&job, &mut out, &sid) else { continue };
        let mut dead = false;
        for (k, step) in sc["steps"].as_array().unwrap_or(&empty).iter().enumerate() {
            beat.fetch_add(1, std::sync::atomic::Ordering::Relaxed);
            out.emit(&json!({"script": sid, "k": k, "begin": true}));
            let cmd = &step["cmd"];
            let t0 = std::time::Instant::now();
            match catch(|| exec(&mut s, cmd)) {
                Ok(res) => {
                    let t1 = t0.elapsed().as_millis() as u64;
                    let obs = catch(|| observe(&s)).unwrap_or_else(|p| json!({"observe_panic": p}));
                    let t2 = t0.elapsed().as_millis() as u64;
                    out.emit(&json!({"script": sid, "k": k, "cmd": cmd, "res": res, "obs": obs, "ms": [t1, t2 - t1]}));
                }
                Err(p) => {
                    let at = PANIC_AT.lock().map(|g| g.clone()).unwrap_or_default();
                    out.emit(&json!({"script": sid, "k": k, "cmd": cmd, "res": {"panic": p, "at": at}}));
                    dead = true;
                    break;
                }
            }
        }
        beat.store(0, std::sync::atomic::Ordering::Relaxed);
        let pid = s.dbg.process().pid().as_raw();
        if dead {
            // the debugger is in an unknown state: do not run its destructor, do not reuse this process
            std::mem::forget(s);
            reap_all(pid);
            out.emit(&json!({"script": sid, "end": "panic"}));
            return 3;
        }
        let Sess { dbg, .. } = s;
        let dropped = catch(move || drop(dbg));
        reap_all(pid);
        out.emit(&json!({"script": sid, "end": if dropped.is_ok() { "ok" } else { "drop_panic" },
                         "drop_panic": dropped.err()}));
    }
    0
}

// ------------------------------------------------------------------------------------------------
// pure encoder leg
// ------------------------------------------------------------------------------------------------
fn drn(i: usize) -> DebugRegisterNumber {
    DebugRegisterNumber::from_repr(i).unwrap_or_else(|| tool_error("slot"))
}

/// Family A: from an all-zero DR7, configure + enable exactly the `on` slots (ascending).
/// Family B: configure + enable all four slots with (8, rw), then disable the `off` slots and
///           re-configure the `on` slots to their real kind (old field bits must be replaced, enable
///           bits of the others must go, LE must follow).
/// Family C: family A, then every `on` slot disabled again in descending order (must end with no
///           enable bit at all).
fn dr7(cases_path: &str, out_path: &str) -> i32 {
    let cases = vharness::read_ndjson(cases_path);
    let mut out = NdjsonOut::create(out_path);
    for c in &cases {
        let slots = c["slots"].as_array().unwrap_or_else(|| tool_error("case.slots"));
        let kind = |v: &Value| (cond_of(v["cond"].as_str().unwrap_or("")), size_of(v["size"].as_u64().unwrap_or(0)));
        let r = catch(|| {
            let mut a = DebugControlRegister::verif_from_bits(0);
            for (i, sl) in slots.iter().enumerate() {
                if !sl.is_null() {
                    let (cnd, sz) = kind(sl);
                    a.configure_bp(drn(i), cnd, sz);
                    a.set_dr(drn(i), false, true);
                }
            }
            let enabled_a: Vec<bool> = (0..4).map(|i| a.dr_enabled(drn(i), false)).collect();
            let mut b = DebugControlRegister::verif_from_bits(0);
            for i in 0..4 {
                b.configure_bp(drn(i), BreakCondition::DataReadsWrites, BreakSize::Bytes8);
                b.set_dr(drn(i), false, true);
            }
            for (i, sl) in slots.iter().enumerate() {
                if sl.is_null() {
                    b.set_dr(drn(i), false, false);
                } else {
                    let (cnd, sz) = kind(sl);
                    b.configure_bp(drn(i), cnd, sz);
                }
            }
            let mut cc = a;
            for (i, sl) in slots.iter().enumerate().rev() {
                if !sl.is_null() {
                    cc.set_dr(drn(i), false, false);
                }
            }
            json!({"id": c["id"], "a": a.verif_bits() as u64, "b": b.verif_bits() as u64,
                   "c": cc.verif_bits() as u64, "enabled_a": enabled_a})
        });
        match r {
            Ok(v) => out.emit(&v),
            Err(p) => out.emit(&json!({"id": c["id"], "panic": p})),
        }
    }
    0
}

// ------------------------------------------------------------------------------------------------
// does the host deliver hardware data breakpoints?  (reading rule R4)
// ------------------------------------------------------------------------------------------------
fn selftest(job_path: &str, out_path: &str) -> i32 {
    let mut job = read_json(job_path);
    job["writes"] = json!(true);
    let mut sink = NdjsonOut::create(&format!("{out_path}.log"));
    let Some(mut s) = start_session(&job, &mut sink, &json!("selftest")) else { return 2 };
    // a fresh thread of the kernel never inherits ptrace-installed debug registers; that fact is
    // re-measured by the replay itself (a thread created after `add` carries the image only because
    // the debugger distributed it) and is not needed here.
    let add = exec(&mut s, &json!({"op": "add", "loc": "G0", "size": 8, "cond": "w", "via": "addr"}));
    let obs0 = observe(&s);
    let res = catch(|| exec(&mut s, &json!({"op": "cont"})));
    let obs1 = catch(|| observe(&s)).ok();
    let delivered = matches!(&res, Ok(r) if r["stop"]["kind"] == "watchpoint");
    let pid = s.dbg.process().pid().as_raw();
    std::mem::forget(s);
    reap_all(pid);
    std::fs::write(out_path, serde_json::to_string(&json!({"delivered": delivered, "add": add,
        "before": obs0, "cont": res.unwrap_or_else(|p| json!({"panic": p})), "after": obs1})).unwrap())
        .unwrap_or_else(|e| tool_error(&format!("write {out_path}: {e}")));
    0
}

static PANIC_AT: std::sync::Mutex<String> = std::sync::Mutex::new(String::new());

fn main() {
    // remember where the code under test panicked (the payload alone has no location)
    std::panic::set_hook(Box::new(|info| {
        if let Some(l) = info.location() {
            if let Ok(mut g) = PANIC_AT.lock() {
                *g = format!("{}:{}", l.file(), l.line());
            }
        }
    }));
    let a: Vec<String> = std::env::args().collect();
    if a.len() < 4 {
        tool_error("usage: c14 run|dr7|selftest <in> <out>");
    }
    let rc = match a[1].as_str() {
        "run" => run(&a[2], &a[3]),
        "dr7" => dr7(&a[2], &a[3]),
        "selftest" => selftest(&a[2], &a[3]),
        _ => tool_error("usage: c14 run|dr7|selftest <in> <out>"),
    };
    std::process::exit(rc);
}

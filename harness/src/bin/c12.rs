//! C12 driver: runs the REAL `DebugSession::new(io).run(..)` on an in-memory `DapTransport`, feeds
//! scripted requests, steers the three writer threads (session, stdout forwarder, stderr forwarder) at
//! the H1 schedule points and records the wire trace (DESIGN App. B2) for `TraceDap.tla`.
//!
//!   c12 run <script.json> <out.ndjson>
//!
//! script: {"id": str, "requests": [{"command": str, "arguments": any|absent, "cls": str, "shape": str,
//!           "wait_ms": int?}], "holds": [{"p": "fout", "nth": 1, "until": [{"p": "ferr", "n": 1}],
//!           "max_ms": 300}], "req_timeout_ms": 15000, "settle_ms": 150}
//! One session per process (the sched controller is a process global, `Child::install` waits on -1).

use bugstalker::dap::transport::DapTransport;
use bugstalker::dap::yadap::session::DebugSession;
use serde_json::{json, Value};
use std::collections::HashMap;
use std::sync::mpsc::{channel, Receiver};
use std::sync::{Arc, Condvar, Mutex};
use std::thread::ThreadId;
use std::time::{Duration, Instant};
use vharness::{read_json, tool_error, NdjsonOut};

/// Everything observable, in one global order (position in `events`).
#[derive(Default)]
struct Shared {
    events: Vec<Value>,
    stream: Vec<u8>,                  // the adapter's byte stream, exactly as a socket would carry it
    names: HashMap<ThreadId, String>, // writer thread -> sess | fout | ferr
    writes: HashMap<String, u64>,     // messages written so far per writer
    arrivals: HashMap<String, u64>,   // schedule-point arrivals per writer
    read_begins: u64,
    last_change: Option<Instant>,
}

struct Ctl {
    sh: Mutex<Shared>,
    cv: Condvar,
    holds: Vec<Value>,
}

impl Ctl {
    fn log(&self, g: &mut Shared, v: Value) {
        g.events.push(v);
        g.last_change = Some(Instant::now());
    }

    /// Called on the writer's own thread between `fetch_add` and the transport lock.
    fn arrive(&self, p: &str) {
        let mut g = self.sh.lock().unwrap();
        g.names.insert(std::thread::current().id(), p.to_string());
        let nth = {
            let a = g.arrivals.entry(p.to_string()).or_insert(0);
            *a += 1;
            *a
        };
        self.log(&mut g, json!({"ev": "sched", "p": p, "nth": nth}));
        let rule = self
            .holds
            .iter()
            .find(|h| h["p"].as_str() == Some(p) && h["nth"].as_u64() == Some(nth));
        let Some(rule) = rule else { return };
        let max = Duration::from_millis(rule["max_ms"].as_u64().unwrap_or(300));
        let t0 = Instant::now();
        let conds: Vec<(String, u64)> = rule["until"]
            .as_array()
            .map(|a| {
                a.iter()
                    .map(|c| (c["p"].as_str().unwrap_or("").to_string(), c["n"].as_u64().unwrap_or(0)))
                    .collect()
            })
            .unwrap_or_default();
        loop {
            let ok = conds.iter().all(|(q, n)| g.writes.get(q).copied().unwrap_or(0) >= *n);
            if ok {
                self.log(&mut g, json!({"ev": "release", "p": p, "nth": nth, "why": "cond"}));
                return;
            }
            let el = t0.elapsed();
            if el >= max {
                self.log(&mut g, json!({"ev": "release", "p": p, "nth": nth, "why": "timeout"}));
                return;
            }
            g = self.cv.wait_timeout(g, max - el).unwrap().0;
        }
    }
}

struct MemTransport {
    rx: Receiver<Value>,
    ctl: Arc<Ctl>,
}

impl DapTransport for MemTransport {
    /// Blocks in `recv` while the caller holds the transport mutex — exactly like the real transports.
    fn read_message(&mut self) -> anyhow::Result<Value> {
        {
            let mut g = self.ctl.sh.lock().unwrap();
            g.read_begins += 1;
            self.ctl.log(&mut g, json!({"ev": "read_begin"}));
            self.ctl.cv.notify_all();
        }
        match self.rx.recv() {
            Ok(v) => {
                let mut g = self.ctl.sh.lock().unwrap();
                let ev = json!({"ev": "request", "seq": v["seq"], "command": v["command"],
                    "cls": v["__cls"], "shape": v["__shape"]});
                self.ctl.log(&mut g, ev);
                let mut v = v;
                if let Some(o) = v.as_object_mut() {
                    o.remove("__cls");
                    o.remove("__shape");
                }
                Ok(v)
            }
            Err(_) => {
                let mut g = self.ctl.sh.lock().unwrap();
                self.ctl.log(&mut g, json!({"ev": "read_eof"}));
                Err(anyhow::anyhow!("DAP connection closed"))
            }
        }
    }

    fn write_message(&mut self, message: &Value) -> anyhow::Result<()> {
        let payload = serde_json::to_vec(message)?;
        let mut g = self.ctl.sh.lock().unwrap();
        let by = g
            .names
            .get(&std::thread::current().id())
            .cloned()
            .unwrap_or_else(|| "unk".to_string());
        let off = g.stream.len();
        g.stream
            .extend_from_slice(format!("Content-Length: {}\r\n\r\n", payload.len()).as_bytes());
        g.stream.extend_from_slice(&payload);
        *g.writes.entry(by.clone()).or_insert(0) += 1;
        self.ctl.log(&mut g, json!({"ev": "w", "by": by, "off": off}));
        self.ctl.cv.notify_all();
        Ok(())
    }
}

/// Independent minimal client side: re-parse the byte stream by Content-Length framing.
fn parse_stream(bytes: &[u8]) -> Result<Vec<(usize, Value)>, String> {
    let mut out = vec![];
    let mut i = 0usize;
    while i < bytes.len() {
        let start = i;
        let hdr_end = bytes[i..]
            .windows(4)
            .position(|w| w == b"\r\n\r\n")
            .ok_or_else(|| format!("unterminated header at {i}"))?;
        let hdr = std::str::from_utf8(&bytes[i..i + hdr_end]).map_err(|e| e.to_string())?;
        let mut len = None;
        for line in hdr.split("\r\n") {
            if let Some(v) = line.strip_prefix("Content-Length:") {
                len = v.trim().parse::<usize>().ok();
            }
        }
        let len = len.ok_or_else(|| format!("no Content-Length at {i}"))?;
        i += hdr_end + 4;
        if i + len > bytes.len() {
            return Err(format!("truncated body at {i}"));
        }
        let v: Value = serde_json::from_slice(&bytes[i..i + len]).map_err(|e| format!("bad json at {i}: {e}"))?;
        out.push((start, v));
        i += len;
    }
    Ok(out)
}

fn body_shape(m: &Value) -> Value {
    let b = &m["body"];
    let mut keys: Vec<String> = b.as_object().map(|o| o.keys().cloned().collect()).unwrap_or_default();
    keys.sort();
    json!(keys.join(","))
}

/// SAFETY (DESIGN §3.4): some handlers act on the host.  Refuse anything but our own puppet / /bin/true.
fn safety_check(req: &Value, puppet: &str) {
    let cmd = req["command"].as_str().unwrap_or("");
    let a = &req["arguments"];
    let bad = match cmd {
        "launch" => match a.get("program").and_then(|p| p.as_str()) {
            Some(p) => !(p == puppet || p == "/bin/true" || p.starts_with("/nonexistent/")),
            None => false,
        },
        "attach" => {
            let pv = a.get("pid").or_else(|| a.get("processId"));
            match pv {
                Some(Value::Number(_)) => true,
                Some(Value::String(s)) => s.trim().parse::<i64>().is_ok(),
                _ => false,
            }
        }
        "terminateThreads" => a
            .get("threadIds")
            .and_then(|t| t.as_array())
            .map(|t| t.iter().any(|x| x.is_number()))
            .unwrap_or(false),
        "runInTerminal" => match a.get("args").and_then(|x| x.as_array()).and_then(|x| x.first()) {
            Some(Value::String(s)) => s != "/bin/true",
            _ => false,
        },
        _ => false,
    };
    if bad {
        tool_error(&format!("unsafe request refused by the harness: {req}"));
    }
}

fn subst(v: &mut Value, caps: &HashMap<&'static str, Value>) {
    match v {
        Value::String(s) if s.starts_with('$') => {
            let key = s.as_str();
            let r = match key {
                "$tid" => caps.get("tid").cloned().unwrap_or(json!(0)),
                "$frame" => caps.get("frame").cloned().unwrap_or(json!(0)),
                "$vref" => caps.get("vref").cloned().unwrap_or(json!(0)),
                "$target" => caps.get("target").cloned().unwrap_or(json!(0)),
                "$iref" => caps.get("iref").cloned().unwrap_or(json!("0x0")),
                "$sp" => caps.get("sp").cloned().unwrap_or(json!("0x0")),
                _ => return,
            };
            *v = r;
        }
        Value::Array(a) => a.iter_mut().for_each(|x| subst(x, caps)),
        Value::Object(o) => o.values_mut().for_each(|x| subst(x, caps)),
        _ => {}
    }
}

fn capture(msgs: &[(usize, Value)], caps: &mut HashMap<&'static str, Value>) {
    for (_, m) in msgs {
        if m["type"] == "event" && m["event"] == "stopped" {
            if let Some(t) = m["body"].get("threadId").filter(|t| t.is_i64()) {
                caps.insert("tid", t.clone());
            }
        }
        if m["type"] == "response" && m["success"] == true {
            match m["command"].as_str().unwrap_or("") {
                "stackTrace" => {
                    if let Some(f) = m["body"]["stackFrames"].get(0) {
                        caps.insert("frame", f["id"].clone());
                        if f["instructionPointerReference"].is_string() {
                            caps.insert("iref", f["instructionPointerReference"].clone());
                        }
                    }
                }
                "scopes" => {
                    if let Some(s) = m["body"]["scopes"].get(0) {
                        caps.insert("vref", s["variablesReference"].clone());
                    }
                }
                "gotoTargets" => {
                    if let Some(t) = m["body"]["targets"].get(0) {
                        caps.insert("target", t["id"].clone());
                        caps.insert("iref", t["instructionPointerReference"].clone());
                    }
                }
                _ => {}
            }
        }
    }
}

fn main() {
    unsafe {
        libc::prctl(libc::PR_SET_PDEATHSIG, libc::SIGKILL);
    }
    let args: Vec<String> = std::env::args().collect();
    if args.len() != 4 || args[1] != "run" {
        tool_error("usage: c12 run <script.json> <out.ndjson>");
    }
    let script = read_json(&args[2]);
    let puppet = std::env::var("C12_PUPPET").unwrap_or_default();
    let reqs = script["requests"].as_array().cloned().unwrap_or_default();
    for r in &reqs {
        safety_check(r, &puppet);
    }
    let req_timeout = Duration::from_millis(script["req_timeout_ms"].as_u64().unwrap_or(15000));
    let settle = Duration::from_millis(script["settle_ms"].as_u64().unwrap_or(120));

    vharness::dbg::init();
    let ctl = Arc::new(Ctl {
        sh: Mutex::new(Shared::default()),
        cv: Condvar::new(),
        holds: script["holds"].as_array().cloned().unwrap_or_default(),
    });
    {
        let c = ctl.clone();
        bugstalker::verif::set_sched_controller(Some(Arc::new(move |name: &'static str| {
            let p = name.split('.').next().unwrap_or("unk");
            c.arrive(p);
        })));
    }
    let (tx, rx) = channel::<Value>();
    let io: Arc<Mutex<dyn DapTransport>> = Arc::new(Mutex::new(MemTransport { rx, ctl: ctl.clone() }));
    {
        let mut g = ctl.sh.lock().unwrap();
        ctl.log(&mut g, json!({"ev": "session_start", "id": script["id"]}));
    }
    let c2 = ctl.clone();
    let sess = std::thread::Builder::new()
        .name("sess".into())
        .spawn(move || {
            c2.sh
                .lock()
                .unwrap()
                .names
                .insert(std::thread::current().id(), "sess".to_string());
            let r = vharness::catch(|| DebugSession::new(io).run(vec![]));
            let res = match r {
                Ok(Ok(())) => "ok".to_string(),
                Ok(Err(e)) => format!("err: {e:#}"),
                Err(p) => format!("panic: {p}"),
            };
            let mut g = c2.sh.lock().unwrap();
            c2.log(&mut g, json!({"ev": "session_end", "result": res}));
            c2.cv.notify_all();
        })
        .unwrap();

    // ---- the client: one request at a time, sent when the session is back in read_message ----
    let mut caps: HashMap<&'static str, Value> = HashMap::new();
    let mut hang = false;
    let ended = |g: &Shared| g.events.iter().any(|e| e["ev"] == "session_end");
    'feed: for (k, r) in reqs.iter().enumerate() {
        let t0 = Instant::now();
        {
            let mut g = ctl.sh.lock().unwrap();
            loop {
                if ended(&g) {
                    break 'feed;
                }
                if g.read_begins >= (k as u64) + 1 {
                    break;
                }
                if t0.elapsed() > req_timeout {
                    hang = true;
                    break 'feed;
                }
                g = ctl.cv.wait_timeout(g, Duration::from_millis(50)).unwrap().0;
            }
            let msgs = parse_stream(&g.stream).unwrap_or_default();
            capture(&msgs, &mut caps);
        }
        if let Some(ms) = r["wait_ms"].as_u64() {
            std::thread::sleep(Duration::from_millis(ms));
        }
        let mut m = json!({"seq": r.get("seq").cloned().unwrap_or(json!(k as i64 + 1)), "type": "request",
            "command": r["command"], "__cls": r["cls"], "__shape": r["shape"]});
        if let Some(a) = r.get("arguments") {
            let mut a = a.clone();
            subst(&mut a, &caps);
            m["arguments"] = a;
        }
        safety_check(&m, &puppet);
        if tx.send(m).is_err() {
            break;
        }
    }
    // wait until the last request is processed (session idle again or ended)
    if !hang {
        let t0 = Instant::now();
        let mut g = ctl.sh.lock().unwrap();
        let want = reqs.len() as u64 + 1;
        while !(ended(&g) || g.read_begins >= want) {
            if t0.elapsed() > req_timeout {
                hang = true;
                break;
            }
            g = ctl.cv.wait_timeout(g, Duration::from_millis(50)).unwrap().0;
        }
    }
    {
        let mut g = ctl.sh.lock().unwrap();
        if hang {
            ctl.log(&mut g, json!({"ev": "hang"}));
        }
        ctl.log(&mut g, json!({"ev": "client_close"}));
    }
    drop(tx); // the session's blocking read returns "connection closed", the lock is released
    if !hang {
        // run() has consumed the session: its Drop (Debugger teardown) runs before session_end is logged.
        // A teardown that wedges is C11's business; do not let it eat the trace.
        let t0 = Instant::now();
        let mut g = ctl.sh.lock().unwrap();
        while !ended(&g) {
            if t0.elapsed() > Duration::from_secs(8) {
                ctl.log(&mut g, json!({"ev": "teardown_hang"}));
                break;
            }
            g = ctl.cv.wait_timeout(g, Duration::from_millis(50)).unwrap().0;
        }
    }
    let _ = &sess;
    // let the forwarders flush what they hold; stop when the log is quiet
    let t0 = Instant::now();
    loop {
        std::thread::sleep(Duration::from_millis(20));
        let g = ctl.sh.lock().unwrap();
        let quiet = g.last_change.map(|t| t.elapsed() >= settle).unwrap_or(true);
        if quiet || t0.elapsed() > Duration::from_secs(3) {
            break;
        }
    }
    // ---- emit the trace: the byte stream is parsed independently and merged by position ----
    let g = ctl.sh.lock().unwrap();
    let msgs = match parse_stream(&g.stream) {
        Ok(m) => m,
        Err(e) => {
            let mut out = NdjsonOut::create(&args[3]);
            out.emit(&json!({"ev": "session_start", "id": script["id"]}));
            out.emit(&json!({"ev": "bad_stream", "error": e}));
            std::process::exit(0);
        }
    };
    let by_off: HashMap<usize, (usize, &Value)> =
        msgs.iter().enumerate().map(|(i, (off, v))| (*off, (i + 1, v))).collect();
    let mut out = NdjsonOut::create(&args[3]);
    let mut nw = 0usize;
    for e in &g.events {
        if e["ev"] == "w" {
            let off = e["off"].as_u64().unwrap() as usize;
            let Some((i, m)) = by_off.get(&off) else {
                out.emit(&json!({"ev": "bad_stream", "error": format!("no message at offset {off}")}));
                continue;
            };
            nw += 1;
            let ty = m["type"].as_str().unwrap_or("?");
            let mut w = json!({"ev": "wire", "i": i, "by": e["by"], "seq": m["seq"], "type": ty,
                "name": if ty == "response" { m["command"].clone() } else { m["event"].clone() },
                "request_seq": m.get("request_seq").cloned().unwrap_or(json!(0)),
                "success": m.get("success").cloned().unwrap_or(json!(true)),
                "body_shape": body_shape(m)});
            if ty == "event" {
                let b = &m["body"];
                for k in ["reason", "category", "threadId", "exitCode"] {
                    if let Some(x) = b.get(k) {
                        w[k] = x.clone();
                    }
                }
            } else if let Some(x) = m.get("message") {
                w["message"] = json!(x.as_str().unwrap_or("").chars().take(160).collect::<String>());
            }
            out.emit(&w);
        } else {
            out.emit(e);
        }
    }
    if nw != msgs.len() {
        out.emit(&json!({"ev": "bad_stream", "error": format!("{} writes, {} parsed", nw, msgs.len())}));
    }
    out.emit(&json!({"ev": "eof", "messages": msgs.len()}));
    drop(out);
    // never run destructors of a possibly wedged session; take stopped pre-exec stubs and debuggees of
    // this process group down with us (the check starts every session in its own session/process group)
    unsafe {
        if libc::getpgrp() == libc::getpid() {
            libc::kill(0, libc::SIGKILL);
        }
        libc::_exit(0);
    }
}

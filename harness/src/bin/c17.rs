//! C17 driver.
//!
//! `c17 index <cases.ndjson> <out.ndjson>`
//!     first input line  {"delim": "::", "needles": ["a", "a::b", ...]}
//!     other input lines {"ins": [["a","b"], [], ...]}          (one TLC-reached index state each)
//!     Builds a fresh *real* `PathSearchIndex<u32>` per line (values 1,2,.. = insert ordinals),
//!     asks it every needle, writes {"i": lineno, "got": [[needle_idx, [values..]], ..]} (non-empty
//!     answers only) or {"i":.., "panic": ".."}.
//!
//! `c17 e2e <script.json> <out.ndjson>`
//!     script {"prog":.., "args":[..], "queries":[{"kind":"fn","needle":..} | {"kind":"line","needle":..,
//!     "line":n} | {"kind":"sym","regex":..}], "start_at": "c17p::main" | null}
//!     Phase "static": all queries against the not-yet-started debugger (global addresses).
//!     Phase "running" (if start_at): breakpoint at start_at, start, same queries (relocated addresses,
//!     translated back to (object, file address) through /proc/<pid>/maps).
//!     Every breakpoint set by a query is removed again before the next one.

use bugstalker::debugger::address::Address;
use bugstalker::debugger::verif_export::PathSearchIndex;
use bugstalker::debugger::Debugger;
use serde_json::{json, Value};
use std::io::{BufRead, BufReader};
use vharness::{catch, probe, read_json, tool_error, NdjsonOut};

fn main() {
    let args: Vec<String> = std::env::args().collect();
    if args.len() != 4 {
        tool_error("usage: c17 index|e2e <in> <out>");
    }
    match args[1].as_str() {
        "index" => index_mode(&args[2], &args[3]),
        "e2e" => e2e_mode(&args[2], &args[3]),
        _ => tool_error("usage: c17 index|e2e <in> <out>"),
    }
}

fn strs(v: &Value) -> Vec<String> {
    v.as_array()
        .map(|a| a.iter().map(|s| s.as_str().unwrap_or("").to_string()).collect())
        .unwrap_or_default()
}

fn index_mode(inp: &str, outp: &str) {
    let f = std::fs::File::open(inp).unwrap_or_else(|e| tool_error(&format!("open {inp}: {e}")));
    let mut lines = BufReader::new(f).lines();
    let head: Value = serde_json::from_str(&lines.next().unwrap_or_else(|| tool_error("empty input")).unwrap())
        .unwrap_or_else(|e| tool_error(&format!("header: {e}")));
    let delim = head["delim"].as_str().unwrap_or_else(|| tool_error("no delim")).to_string();
    let needles = strs(&head["needles"]);
    let mut out = NdjsonOut::create(outp);
    // silence the default panic message of caught panics
    std::panic::set_hook(Box::new(|_| {}));
    let mut n_cases = 0u64;
    let mut n_gets = 0u64;
    for (i, line) in lines.enumerate() {
        let line = line.unwrap_or_else(|e| tool_error(&format!("read: {e}")));
        if line.trim().is_empty() {
            continue;
        }
        let case: Value = serde_json::from_str(&line).unwrap_or_else(|e| tool_error(&format!("case {i}: {e}")));
        let ins: Vec<Vec<String>> = case["ins"].as_array().map(|a| a.iter().map(strs).collect()).unwrap_or_default();
        let res = catch(|| {
            let mut idx: PathSearchIndex<u32> = PathSearchIndex::new(delim.clone());
            for (k, p) in ins.iter().enumerate() {
                idx.insert(p.iter(), (k + 1) as u32);
            }
            let mut got = vec![];
            for (ni, nd) in needles.iter().enumerate() {
                let r: Vec<u32> = idx.get(nd).into_iter().copied().collect();
                if !r.is_empty() {
                    got.push(json!([ni, r]));
                }
            }
            got
        });
        n_cases += 1;
        n_gets += needles.len() as u64;
        match res {
            Ok(got) => out.emit(&json!({"i": i, "got": got})),
            Err(p) => out.emit(&json!({"i": i, "panic": p})),
        }
    }
    out.emit(&json!({"done": true, "cases": n_cases, "gets": n_gets}));
}

/// (object path, load bias) for a relocated address.
fn locate(maps: &[probe::MapLine], addr: u64) -> (String, u64) {
    for m in maps {
        if m.start <= addr && addr < m.end && !m.path.is_empty() {
            let bias = maps
                .iter()
                .filter(|x| x.path == m.path)
                .map(|x| x.start - x.offset)
                .min()
                .unwrap_or(0);
            return (m.path.clone(), bias);
        }
    }
    (String::new(), 0)
}

fn view_json(addr: Address, place: Option<(String, u64, u64)>, maps: &[probe::MapLine]) -> Value {
    let (kind, a, obj, faddr) = match addr {
        Address::Global(g) => ("global", u64::from(g), Value::Null, u64::from(g)),
        Address::Relocated(r) => {
            let a = u64::from(r);
            let (o, bias) = locate(maps, a);
            ("relocated", a, json!(o), a.wrapping_sub(bias))
        }
    };
    let (pf, pl, pa) = match place {
        Some((f, l, a)) => (json!(f), json!(l), json!(a)),
        None => (Value::Null, Value::Null, Value::Null),
    };
    json!({"kind": kind, "addr": a, "obj": obj, "faddr": faddr, "file": pf, "line": pl, "place_addr": pa})
}

fn run_query(dbg: &mut Debugger, q: &Value, maps: &[probe::MapLine]) -> Value {
    let kind = q["kind"].as_str().unwrap_or("");
    match kind {
        "fn" | "line" => {
            let needle = q["needle"].as_str().unwrap_or("").to_string();
            let line = q["line"].as_u64().unwrap_or(0);
            let r = catch(|| {
                let res = if kind == "fn" {
                    dbg.set_breakpoint_at_fn(&needle)
                } else {
                    dbg.set_breakpoint_at_line(&needle, line)
                };
                match res {
                    Ok(views) => Ok(views
                        .iter()
                        .map(|v| {
                            let place = v.place.as_ref().map(|p| {
                                (p.file.to_string_lossy().to_string(), p.line_number, u64::from(p.address))
                            });
                            view_json(v.addr, place, maps)
                        })
                        .collect::<Vec<_>>()),
                    Err(e) => Err(format!("{e}")),
                }
            });
            // clean up whatever was set
            let rm = catch(|| {
                let r = if kind == "fn" {
                    dbg.remove_breakpoint_at_fn(&needle)
                } else {
                    dbg.remove_breakpoint_at_line(&needle, line)
                };
                r.map(|v| v.len()).map_err(|e| format!("{e}"))
            });
            let left = dbg.breakpoints_snapshot().len();
            match r {
                Ok(Ok(bps)) => json!({"ok": true, "bps": bps, "removed": format!("{rm:?}"), "left": left}),
                Ok(Err(e)) => json!({"ok": false, "err": e, "bps": [], "left": left}),
                Err(p) => json!({"panic": p, "bps": [], "left": left}),
            }
        }
        "sym" => {
            let re = q["regex"].as_str().unwrap_or("").to_string();
            let r = catch(|| match dbg.get_symbols(&re) {
                Ok(syms) => Ok(syms
                    .iter()
                    .map(|s| json!({"name": s.name, "addr": u64::from(s.addr), "kind": format!("{:?}", s.kind)}))
                    .collect::<Vec<_>>()),
                Err(e) => Err(format!("{e}")),
            });
            match r {
                Ok(Ok(syms)) => json!({"ok": true, "syms": syms}),
                Ok(Err(e)) => json!({"ok": false, "err": e, "syms": []}),
                Err(p) => json!({"panic": p, "syms": []}),
            }
        }
        _ => tool_error(&format!("unknown query kind {kind}")),
    }
}

fn e2e_mode(script: &str, outp: &str) {
    let sc = read_json(script);
    let prog = sc["prog"].as_str().unwrap_or_else(|| tool_error("no prog")).to_string();
    let args = strs(&sc["args"]);
    let queries = sc["queries"].as_array().cloned().unwrap_or_default();
    let mut out = NdjsonOut::create(outp);
    std::panic::set_hook(Box::new(|_| {}));

    let (mut dbg, _rec, _output, pid) = vharness::dbg::launch(&prog, &args);
    let no_maps: Vec<probe::MapLine> = vec![];
    for (i, q) in queries.iter().enumerate() {
        let mut r = run_query(&mut dbg, q, &no_maps);
        r["phase"] = json!("static");
        r["q"] = json!(i);
        out.emit(&r);
    }

    if let Some(start_at) = sc["start_at"].as_str() {
        let set = catch(|| dbg.set_breakpoint_at_fn(start_at).map(|v| v.len()).map_err(|e| format!("{e}")));
        let started = catch(|| dbg.start_debugee().map_err(|e| format!("{e}")));
        let maps = probe::maps(pid.as_raw());
        out.emit(&json!({"phase": "start", "set": format!("{set:?}"), "started": format!("{started:?}"),
            "objects": maps.iter().filter(|m| !m.path.is_empty() && m.offset == 0).map(|m| m.path.clone()).collect::<Vec<_>>()}));
        if matches!(started, Ok(Ok(()))) && probe::process_exists(pid.as_raw()) {
            let _ = catch(|| dbg.remove_breakpoint_at_fn(start_at).map(|v| v.len()).map_err(|e| format!("{e}")));
            for (i, q) in queries.iter().enumerate() {
                if q["static_only"].as_bool().unwrap_or(false) {
                    continue;
                }
                let mut r = run_query(&mut dbg, q, &maps);
                r["phase"] = json!("running");
                r["q"] = json!(i);
                out.emit(&r);
            }
        }
    }
    out.emit(&json!({"done": true}));
    // do not run Drop on a debugger in an arbitrary state; kill the debuggee ourselves
    std::mem::forget(dbg);
    unsafe {
        libc::kill(pid.as_raw(), libc::SIGKILL);
    }
    std::process::exit(0);
}

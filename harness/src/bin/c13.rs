//! C13 driver: replays one DAP request script against the real `DebugSession`, in-process, over an
//! in-memory transport, and writes down what a client can observe.
//!
//!   c13 one <script.json> <out.json>
//!
//! script: {"steps": [{"cmd": "<DAP command>", "args": {...}, "run": bool}, ...], "timeout_ms": N}
//!   `run` marks requests after which the debuggee executes (configurationDone / continue / restart).
//! out:    {"steps": [{"cmd", "success", "message", "body", "events": [{"event","body"}...],
//!                     "stop": {"line","name","path","reason"} | null, "probe": ... }...],
//!          "end": "ok" | "hang" | "session_ended: ..." | "panic: ...", "stdout": "..."}
//!
//! Every step is followed by a `threads` request used as a barrier: the session is single threaded, so
//! the barrier's response proves the previous handler has returned and all its events are on the wire.
//! One process per session (the Python side owns the watchdog and kills the process group).

use bugstalker::dap::transport::DapTransport;
use bugstalker::dap::yadap::session::DebugSession;
use serde_json::{json, Value};
use std::sync::mpsc::{channel, Receiver, RecvTimeoutError, Sender};
use std::sync::{Arc, Mutex};
use std::time::{Duration, Instant};

/// In-memory transport: requests are fed through a channel, everything written is forwarded to the
/// client thread (and thereby logged in wire order).
struct MemTransport {
    rx: Receiver<Value>,
    tx: Sender<Value>,
}

impl DapTransport for MemTransport {
    fn read_message(&mut self) -> anyhow::Result<Value> {
        self.rx.recv().map_err(|_| anyhow::anyhow!("DAP connection closed"))
    }
    fn write_message(&mut self, message: &Value) -> anyhow::Result<()> {
        let _ = self.tx.send(message.clone());
        Ok(())
    }
}

struct Client {
    to_sess: Sender<Value>,
    from_sess: Receiver<Value>,
    seq: i64,
    deadline: Instant,
    ended: Arc<Mutex<Option<String>>>,
}

enum Wait {
    Got(Value, Vec<Value>), // response, everything else seen before it
    Hang(Vec<Value>),
    Ended(Vec<Value>),
}

impl Client {
    fn send(&mut self, cmd: &str, args: &Value) -> i64 {
        let seq = self.seq;
        self.seq += 1;
        let _ = self.to_sess.send(json!({"seq": seq, "type": "request", "command": cmd, "arguments": args}));
        seq
    }

    /// Read until the response to `seq`; returns it and all other messages seen meanwhile.
    fn wait_response(&mut self, seq: i64) -> Wait {
        let mut others = vec![];
        loop {
            let left = self.deadline.saturating_duration_since(Instant::now());
            if left.is_zero() {
                return Wait::Hang(others);
            }
            match self.from_sess.recv_timeout(left.min(Duration::from_millis(200))) {
                Ok(m) => {
                    if m["type"] == "response" && m["request_seq"].as_i64() == Some(seq) {
                        return Wait::Got(m, others);
                    }
                    others.push(m);
                }
                Err(RecvTimeoutError::Timeout) => {
                    if self.ended.lock().unwrap().is_some() {
                        // drain what is left
                        while let Ok(m) = self.from_sess.try_recv() {
                            if m["type"] == "response" && m["request_seq"].as_i64() == Some(seq) {
                                return Wait::Got(m, others);
                            }
                            others.push(m);
                        }
                        return Wait::Ended(others);
                    }
                }
                Err(RecvTimeoutError::Disconnected) => return Wait::Ended(others),
            }
        }
    }
}

fn slim_event(m: &Value) -> Value {
    json!({"event": m["event"], "body": m["body"]})
}

fn top_frame(c: &mut Client, thread_id: i64) -> Option<Value> {
    let s = c.send("stackTrace", &json!({"threadId": thread_id}));
    match c.wait_response(s) {
        Wait::Got(r, _) => {
            let f = &r["body"]["stackFrames"][0];
            if f.is_null() {
                Some(json!({"line": null, "frames": 0, "success": r["success"], "message": r["message"]}))
            } else {
                Some(json!({"line": f["line"], "name": f["name"], "path": f["source"]["path"],
                            "frames": r["body"]["stackFrames"].as_array().map(|a| a.len()).unwrap_or(0)}))
            }
        }
        _ => None,
    }
}

fn main() {
    let args: Vec<String> = std::env::args().collect();
    if args.len() != 4 || args[1] != "one" {
        vharness::tool_error("usage: c13 one <script.json> <out.json>");
    }
    let script = vharness::read_json(&args[2]);
    let out_path = args[3].clone();
    let timeout = Duration::from_millis(script["timeout_ms"].as_u64().unwrap_or(30_000));
    vharness::dbg::init();
    // own process group: whatever is left behind dies with us
    unsafe {
        libc::setpgid(0, 0);
    }

    let (to_sess, sess_rx) = channel::<Value>();
    let (sess_tx, from_sess) = channel::<Value>();
    let io: Arc<Mutex<dyn DapTransport>> = Arc::new(Mutex::new(MemTransport { rx: sess_rx, tx: sess_tx }));
    let ended: Arc<Mutex<Option<String>>> = Arc::new(Mutex::new(None));
    let ended2 = ended.clone();
    std::thread::Builder::new()
        .name("dap-session".into())
        .stack_size(64 << 20)
        .spawn(move || {
            let r = vharness::catch(move || DebugSession::new(io).run(vec![]));
            let msg = match r {
                Ok(Ok(())) => "returned".to_string(),
                Ok(Err(e)) => format!("error: {e:#}"),
                Err(p) => format!("panic: {p}"),
            };
            *ended2.lock().unwrap() = Some(msg);
        })
        .unwrap();

    let mut c = Client { to_sess, from_sess, seq: 1, deadline: Instant::now() + timeout, ended: ended.clone() };
    let mut steps_out: Vec<Value> = vec![];
    let mut stdout = String::new();
    let mut end = "ok".to_string();

    let steps = script["steps"].as_array().cloned().unwrap_or_default();
    'outer: for st in steps {
        let cmd = st["cmd"].as_str().unwrap_or("").to_string();
        let is_run = st["run"].as_bool().unwrap_or(false);
        let s = c.send(&cmd, &st["args"]);
        let b = c.send("threads", &json!({}));
        let mut msgs: Vec<Value> = vec![];
        let mut resp = Value::Null;
        let mut barrier = Value::Null;
        let mut fail: Option<&str> = None;
        match c.wait_response(s) {
            Wait::Got(r, o) => {
                resp = r;
                msgs.extend(o);
                match c.wait_response(b) {
                    Wait::Got(r2, o2) => {
                        barrier = r2;
                        msgs.extend(o2);
                    }
                    Wait::Hang(o2) => {
                        msgs.extend(o2);
                        fail = Some("hang");
                    }
                    Wait::Ended(o2) => {
                        msgs.extend(o2);
                        fail = Some("ended");
                    }
                }
            }
            Wait::Hang(o) => {
                msgs.extend(o);
                fail = Some("hang");
            }
            Wait::Ended(o) => {
                msgs.extend(o);
                fail = Some("ended");
            }
        }
        // a second response to the same request shows up among `msgs`
        let mut events = vec![];
        let mut extra_responses = vec![];
        let mut stopped: Option<Value> = None;
        let mut exited = false;
        for m in &msgs {
            if m["type"] == "event" {
                let name = m["event"].as_str().unwrap_or("");
                if name == "output" && m["body"]["category"] == "stdout" {
                    stdout.push_str(m["body"]["output"].as_str().unwrap_or(""));
                    continue;
                }
                if matches!(name, "stopped" | "output" | "exited" | "terminated" | "breakpoint" | "continued") {
                    events.push(slim_event(m));
                }
                if name == "stopped" {
                    stopped = Some(m["body"].clone());
                }
                if name == "exited" || name == "terminated" {
                    exited = true;
                }
            } else if m["type"] == "response" && m["request_seq"].as_i64() == Some(s) {
                extra_responses.push(json!({"success": m["success"], "message": m["message"]}));
            }
        }
        let mut stop = Value::Null;
        let mut probe = Value::Null;
        if fail.is_none() && is_run {
            if let Some(body) = &stopped {
                let tid = body["threadId"].as_i64().unwrap_or(0);
                if let Some(f) = top_frame(&mut c, tid) {
                    stop = f;
                    stop["reason"] = body["reason"].clone();
                }
            } else if !exited {
                // no stop and no exit announced: where is the program?
                let tid = barrier["body"]["threads"][0]["id"].as_i64();
                probe = json!({"threads": barrier["body"]["threads"], "barrier_success": barrier["success"]});
                if let Some(tid) = tid {
                    if let Some(f) = top_frame(&mut c, tid) {
                        probe["top"] = f;
                    }
                }
            }
        }
        // ground truth for "which arrival": the puppet's own counter, read from its memory
        if let Some(addr) = st["peek"].as_u64() {
            let peek = |tid: Option<i64>| -> Value {
                tid.and_then(|t| vharness::probe::read_mem(t as i32, addr, 8))
                    .map(|b| json!(u64::from_le_bytes(b.try_into().unwrap())))
                    .unwrap_or(Value::Null)
            };
            if !stop.is_null() {
                stop["peek"] = peek(stopped.as_ref().and_then(|b| b["threadId"].as_i64()));
            } else if !probe["top"].is_null() {
                probe["top"]["peek"] = peek(barrier["body"]["threads"][0]["id"].as_i64());
            }
        }
        // optimisation only (the verdict is computed by the caller): once the program is not where the
        // script assumes, the remaining requests are not sent
        let mut diverged = false;
        if fail.is_none() && is_run && !st["expect"].is_null() {
            let line = if !stop.is_null() { stop["line"].as_i64() } else { probe["top"]["line"].as_i64() };
            let gone = exited || (stopped.is_none() && probe["threads"].as_array().map(|a| a.is_empty()).unwrap_or(false));
            diverged = if st["expect"] == "exit" { !gone } else { gone || line != st["expect"].as_i64() };
        }
        steps_out.push(json!({"cmd": cmd, "success": resp["success"], "message": resp["message"],
            "body": resp["body"], "events": events, "stop": stop, "probe": probe,
            "extra_responses": extra_responses}));
        if let Some(f) = fail {
            end = if f == "hang" {
                "hang".to_string()
            } else {
                format!("session_ended: {}", ended.lock().unwrap().clone().unwrap_or_default())
            };
            break 'outer;
        }
        if diverged {
            break 'outer;
        }
    }

    if end == "ok" {
        // late stdout of the debuggee (forwarder threads write on their own)
        let t0 = Instant::now();
        while t0.elapsed() < Duration::from_millis(script["linger_ms"].as_u64().unwrap_or(50)) {
            if let Ok(m) = c.from_sess.recv_timeout(Duration::from_millis(10)) {
                if m["type"] == "event" && m["event"] == "output" && m["body"]["category"] == "stdout" {
                    stdout.push_str(m["body"]["output"].as_str().unwrap_or(""));
                }
            }
        }
        c.deadline = Instant::now() + Duration::from_secs(5);
        let d = c.send("disconnect", &json!({"terminateDebuggee": true}));
        let _ = c.wait_response(d);
    }
    if let Some(m) = ended.lock().unwrap().clone() {
        if m.starts_with("panic") {
            end = m;
        }
    }
    let out = json!({"steps": steps_out, "end": end, "stdout": stdout});
    std::fs::write(&out_path, serde_json::to_string(&out).unwrap()).unwrap_or_else(|e| vharness::tool_error(&format!("write {out_path}: {e}")));
    // do not run destructors of a session in an arbitrary state; take the debuggee with us
    unsafe {
        libc::kill(0, libc::SIGKILL);
        libc::_exit(0);
    }
}

//! C15 driver: binds spec/MemRW.tla to the real debugger.
//!
//!   c15 <mode> <cfg.json> <out.ndjson>
//!
//! cfg: {"puppet": exe, "source": puppet .rs, "lines": {"mem": n, "vars": n}, "scripts": ndjson file,
//!       "fields": [[name, type, offset, size]...], "rounds": n}
//! modes
//!   mem-api   scripts of R / WW operations through `Debugger::read_memory` / `write_memory`
//!   mem-dap   scripts of R / WB operations through DAP readMemory / writeMemory (in-process DebugSession)
//!   vars-dap  scripts of WV operations through DAP setVariable / setExpression (+ evaluate read-back)
//!   regs      scripts of set / get / resume through set_register_value / get_register_value /
//!             continue_debugee; independent PTRACE_GETREGS on this (the tracer) thread; the puppet dumps
//!             what the program saw
//!   dis-api   breakpoint placements, `Debugger::disasm()` vs capstone over the ELF *file* bytes
//!   dis-dap   the same through DAP setInstructionBreakpoints + disassemble vs the file bytes
//!
//! The driver only performs and observes; every record it writes carries the raw observation
//! (result, /proc/<pid>/mem images before/after).  tools/checks/c15.py compares with the outcome the
//! specification printed for the same case.

use bugstalker::dap::transport::DapTransport;
use bugstalker::dap::yadap::session::DebugSession;
use bugstalker::debugger::address::{Address, RelocatedAddress};
use bugstalker::debugger::Debugger;
use capstone::prelude::*;
use serde_json::{json, Value};
use std::sync::mpsc::{channel, Receiver, Sender};
use std::sync::{Arc, Mutex};
use std::time::Duration;
use vharness::probe::{self, Elf};
use vharness::{catch, read_json, read_ndjson, tool_error, NdjsonOut};

const PAGE: u64 = 4096;
const SRC_NAME: &str = "c15_puppet.rs";

// ------------------------------------------------------------------------------------------------
// small helpers
// ------------------------------------------------------------------------------------------------
fn b64enc(d: &[u8]) -> String {
    const T: &[u8; 64] = b"ABCDEFGHIJKLMNOPQRSTUVWXYZabcdefghijklmnopqrstuvwxyz0123456789+/";
    let mut s = String::new();
    for c in d.chunks(3) {
        let b = [c[0], *c.get(1).unwrap_or(&0), *c.get(2).unwrap_or(&0)];
        let n = ((b[0] as u32) << 16) | ((b[1] as u32) << 8) | b[2] as u32;
        s.push(T[(n >> 18) as usize & 63] as char);
        s.push(T[(n >> 12) as usize & 63] as char);
        s.push(if c.len() > 1 { T[(n >> 6) as usize & 63] as char } else { '=' });
        s.push(if c.len() > 2 { T[n as usize & 63] as char } else { '=' });
    }
    s
}

fn b64dec(s: &str) -> Option<Vec<u8>> {
    let mut out = vec![];
    let mut acc = 0u32;
    let mut bits = 0;
    for ch in s.bytes() {
        let v = match ch {
            b'A'..=b'Z' => ch - b'A',
            b'a'..=b'z' => ch - b'a' + 26,
            b'0'..=b'9' => ch - b'0' + 52,
            b'+' => 62,
            b'/' => 63,
            b'=' => break,
            _ => return None,
        } as u32;
        acc = (acc << 6) | v;
        bits += 6;
        if bits >= 8 {
            bits -= 8;
            out.push((acc >> bits) as u8);
            acc &= (1 << bits) - 1;
        }
    }
    Some(out)
}

fn bytes_of(v: &Value) -> Vec<u8> {
    v.as_array().map(|a| a.iter().map(|x| x.as_u64().unwrap_or(0) as u8).collect()).unwrap_or_default()
}

fn holes_ok(pid: i32, rw: u64) -> bool {
    let m = probe::maps(pid);
    let covered = |a: u64| m.iter().any(|l| l.start <= a && a < l.end);
    covered(rw) && covered(rw + 2 * PAGE - 1) && !covered(rw - 1) && !covered(rw + 2 * PAGE)
        && !covered(rw - PAGE) && !covered(rw + 3 * PAGE - 1)
}

/// Where the model arena [Lo, Hi) of `len` bytes is laid over the real one: returns the real address
/// of model byte Lo, or None when the case would disagree about which requested bytes are mapped.
fn place(p: &str, rw: u64, len: i64, w: i64, a: i64, n: i64) -> Option<u64> {
    match p {
        // model Lo = first mapped byte; the model's upper hole is mapped in reality
        "S" if a + n <= len => Some(rw),
        // model Hi = end of the mapping; the model's lower hole is mapped in reality
        "E" if a >= 0 => Some(rw + 2 * PAGE - len as u64),
        // model Lo+W = the page boundary inside the mapping; both model holes are mapped in reality
        "M" if a >= 0 && a + n <= len => Some(rw + PAGE - w as u64),
        _ => None,
    }
}

struct Snap {
    rw: u64,
    img: Vec<u8>,
}

fn snap(pid: i32, rw: u64) -> Option<Snap> {
    probe::read_mem(pid, rw, (2 * PAGE) as usize).map(|img| Snap { rw, img })
}

/// Bytes of the 2-page arena that differ between two snapshots, outside [lo, hi) (real addresses).
fn outside_changes(b: &Snap, a: &Snap, lo: u64, hi: u64) -> Vec<Value> {
    let mut out = vec![];
    for i in 0..b.img.len() {
        let addr = b.rw + i as u64;
        if (addr < lo || addr >= hi) && b.img[i] != a.img[i] {
            if out.len() < 16 {
                out.push(json!([addr as i64 - lo as i64, b.img[i], a.img[i]]));
            }
        }
    }
    out
}

fn window(s: &Snap, base: u64, len: i64) -> Vec<u8> {
    let off = (base - s.rw) as usize;
    s.img[off..off + len as usize].to_vec()
}

// ------------------------------------------------------------------------------------------------
// in-memory DAP client
// ------------------------------------------------------------------------------------------------
struct MemTransport {
    rx: Receiver<Value>,
    tx: Sender<Value>,
}

impl DapTransport for MemTransport {
    fn read_message(&mut self) -> anyhow::Result<Value> {
        self.rx.recv().map_err(|_| anyhow::anyhow!("DAP connection closed"))
    }
    fn write_message(&mut self, message: &Value) -> anyhow::Result<()> {
        self.tx.send(message.clone()).map_err(|_| anyhow::anyhow!("client gone"))
    }
}

struct Dap {
    to: Sender<Value>,
    from: Receiver<Value>,
    seq: i64,
    events: Vec<Value>,
    handle: Option<std::thread::JoinHandle<String>>,
}

impl Dap {
    fn start() -> Dap {
        let (to, rx) = channel::<Value>();
        let (tx, from) = channel::<Value>();
        let io: Arc<Mutex<dyn DapTransport>> = Arc::new(Mutex::new(MemTransport { rx, tx }));
        let handle = std::thread::Builder::new()
            .name("sess".into())
            .spawn(move || match catch(|| DebugSession::new(io).run(vec![])) {
                Ok(Ok(())) => "ok".to_string(),
                Ok(Err(e)) => format!("err: {e:#}"),
                Err(p) => format!("panic: {p}"),
            })
            .unwrap();
        Dap { to, from, seq: 0, events: vec![], handle: Some(handle) }
    }

    /// One request, its response (events seen meanwhile are kept).  Err = session died / timeout.
    fn req(&mut self, command: &str, arguments: Value) -> Result<Value, String> {
        self.seq += 1;
        let seq = self.seq;
        self.to
            .send(json!({"seq": seq, "type": "request", "command": command, "arguments": arguments}))
            .map_err(|_| "session ended".to_string())?;
        loop {
            match self.from.recv_timeout(Duration::from_secs(30)) {
                Ok(m) => {
                    if m["type"] == "response" && m["request_seq"].as_i64() == Some(seq) {
                        return Ok(m);
                    }
                    self.events.push(m);
                }
                Err(_) => {
                    let why = match self.handle.take() {
                        Some(h) if h.is_finished() => h.join().unwrap_or_else(|_| "join failed".into()),
                        other => {
                            self.handle = other;
                            "timeout".to_string()
                        }
                    };
                    return Err(format!("no response to {command}: {why}"));
                }
            }
        }
    }

    fn wait_event(&mut self, name: &str) -> Option<Value> {
        if let Some(i) = self.events.iter().position(|e| e["type"] == "event" && e["event"] == name) {
            return Some(self.events.remove(i));
        }
        loop {
            match self.from.recv_timeout(Duration::from_secs(30)) {
                Ok(m) => {
                    if m["type"] == "event" && m["event"] == name {
                        return Some(m);
                    }
                    self.events.push(m);
                }
                Err(_) => return None,
            }
        }
    }

    fn ok(&mut self, command: &str, arguments: Value) -> Value {
        match self.req(command, arguments) {
            Ok(r) if r["success"] == true => r,
            Ok(r) => tool_error(&format!("DAP {command} refused during setup: {r}")),
            Err(e) => tool_error(&format!("DAP {command}: {e}")),
        }
    }

    /// initialize, launch, breakpoint(s), configurationDone, wait for the stop.  Returns (pid, threadId).
    fn launch(&mut self, puppet: &str, args: &[&str], source: &str, line: Option<i64>, func: Option<&str>) -> (i32, i64) {
        self.ok("initialize", json!({"adapterID": "bugstalker"}));
        self.ok("launch", json!({"program": puppet, "args": args}));
        let pid = self
            .wait_event("process")
            .and_then(|e| e["body"]["systemProcessId"].as_i64())
            .unwrap_or_else(|| tool_error("no process event")) as i32;
        if let Some(l) = line {
            self.ok("setBreakpoints", json!({"source": {"path": source}, "breakpoints": [{"line": l}]}));
        }
        if let Some(f) = func {
            self.ok("setFunctionBreakpoints", json!({"breakpoints": [{"name": f}]}));
        }
        self.ok("configurationDone", json!({}));
        let st = self.wait_event("stopped").unwrap_or_else(|| tool_error("no stopped event"));
        if st["body"]["reason"] != "breakpoint" {
            tool_error(&format!("puppet did not stop at the breakpoint: {st}"));
        }
        (pid, st["body"]["threadId"].as_i64().unwrap_or(pid as i64))
    }

    fn finish(mut self, pid: i32) {
        let _ = self.req("disconnect", json!({"terminateDebuggee": true}));
        unsafe { libc::kill(pid, libc::SIGKILL) };
    }
}

// ------------------------------------------------------------------------------------------------
// memory scripts
// ------------------------------------------------------------------------------------------------
enum MemBackend<'a> {
    Api(&'a Debugger),
    Dap(&'a mut Dap),
}

/// Performs one model operation at real address `addr`; returns (ok, error text, bytes read).
fn do_mem_op(be: &mut MemBackend, op: &str, addr: u64, n: usize, data: &[u8]) -> (Option<bool>, String, Vec<u8>) {
    match be {
        MemBackend::Api(dbg) => match op {
            "R" => match catch(|| dbg.read_memory(addr as usize, n)) {
                Ok(Ok(b)) => (Some(true), String::new(), b),
                Ok(Err(e)) => (Some(false), format!("{e}"), vec![]),
                Err(p) => (None, format!("panic: {p}"), vec![]),
            },
            "WW" => {
                let v = u64::from_le_bytes(data.try_into().expect("WW needs 8 bytes"));
                match catch(|| dbg.write_memory(addr as usize, v as usize)) {
                    Ok(Ok(())) => (Some(true), String::new(), vec![]),
                    Ok(Err(e)) => (Some(false), format!("{e}"), vec![]),
                    Err(p) => (None, format!("panic: {p}"), vec![]),
                }
            }
            _ => tool_error(&format!("op {op} is not available through the Debugger API")),
        },
        MemBackend::Dap(dap) => match op {
            "R" => match dap.req("readMemory", json!({"memoryReference": format!("0x{addr:x}"), "count": n})) {
                Ok(r) if r["success"] == true => match r["body"]["data"].as_str().and_then(b64dec) {
                    Some(b) => (Some(true), String::new(), b),
                    None => (None, format!("malformed readMemory body: {r}"), vec![]),
                },
                Ok(r) => (Some(false), r["message"].as_str().unwrap_or("").to_string(), vec![]),
                Err(e) => (None, e, vec![]),
            },
            "WB" => match dap.req("writeMemory", json!({"memoryReference": format!("0x{addr:x}"), "data": b64enc(data)})) {
                Ok(r) if r["success"] == true => (Some(true), format!("{}", r["body"]["bytesWritten"]), vec![]),
                Ok(r) => (Some(false), r["message"].as_str().unwrap_or("").to_string(), vec![]),
                Err(e) => (None, e, vec![]),
            },
            _ => tool_error(&format!("op {op} is not available through DAP memory requests")),
        },
    }
}

/// Returns false when the debuggee was lost (a panic of the code under test took the session down):
/// the last record says so and the mode ends.
fn run_mem_scripts(be: &mut MemBackend, pid: i32, rw: u64, scripts: &[Value], out: &mut NdjsonOut) -> bool {
    for sc in scripts {
        let ops = sc["ops"].as_array().cloned().unwrap_or_default();
        for pl in ["S", "E", "M"] {
            // a script is replayed under a placement only if every operation is valid there
            let ok_all = ops.iter().all(|o| {
                place(pl, rw, o["len"].as_i64().unwrap(), o["w"].as_i64().unwrap(), o["a"].as_i64().unwrap(), o["n"].as_i64().unwrap()).is_some()
            });
            if !ok_all || ops.is_empty() {
                continue;
            }
            let len = ops[0]["len"].as_i64().unwrap();
            let w = ops[0]["w"].as_i64().unwrap();
            let base = place(pl, rw, len, w, 0, 0).unwrap();
            // the arena starts from the specification's initial image (written through /proc/<pid>/mem)
            if !probe::write_mem(pid, base, &bytes_of(&ops[0]["before"])) {
                tool_error("cannot initialise the window through /proc/<pid>/mem");
            }
            for (i, o) in ops.iter().enumerate() {
                let a = o["a"].as_i64().unwrap();
                let n = o["n"].as_i64().unwrap();
                let data = bytes_of(&o["data"]);
                let addr = (base as i64 + a) as u64;
                let before = snap(pid, rw).unwrap_or_else(|| tool_error("cannot read the arena through /proc/<pid>/mem"));
                let (ok, err, bytes) = do_mem_op(be, o["op"].as_str().unwrap(), addr, n as usize, &data);
                let Some(after) = snap(pid, rw) else {
                    // the debuggee is gone: only a crash of the code under test does that
                    out.emit(&json!({"id": sc["id"], "i": i, "placement": pl, "op": o["op"], "a": a, "n": n,
                        "addr": format!("0x{addr:x}"), "real_ok": Value::Null, "real_err": format!("debuggee lost: {err}"),
                        "real_bytes": bytes, "win_before": window(&before, base, len), "win_after": Value::Null,
                        "outside_changed": [], "lost": true}));
                    return false;
                };
                let lo = addr.max(rw);
                let hi = ((addr as i64 + n) as u64).min(rw + 2 * PAGE).max(lo);
                out.emit(&json!({"id": sc["id"], "i": i, "placement": pl, "op": o["op"], "a": a, "n": n,
                    "addr": format!("0x{addr:x}"), "real_ok": ok, "real_err": err, "real_bytes": bytes,
                    "win_before": window(&before, base, len), "win_after": window(&after, base, len),
                    "outside_changed": outside_changes(&before, &after, lo, hi)}));
                // a refused write leaves [a, a+n) unspecified: continue from the specification's choice
                if o["spec_ok"] == false && o["op"] != "R" {
                    probe::write_mem(pid, base, &bytes_of(&o["spec_after"]));
                }
            }
        }
    }
    true
}

fn sym_addr(elf: &Elf, pid: i32, name: &str) -> u64 {
    let v = elf.sym(name).unwrap_or_else(|| tool_error(&format!("symbol {name} not found in the puppet")));
    probe::load_bias(pid, elf) + v
}

fn mode_mem_api(cfg: &Value, out: &mut NdjsonOut) {
    let puppet = cfg["puppet"].as_str().unwrap();
    let elf = Elf::load(puppet);
    let (mut dbg, _rec, _o, pid) = vharness::dbg::launch(puppet, &["mem".to_string()]);
    let pid = pid.as_raw();
    dbg.set_breakpoint_at_line(SRC_NAME, cfg["lines"]["mem"].as_u64().unwrap())
        .unwrap_or_else(|e| tool_error(&format!("breakpoint: {e}")));
    dbg.start_debugee().unwrap_or_else(|e| tool_error(&format!("start: {e}")));
    let rw = probe::read_u64(pid, sym_addr(&elf, pid, "C15_ARENA")).unwrap_or(0);
    if rw == 0 || !holes_ok(pid, rw) {
        tool_error("arena not set up as [hole | 2 pages | hole]");
    }
    out.emit(&json!({"meta": "arena", "rw": format!("0x{rw:x}"), "pid": pid}));
    let scripts = read_ndjson(cfg["scripts"].as_str().unwrap());
    let alive = run_mem_scripts(&mut MemBackend::Api(&dbg), pid, rw, &scripts, out);
    out.emit(&json!({"meta": "done", "lost": !alive, "holes_ok": holes_ok(pid, rw)}));
    std::mem::forget(dbg);
    unsafe { libc::kill(pid, libc::SIGKILL) };
}

fn mode_mem_dap(cfg: &Value, out: &mut NdjsonOut) {
    let puppet = cfg["puppet"].as_str().unwrap();
    let elf = Elf::load(puppet);
    let mut dap = Dap::start();
    let (pid, _tid) = dap.launch(puppet, &["mem"], cfg["source"].as_str().unwrap(), cfg["lines"]["mem"].as_i64(), None);
    let rw = probe::read_u64(pid, sym_addr(&elf, pid, "C15_ARENA")).unwrap_or(0);
    if rw == 0 || !holes_ok(pid, rw) {
        tool_error("arena not set up as [hole | 2 pages | hole]");
    }
    out.emit(&json!({"meta": "arena", "rw": format!("0x{rw:x}"), "pid": pid}));
    let scripts = read_ndjson(cfg["scripts"].as_str().unwrap());
    let alive = run_mem_scripts(&mut MemBackend::Dap(&mut dap), pid, rw, &scripts, out);
    out.emit(&json!({"meta": "done", "lost": !alive, "holes_ok": holes_ok(pid, rw)}));
    if !alive {
        unsafe { libc::kill(pid, libc::SIGKILL) };
        return;
    }
    dap.finish(pid);
}

// ------------------------------------------------------------------------------------------------
// variables through DAP
// ------------------------------------------------------------------------------------------------
/// The literal a user would type so that the member gets exactly these bytes (None: not representable).
fn literal(ty: &str, d: &[u8]) -> Option<String> {
    Some(match ty {
        "u8" => d[0].to_string(),
        "i8" => (d[0] as i8).to_string(),
        "u16" => u16::from_le_bytes(d.try_into().ok()?).to_string(),
        "i16" => i16::from_le_bytes(d.try_into().ok()?).to_string(),
        "u32" => u32::from_le_bytes(d.try_into().ok()?).to_string(),
        "i32" => i32::from_le_bytes(d.try_into().ok()?).to_string(),
        "u64" | "usize" => u64::from_le_bytes(d.try_into().ok()?).to_string(),
        "i64" | "isize" => i64::from_le_bytes(d.try_into().ok()?).to_string(),
        "bool" => match d[0] {
            0 => "false".to_string(),
            1 => "true".to_string(),
            _ => return None,
        },
        "char" => {
            let c = char::from_u32(u32::from_le_bytes(d.try_into().ok()?))?;
            // a one-digit decimal would be taken as the digit character: use the hex form for code points
            if c.is_ascii_graphic() && c != '\'' { format!("'{c}'") } else { format!("0x{:x}", c as u32) }
        }
        "f32" => {
            let f = f32::from_le_bytes(d.try_into().ok()?);
            if f.is_nan() { return None; }
            format!("{f:e}")
        }
        "f64" => {
            let f = f64::from_le_bytes(d.try_into().ok()?);
            if f.is_nan() { return None; }
            format!("{f:e}")
        }
        _ => return None,
    })
}

fn mode_vars_dap(cfg: &Value, out: &mut NdjsonOut) {
    let puppet = cfg["puppet"].as_str().unwrap();
    let elf = Elf::load(puppet);
    let fields = cfg["fields"].as_array().cloned().unwrap_or_default();
    let mut dap = Dap::start();
    let (pid, tid) = dap.launch(puppet, &["vars"], cfg["source"].as_str().unwrap(), cfg["lines"]["vars"].as_i64(), None);
    let pack = probe::read_u64(pid, sym_addr(&elf, pid, "C15_PACK")).unwrap_or(0);
    if pack == 0 {
        tool_error("C15_PACK not published");
    }
    const MARGIN: u64 = 64; // neighbouring stack bytes watched on both sides of the struct
    let scripts = read_ndjson(cfg["scripts"].as_str().unwrap());
    let len = scripts.first().map(|s| s["ops"][0]["len"].as_i64().unwrap()).unwrap_or(80);
    let initial = probe::read_mem(pid, pack, len as usize).unwrap_or_default();
    out.emit(&json!({"meta": "pack", "addr": format!("0x{pack:x}"), "initial": initial, "pid": pid}));

    let frame_id = (tid << 16) | 0;
    let st = dap.ok("stackTrace", json!({"threadId": tid}));
    let top = st["body"]["stackFrames"][0].clone();
    let frame_id = top["id"].as_i64().unwrap_or(frame_id);
    let sc = dap.ok("scopes", json!({"frameId": frame_id}));
    let locals_ref = sc["body"]["scopes"][0]["variablesReference"].as_i64().unwrap_or(0);
    let vs = dap.ok("variables", json!({"variablesReference": locals_ref}));
    let pack_ref = vs["body"]["variables"]
        .as_array()
        .and_then(|a| a.iter().find(|v| v["name"] == "pack"))
        .and_then(|v| v["variablesReference"].as_i64())
        .unwrap_or(0);
    if pack_ref == 0 {
        tool_error(&format!("local `pack` not offered by the adapter: {vs}"));
    }
    let members = dap.ok("variables", json!({"variablesReference": pack_ref}));
    out.emit(&json!({"meta": "members", "variables": members["body"]["variables"], "frame": top["name"]}));

    let whole = |pid: i32| probe::read_mem(pid, pack - MARGIN, (len as u64 + 2 * MARGIN) as usize).unwrap_or_default();
    let full = (len as u64 + 2 * MARGIN) as usize;
    for sc in &scripts {
        let ops = sc["ops"].as_array().cloned().unwrap_or_default();
        if ops.is_empty() {
            continue;
        }
        for via in ["setVariable", "setExpression"] {
            probe::write_mem(pid, pack, &bytes_of(&ops[0]["before"]));
            for (i, o) in ops.iter().enumerate() {
                let a = o["a"].as_i64().unwrap();
                let n = o["n"].as_i64().unwrap();
                let data = bytes_of(&o["data"]);
                let Some(f) = fields.iter().find(|f| f[2].as_i64() == Some(a) && f[3].as_i64() == Some(n)) else {
                    tool_error(&format!("model member at offset {a} size {n} does not exist in the puppet"));
                };
                let (name, ty) = (f[0].as_str().unwrap(), f[1].as_str().unwrap());
                let Some(lit) = literal(ty, &data) else {
                    tool_error(&format!("bytes {data:?} are not a {ty} value (spec KindsFor out of step)"));
                };
                let before = whole(pid);
                let r = if via == "setVariable" {
                    dap.req("setVariable", json!({"variablesReference": pack_ref, "name": name, "value": lit}))
                } else {
                    dap.req("setExpression", json!({"expression": format!("pack.{name}"), "value": lit, "frameId": frame_id}))
                };
                let after = whole(pid);
                if before.len() != full || after.len() != full {
                    out.emit(&json!({"id": sc["id"], "i": i, "via": via, "op": "WV", "a": a, "n": n, "member": name, "type": ty,
                        "literal": lit, "real_ok": Value::Null, "real_err": format!("debuggee lost: {:?}", r.as_ref().err()),
                        "reply": Value::Null, "readback": Value::Null, "win_before": bytes_of(&o["before"]), "win_after": Value::Null,
                        "outside_changed": [], "lost": true}));
                    out.emit(&json!({"meta": "done", "lost": true}));
                    unsafe { libc::kill(pid, libc::SIGKILL) };
                    return;
                }
                let (ok, err, reply) = match &r {
                    Ok(r) if r["success"] == true => (Some(true), String::new(), r["body"]["value"].clone()),
                    Ok(r) => (Some(false), r["message"].as_str().unwrap_or("").to_string(), Value::Null),
                    Err(e) => (None, e.clone(), Value::Null),
                };
                // "a later read of that variable": a fresh evaluation of the member
                let rb = dap.req("evaluate", json!({"expression": format!("pack.{name}"), "frameId": frame_id}));
                let readback = match &rb {
                    Ok(r) if r["success"] == true => r["body"]["result"].clone(),
                    Ok(r) => json!({"error": r["message"]}),
                    Err(e) => json!({"error": e}),
                };
                let m = MARGIN as usize;
                let mut outside = vec![];
                for k in 0..before.len() {
                    let off = k as i64 - m as i64;
                    if (off < a || off >= a + n) && before[k] != after[k] && outside.len() < 16 {
                        outside.push(json!([off, before[k], after[k]]));
                    }
                }
                out.emit(&json!({"id": sc["id"], "i": i, "via": via, "op": "WV", "a": a, "n": n, "member": name,
                    "type": ty, "literal": lit, "real_ok": ok, "real_err": err, "reply": reply, "readback": readback,
                    "win_before": before[m..m + len as usize], "win_after": after[m..m + len as usize],
                    "outside_changed": outside}));
                if o["spec_ok"] == false {
                    probe::write_mem(pid, pack, &bytes_of(&o["spec_after"]));
                }
            }
        }
    }
    out.emit(&json!({"meta": "done"}));
    dap.finish(pid);
}

// ------------------------------------------------------------------------------------------------
// registers
// ------------------------------------------------------------------------------------------------
const REGS16: [&str; 16] = ["rax", "rbx", "rcx", "rdx", "rdi", "rsi", "rbp", "rsp", "r8", "r9", "r10", "r11", "r12", "r13", "r14", "r15"];

fn regs_json(r: &libc::user_regs_struct) -> Value {
    json!({"rax": r.rax, "rbx": r.rbx, "rcx": r.rcx, "rdx": r.rdx, "rdi": r.rdi, "rsi": r.rsi, "rbp": r.rbp,
        "rsp": r.rsp, "r8": r.r8, "r9": r.r9, "r10": r.r10, "r11": r.r11, "r12": r.r12, "r13": r.r13,
        "r14": r.r14, "r15": r.r15, "rip": r.rip, "eflags": r.eflags, "orig_rax": r.orig_rax,
        "cs": r.cs, "ss": r.ss, "ds": r.ds, "es": r.es, "fs": r.fs, "gs": r.gs, "fs_base": r.fs_base, "gs_base": r.gs_base})
}

fn mode_regs(cfg: &Value, out: &mut NdjsonOut) {
    let puppet = cfg["puppet"].as_str().unwrap();
    let elf = Elf::load(puppet);
    let scripts = read_ndjson(cfg["scripts"].as_str().unwrap());
    let rounds = cfg["rounds"].as_u64().unwrap_or(4000);
    let (mut dbg, rec, _o, npid) = vharness::dbg::launch(puppet, &["regs".to_string(), rounds.to_string()]);
    let pid = npid.as_raw();
    // PIE + ADDR_NO_RANDOMIZE: the bias is known before the start (checked again after it)
    let bias0 = if elf.is_pie { 0x555555554000u64 } else { 0 };
    let bp = bias0 + elf.sym("c15_reg_bp").unwrap_or_else(|| tool_error("no c15_reg_bp"));
    let alt = bias0 + elf.sym("c15_reg_alt").unwrap_or_else(|| tool_error("no c15_reg_alt"));
    dbg.set_breakpoint_at_addr(RelocatedAddress::from(bp)).unwrap_or_else(|e| tool_error(&format!("breakpoint: {e}")));
    dbg.start_debugee().unwrap_or_else(|e| tool_error(&format!("start: {e}")));
    if probe::load_bias(pid, &elf) != bias0 {
        tool_error("unexpected load bias");
    }
    let dump_addr = sym_addr(&elf, pid, "C15_REG_DUMP");
    let round_addr = sym_addr(&elf, pid, "C15_ROUND");
    let getregs = || nix::sys::ptrace::getregs(npid).unwrap_or_else(|e| tool_error(&format!("PTRACE_GETREGS: {e}")));
    let value_of = |v: &Value, init: &Value, reg: &str| -> u64 {
        match (v[0].as_str(), v[1].as_str()) {
            (Some("v"), Some("0")) => 0,
            (Some("v"), Some("1")) => 1,
            (Some("v"), Some("2^63")) => 1u64 << 63,
            (Some("v"), Some("2^64-1")) => u64::MAX,
            (Some("a"), Some("alt")) => alt,
            (Some("i"), Some(r)) => init[r].as_u64().unwrap(),
            _ => tool_error(&format!("unknown abstract value {v} for {reg}")),
        }
    };
    let mut dead = false;
    'scripts: for sc in &scripts {
        let ops = sc["ops"].as_array().cloned().unwrap_or_default();
        let at = getregs();
        if at.rip != bp {
            tool_error(&format!("not stopped at c15_reg_bp (rip=0x{:x})", at.rip));
        }
        let mut init = regs_json(&at);
        let mut init_raw = at;
        for (i, o) in ops.iter().enumerate() {
            let kind = o["op"].as_str().unwrap();
            let reg = o["reg"].as_str().unwrap_or("");
            match kind {
                "set" => {
                    let v = value_of(&o["val"], &init, reg);
                    let r = catch(|| dbg.set_register_value(reg, v));
                    let (ok, err) = match r {
                        Ok(Ok(())) => (Some(true), String::new()),
                        Ok(Err(e)) => (Some(false), format!("{e}")),
                        Err(p) => (None, format!("panic: {p}")),
                    };
                    let now = getregs();
                    // control for a refusal: would the kernel take this value from anyone?
                    let mut kernel_refuses = false;
                    if ok == Some(false) {
                        let mut want = now;
                        set_field(&mut want, reg, v);
                        kernel_refuses = nix::sys::ptrace::setregs(npid, want).is_err();
                        let _ = nix::sys::ptrace::setregs(npid, now);
                    }
                    out.emit(&json!({"id": sc["id"], "i": i, "op": "set", "reg": reg, "value": v, "real_ok": ok,
                        "real_err": err, "kernel_refuses": kernel_refuses, "init": init, "alt": alt, "regs": regs_json(&now)}));
                }
                "get" => {
                    let r = catch(|| dbg.get_register_value(reg));
                    let (ok, err, val) = match r {
                        Ok(Ok(v)) => (Some(true), String::new(), json!(v)),
                        Ok(Err(e)) => (Some(false), format!("{e}"), Value::Null),
                        Err(p) => (None, format!("panic: {p}"), Value::Null),
                    };
                    out.emit(&json!({"id": sc["id"], "i": i, "op": "get", "reg": reg, "real_ok": ok, "real_err": err,
                        "value": val, "init": init, "alt": alt, "regs": regs_json(&getregs())}));
                }
                "resume" => {
                    let before = getregs();
                    let round = probe::read_u64(pid, round_addr).unwrap_or(0);
                    rec.take();
                    let r = catch(|| dbg.continue_debugee());
                    let evs = rec.take();
                    let (ok, err) = match r {
                        Ok(Ok(())) => (Some(true), String::new()),
                        Ok(Err(e)) => (Some(false), format!("{e}")),
                        Err(p) => (None, format!("panic: {p}")),
                    };
                    let dump: Vec<u64> = (0..18).map(|k| probe::read_u64(pid, dump_addr + 8 * k).unwrap_or(0)).collect();
                    let mut seen = serde_json::Map::new();
                    for (k, r) in REGS16.iter().enumerate() {
                        seen.insert(r.to_string(), json!(dump[k]));
                    }
                    seen.insert("path".into(), json!(dump[17]));
                    let round2 = probe::read_u64(pid, round_addr).unwrap_or(0);
                    let stopped_again = evs.iter().any(|e| e["hook"] == "breakpoint");
                    out.emit(&json!({"id": sc["id"], "i": i, "op": "resume", "real_ok": ok, "real_err": err,
                        "before": regs_json(&before), "init": init, "seen": seen, "round_before": round, "round_after": round2,
                        "stopped_again": stopped_again, "alt": alt, "bp": bp, "events": evs}));
                    if ok != Some(true) || !stopped_again {
                        dead = true;
                        break 'scripts;
                    }
                    let at = getregs();
                    init = regs_json(&at);
                    init_raw = at;
                }
                _ => tool_error(&format!("unknown register op {kind}")),
            }
        }
        // leave the stop the way it began (independently of the code under test), then move on one round
        let _ = nix::sys::ptrace::setregs(npid, init_raw);
        match catch(|| dbg.continue_debugee()) {
            Ok(Ok(())) => {}
            other => {
                out.emit(&json!({"meta": "lost", "why": format!("{:?}", other.map(|r| r.map_err(|e| e.to_string())))}));
                dead = true;
                break;
            }
        }
    }
    out.emit(&json!({"meta": "done", "dead": dead}));
    std::mem::forget(dbg);
    unsafe { libc::kill(pid, libc::SIGKILL) };
}

fn set_field(r: &mut libc::user_regs_struct, reg: &str, v: u64) {
    match reg {
        "rax" => r.rax = v, "rbx" => r.rbx = v, "rcx" => r.rcx = v, "rdx" => r.rdx = v, "rdi" => r.rdi = v,
        "rsi" => r.rsi = v, "rbp" => r.rbp = v, "rsp" => r.rsp = v, "r8" => r.r8 = v, "r9" => r.r9 = v,
        "r10" => r.r10 = v, "r11" => r.r11 = v, "r12" => r.r12 = v, "r13" => r.r13 = v, "r14" => r.r14 = v,
        "r15" => r.r15 = v, "rip" => r.rip = v,
        _ => {}
    }
}

// ------------------------------------------------------------------------------------------------
// disassembly
// ------------------------------------------------------------------------------------------------
struct Func {
    name: String,
    start: u64, // file (global) address
    end: u64,
    bytes: Vec<u8>,
    insns: Vec<(u64, String, String, Vec<u8>)>, // addr, mnemonic, operands, bytes -- capstone over the FILE bytes
}

fn file_bytes(elf: &Elf, vaddr: u64, len: u64) -> Vec<u8> {
    for (va, off, sz) in &elf.exec_segments {
        if *va <= vaddr && vaddr + len <= va + sz {
            let o = (off + (vaddr - va)) as usize;
            return elf.data[o..o + len as usize].to_vec();
        }
    }
    tool_error("function bytes not in an executable segment")
}

fn pad_funcs(elf: &Elf) -> Vec<Func> {
    let cs = Capstone::new().x86().mode(arch::x86::ArchMode::Mode64).syntax(arch::x86::ArchSyntax::Att).build()
        .unwrap_or_else(|e| tool_error(&format!("capstone: {e}")));
    let mut v = vec![];
    for k in 0.. {
        let name = format!("pad_{k}");
        let Some((start, size)) = elf.symbols.get(&name).copied() else { break };
        let bytes = file_bytes(elf, start, size);
        let insns = cs.disasm_all(&bytes, start).unwrap_or_else(|e| tool_error(&format!("capstone: {e}")));
        let insns = insns.iter().map(|i| (i.address(), i.mnemonic().unwrap_or("").to_string(),
            i.op_str().unwrap_or("").to_string(), i.bytes().to_vec())).collect();
        v.push(Func { name, start, end: start + size, bytes, insns });
    }
    v
}

/// model site -> file address for function k
fn site_addr(funcs: &[Func], k: usize, site: &str) -> Option<u64> {
    let f = &funcs[k];
    match site {
        "first" => Some(f.start),
        "inner" => Some(f.insns[f.insns.len() / 2].0),
        "last" => Some(f.insns.last().unwrap().0),
        // first instruction of the function that starts exactly at this function's end address
        "end" => funcs.iter().find(|g| g.start == f.end).map(|g| g.start),
        // some instruction of a different, non-adjacent function
        "other" => funcs.get((k + 7) % funcs.len()).map(|g| g.insns[1].0),
        _ => None,
    }
}

fn mode_dis_api(cfg: &Value, out: &mut NdjsonOut) {
    let puppet = cfg["puppet"].as_str().unwrap();
    let elf = Elf::load(puppet);
    let funcs = pad_funcs(&elf);
    let scripts = read_ndjson(cfg["scripts"].as_str().unwrap());
    if funcs.len() < scripts.len() + 1 {
        tool_error("not enough pad functions for the placements (disassembly is cached per function)");
    }
    let (mut dbg, rec, _o, npid) = vharness::dbg::launch(puppet, &["dis".to_string()]);
    let pid = npid.as_raw();
    for k in 0..scripts.len() {
        dbg.set_breakpoint_at_fn(&funcs[k].name).unwrap_or_else(|e| tool_error(&format!("breakpoint {}: {e}", funcs[k].name)));
    }
    dbg.start_debugee().unwrap_or_else(|e| tool_error(&format!("start: {e}")));
    let bias = probe::load_bias(pid, &elf);
    for (k, sc) in scripts.iter().enumerate() {
        // stopped inside pad_k (each placement gets a function whose disassembly is not cached yet)
        let evs = rec.take();
        let here = evs.iter().rev().find(|e| e["hook"] == "breakpoint").map(|e| e["pc"].as_u64().unwrap_or(0)).unwrap_or(0);
        let f = &funcs[k];
        if !(bias + f.start <= here && here < bias + f.end) {
            tool_error(&format!("expected a stop inside {} but pc=0x{here:x}", f.name));
        }
        let sites: Vec<String> = sc["bps"].as_array().map(|a| a.iter().map(|s| s.as_str().unwrap().to_string()).collect()).unwrap_or_default();
        let mut set = vec![];
        let mut refused = vec![];
        for s in &sites {
            let Some(a) = site_addr(&funcs, k, s) else { tool_error(&format!("site {s} not available for {}", f.name)) };
            let ra = RelocatedAddress::from(bias + a);
            if bias + a == here { continue; } // already a breakpoint there (the stop itself)
            match catch(|| dbg.set_breakpoint_at_addr(ra).map(|_| ())) {
                Ok(Ok(())) => set.push(ra),
                Ok(Err(e)) => refused.push(json!([s, format!("{e}")])),
                Err(p) => refused.push(json!([s, format!("panic: {p}")])),
            }
        }
        let patched = probe::patched_text(pid, &elf).unwrap_or_default();
        let r = catch(|| dbg.disasm());
        let (ok, err, listing) = match r {
            Ok(Ok(fa)) => (Some(true), String::new(), fa.instructions.iter().map(|i| {
                json!([u64::from(i.address), i.mnemonic.clone().unwrap_or_default(), i.operands.clone().unwrap_or_default()])
            }).collect::<Vec<_>>()),
            Ok(Err(e)) => (Some(false), format!("{e}"), vec![]),
            Err(p) => (None, format!("panic: {p}"), vec![]),
        };
        let expected: Vec<Value> = f.insns.iter().map(|(a, m, o, _)| json!([a, m, o])).collect();
        out.emit(&json!({"id": sc["id"], "func": f.name, "bps": sites, "refused": refused, "real_ok": ok, "real_err": err,
            "listing": listing, "file_listing": expected, "stop_pc": here - bias,
            "patched_in_func": patched.iter().filter(|a| f.start <= **a && **a < f.end).collect::<Vec<_>>(),
            "patched_at_end": patched.contains(&f.end)}));
        for ra in set {
            let _ = catch(|| dbg.remove_breakpoint(Address::Relocated(ra)).map(|_| ()));
        }
        if k + 1 < scripts.len() {
            match catch(|| dbg.continue_debugee()) {
                Ok(Ok(())) => {}
                other => {
                    out.emit(&json!({"meta": "lost", "why": format!("{:?}", other.map(|r| r.map_err(|e| e.to_string())))}));
                    break;
                }
            }
        }
    }
    out.emit(&json!({"meta": "done"}));
    std::mem::forget(dbg);
    unsafe { libc::kill(pid, libc::SIGKILL) };
}

fn mode_dis_dap(cfg: &Value, out: &mut NdjsonOut) {
    let puppet = cfg["puppet"].as_str().unwrap();
    let elf = Elf::load(puppet);
    let funcs = pad_funcs(&elf);
    let scripts = read_ndjson(cfg["scripts"].as_str().unwrap());
    let mut dap = Dap::start();
    let (pid, _tid) = dap.launch(puppet, &["dis"], cfg["source"].as_str().unwrap(), None, Some("stage_dis"));
    let bias = probe::load_bias(pid, &elf);
    for (k, sc) in scripts.iter().enumerate() {
        let k = k % (funcs.len() - 1);
        let f = &funcs[k];
        let sites: Vec<String> = sc["bps"].as_array().map(|a| a.iter().map(|s| s.as_str().unwrap().to_string()).collect()).unwrap_or_default();
        let bps: Vec<Value> = sites.iter().map(|s| {
            let a = site_addr(&funcs, k, s).unwrap_or_else(|| tool_error(&format!("site {s} not available")));
            json!({"instructionReference": format!("0x{:x}", bias + a)})
        }).collect();
        let sb = dap.req("setInstructionBreakpoints", json!({"breakpoints": bps}));
        let verified: Vec<Value> = sb.as_ref().ok().and_then(|r| r["body"]["breakpoints"].as_array().cloned()).unwrap_or_default()
            .iter().map(|b| b["verified"].clone()).collect();
        let patched = probe::patched_text(pid, &elf).unwrap_or_default();
        let r = dap.req("disassemble", json!({"memoryReference": format!("0x{:x}", bias + f.start), "instructionCount": f.insns.len()}));
        let (ok, err, ins) = match &r {
            Ok(r) if r["success"] == true => (Some(true), String::new(), r["body"]["instructions"].as_array().cloned().unwrap_or_default()),
            Ok(r) => (Some(false), r["message"].as_str().unwrap_or("").to_string(), vec![]),
            Err(e) => (None, e.clone(), vec![]),
        };
        let listing: Vec<Value> = ins.iter().map(|i| json!([
            u64::from_str_radix(i["address"].as_str().unwrap_or("0x0").trim_start_matches("0x"), 16).unwrap_or(0).wrapping_sub(bias),
            i["instructionBytes"], i["instruction"]])).collect();
        let expected: Vec<Value> = f.insns.iter().map(|(a, m, o, b)| {
            json!([a, b.iter().map(|x| format!("{x:02x}")).collect::<String>(), if o.is_empty() { m.clone() } else { format!("{m} {o}") }])
        }).collect();
        out.emit(&json!({"id": sc["id"], "func": f.name, "bps": sites, "verified": verified, "real_ok": ok, "real_err": err,
            "listing": listing, "file_listing": expected,
            "patched_in_func": patched.iter().filter(|a| f.start <= **a && **a < f.end).collect::<Vec<_>>(),
            "file_bytes": f.bytes.iter().map(|x| format!("{x:02x}")).collect::<String>()}));
    }
    let _ = dap.req("setInstructionBreakpoints", json!({"breakpoints": []}));
    out.emit(&json!({"meta": "done"}));
    dap.finish(pid);
}

fn main() {
    let a: Vec<String> = std::env::args().collect();
    if a.len() != 4 {
        tool_error("usage: c15 <mode> <cfg.json> <out.ndjson>");
    }
    vharness::dbg::init();
    let cfg = read_json(&a[2]);
    let mut out = NdjsonOut::create(&a[3]);
    match a[1].as_str() {
        "mem-api" => mode_mem_api(&cfg, &mut out),
        "mem-dap" => mode_mem_dap(&cfg, &mut out),
        "vars-dap" => mode_vars_dap(&cfg, &mut out),
        "regs" => mode_regs(&cfg, &mut out),
        "dis-api" => mode_dis_api(&cfg, &mut out),
        "dis-dap" => mode_dis_dap(&cfg, &mut out),
        m => tool_error(&format!("unknown mode {m}")),
    }
    std::process::exit(0);
}

//! c10: signal scripts against the real `Debugger` and the handler-counting puppet (puppets/c10/sigpuppet.rs).
//!
//! usage: c10 <script.json> <out.ndjson>
//! script = {"exe": path, "args": [threads, iters, spin], "src": "sigpuppet.rs", "bp_line": n,
//!           "items": [item...], "burst": {"seed": u64, "n": N, "sigs": [...], "gap_us": [lo, hi], "from": k}}
//! item   = {"cmd": "break|start|continue|stepi|step|remove|finish_puppet|run_to_exit",
//!           "sends": [{"sig": "USR1|USR2|ALRM|INT", "to": "t1|t2|proc", "after": ["start|cont|step|wait|intr", nth]}]}
//!        | {"send": {"sig": .., "to": ..}}                      (at the prompt)
//!
//! A send inside a command is issued by a scheduler thread while the tracer thread is parked by the
//! interposer *before its next ptrace/waitpid call* after the nth call of the named class of this command
//! returned ("after wait 1" = right after waitpid returned, "after cont 1" = between two PTRACE_CONTs,
//! "after step 1" = in the middle of single_step, "after start 0" = before the first call).
//! After a send the scheduler waits until the target has taken the signal (task in `t`) or cannot (already
//! stopped), so the real run follows the model behaviour in which a running thread takes a signal at once.
//!
//! Output (ndjson, totally ordered by the interposer's sequence number `n`): the syscall-grain trace
//! (`cont`, `step`, `interrupt`, `wait`, ...), `cmd`, `send` (with SigPnd/ShdPnd/state of the target before
//! the send => did the kernel coalesce it), `prompt` (what the API returned, hook events, focus thread, /proc
//! task states, pending masks, the puppet's handler counters read from its memory) and `end` (stdout).
#[path = "../interpose.rs"]
mod interpose;

use bugstalker::debugger::address::Address;
use bugstalker::debugger::Debugger;
use serde_json::{json, Value};
use std::io::Write;
use std::sync::atomic::{AtomicBool, Ordering};
use std::sync::{Arc, Mutex};
use std::time::{Duration, Instant};
use vharness::dbg::{self, stop_json};
use vharness::probe::{self, Elf};
use vharness::{catch, read_json};

const PIE_BIAS: u64 = 0x5555_5555_4000;

fn signo(s: &str) -> i32 {
    match s {
        "USR1" => libc::SIGUSR1,
        "USR2" => libc::SIGUSR2,
        "ALRM" => libc::SIGALRM,
        "INT" => libc::SIGINT,
        _ => vharness::tool_error(&format!("unknown signal {s}")),
    }
}

#[derive(Clone)]
struct Puppet {
    pid: i32,
    cnt_addr: u64,
    iter_addr: u64,
    done_addr: u64,
    go_addr: u64,
}

impl Puppet {
    fn tids(&self) -> Vec<i32> {
        let mut v: Vec<i32> = probe::task_states(self.pid).keys().copied().collect();
        v.sort();
        v
    }
    /// logical name -> tid ("t1" = leader, "t2" = the other task)
    fn tid_of(&self, name: &str) -> Option<i32> {
        // "t1" = leader, "t2", "t3", .. = the other tasks in the order of their ids
        let k: usize = name.strip_prefix('t')?.parse().ok()?;
        if k == 1 {
            return Some(self.pid);
        }
        self.tids().into_iter().filter(|t| *t != self.pid).nth(k - 2)
    }
    fn name_of(&self, tid: i32) -> String {
        if tid == self.pid {
            "t1".into()
        } else {
            match self.tids().into_iter().filter(|t| *t != self.pid).position(|t| t == tid) {
                Some(i) => format!("t{}", i + 2),
                None => "t2".into(),
            }
        }
    }
    fn counters(&self) -> Option<Vec<u64>> {
        (0..4).map(|i| probe::read_u64(self.pid, self.cnt_addr + 8 * i)).collect()
    }
    fn iters(&self) -> Option<Vec<u64>> {
        (0..2).map(|i| probe::read_u64(self.pid, self.iter_addr + 8 * i)).collect()
    }
    /// one more iteration of the puppet's main loop may start (no-op for an ungated puppet)
    fn credit(&self) {
        if let Some(v) = probe::read_u64(self.pid, self.go_addr) {
            if v != u64::MAX {
                probe::write_mem(self.pid, self.go_addr, &(v + 1).to_le_bytes());
            }
        }
    }
    fn state(&self, tid: i32) -> String {
        probe::task_states(self.pid).get(&tid).cloned().unwrap_or_else(|| "-".into())
    }
}

/// Send one signal; returns the `send` event (already pushed into the trace).
fn do_send(p: &Puppet, sig: &str, to: &str, mode: &str, extra: Value) -> Value {
    let no = signo(sig);
    let bit = 1u64 << (no - 1);
    let tid = if to == "proc" { Some(p.pid) } else { p.tid_of(to) };
    let Some(tid) = tid else {
        let ev = json!({"ev": "send", "sig": sig, "to": to, "mode": mode, "skipped": "no such thread", "at": extra});
        interpose::push(ev.clone());
        return ev;
    };
    // MEASURED accounting (never predicted).  We are the only sender, so a pending bit can only be CLEARED behind our
    // back, never set.  Each round reads the target's state FIRST and the pending bit SECOND:
    //   bit clear                      => still clear when we send: a new signal, counted            (exact)
    //   bit set, target was in `t`     => the target cannot run (the tracer is parked / idle, only it could resume the
    //                                     task), so the bit is still set when we send: coalesces     (exact)
    //   bit set, target may be running => it may dequeue the signal before our send: wait; if that does not settle the
    //                                     send is AMBIGUOUS and the session's counters are not judged for this signal
    let all_stopped = |p: &Puppet| probe::task_states(p.pid).values().all(|s| s == "t" || s == "Z" || s == "X");
    let pending = |p: &Puppet| {
        let (sp, sh) = probe::pending_signals(p.pid, tid);
        if to == "proc" {
            sh & bit != 0
        } else {
            sp & bit != 0
        }
    };
    let stopped = |p: &Puppet| if to == "proc" { all_stopped(p) } else { p.state(tid) == "t" };
    let t0 = Instant::now();
    let mut ambiguous = false;
    let coal;
    let mut before_state;
    loop {
        let st = stopped(p); // state BEFORE the bit
        before_state = if to == "proc" { json!(probe::task_states_json(p.pid)) } else { json!(if st { "t" } else { "running" }) };
        let pd = pending(p);
        if !pd {
            coal = false;
            break;
        }
        if st {
            coal = true;
            break;
        }
        if t0.elapsed() > Duration::from_millis(300) {
            ambiguous = true;
            coal = true;
            break;
        }
        std::thread::sleep(Duration::from_micros(200));
    }
    let (sp0, sh0) = probe::pending_signals(p.pid, tid);
    // the event gets its sequence number BEFORE the signal exists
    let n = interpose::push(json!({"ev": "send", "sig": sig, "signo": no, "to": to, "tid": tid, "mode": mode, "at": extra,
        "coal": coal, "ambiguous": ambiguous, "before": {"state": before_state, "sigpnd": sp0, "shdpnd": sh0}}));
    let rc = unsafe {
        if to == "proc" {
            libc::kill(p.pid, no)
        } else {
            libc::syscall(libc::SYS_tgkill, p.pid, tid, no) as i32
        }
    };
    // quiescence: the signal has been taken (bit clear) or cannot be taken now (target stopped)
    let t1 = Instant::now();
    loop {
        if !pending(p) || stopped(p) || t1.elapsed() > Duration::from_millis(300) {
            break;
        }
        std::thread::sleep(Duration::from_micros(100));
    }
    // a thread that took the signal is now entering its signal-delivery-stop: wait for `t`
    if to != "proc" {
        let t2 = Instant::now();
        while p.state(tid) != "t" && t2.elapsed() < Duration::from_millis(100) {
            std::thread::sleep(Duration::from_micros(100));
        }
    } else {
        std::thread::sleep(Duration::from_millis(2));
    }
    json!({"n": n, "rc": rc, "coal": coal, "ambiguous": ambiguous})
}

struct Ctx {
    dbg: Option<Debugger>,
    rec: dbg::Recorder,
    out: dbg::Output,
    p: Puppet,
    src: String,
    bp_line: u64,
    bp_addr: Option<u64>,
}

fn prompt_probe(cx: &Ctx) -> Value {
    let p = &cx.p;
    let alive = probe::process_state(p.pid).map(|s| s != "Z").unwrap_or(false);
    let mut pnd = serde_json::Map::new();
    if alive {
        for t in p.tids() {
            let (a, b) = probe::pending_signals(p.pid, t);
            pnd.insert(p.name_of(t), json!([a, b]));
        }
    }
    let mut tasks = serde_json::Map::new();
    for (t, s) in probe::task_states(p.pid) {
        tasks.insert(p.name_of(t), json!(s));
    }
    let focus = cx.dbg.as_ref().filter(|_| alive).map(|d| d.ecx().pid_on_focus().as_raw());
    json!({"alive": alive, "tasks": tasks, "pnd": pnd, "cnt": if alive { json!(p.counters()) } else { Value::Null },
           "iter": if alive { json!(p.iters()) } else { Value::Null },
           "focus": focus.map(|t| p.name_of(t)), "focus_tid": focus})
}

/// Class of a call for the hold points.
fn class_of(p: &interpose::Pending) -> Option<&'static str> {
    match p.name {
        "cont" => Some("cont"),
        "step" => Some("step"),
        "wait" => Some("wait"),
        "interrupt" => Some("intr"),
        _ => None,
    }
}

fn run_cmd(cx: &mut Ctx, name: &str) -> Value {
    let src = cx.src.clone();
    let line = cx.bp_line;
    let bp_addr = cx.bp_addr;
    let Some(d) = cx.dbg.as_mut() else { return json!({"ok": false, "err": "debugger gone"}) };
    let r: Result<Result<Value, String>, String> = catch(|| match name {
        "break" => d
            .set_breakpoint_at_line(&src, line)
            .map(|v| {
                json!(v
                    .iter()
                    .map(|b| match b.addr {
                        Address::Relocated(a) => u64::from(a),
                        Address::Global(a) => u64::from(a),
                    })
                    .collect::<Vec<_>>())
            })
            .map_err(|e| e.to_string()),
        "remove" => d.remove_breakpoint_at_line(&src, line).map(|v| json!(v.len())).map_err(|e| e.to_string()),
        "start" => d.start_debugee_with_reason().map(|r| stop_json(&r)).map_err(|e| e.to_string()),
        "continue" => d.continue_debugee_with_reason().map(|r| stop_json(&r)).map_err(|e| e.to_string()),
        "stepi" => d.stepi().map(|_| Value::Null).map_err(|e| e.to_string()),
        "step" => d.step_into().map(|_| Value::Null).map_err(|e| e.to_string()),
        other => Err(format!("unknown command {other}")),
    });
    let _ = bp_addr;
    match r {
        Ok(Ok(v)) => json!({"ok": true, "ret": v}),
        Ok(Err(e)) => json!({"ok": false, "err": e}),
        Err(p) => json!({"ok": false, "panic": p}),
    }
}

fn flush(out: &mut std::fs::File) {
    for e in interpose::take() {
        let mut s = serde_json::to_string(&e).unwrap();
        s.push('\n');
        let _ = out.write_all(s.as_bytes());
    }
    let _ = out.flush();
}

fn main() {
    let argv: Vec<String> = std::env::args().collect();
    if argv.len() < 3 {
        vharness::tool_error("usage: c10 <script.json> <out.ndjson>");
    }
    let script = read_json(&argv[1]);
    let mut out = std::fs::File::create(&argv[2]).unwrap_or_else(|e| vharness::tool_error(&format!("create {}: {e}", argv[2])));
    let exe = script["exe"].as_str().unwrap_or_else(|| vharness::tool_error("script.exe")).to_string();
    let args: Vec<String> = script["args"].as_array().map(|a| a.iter().map(|x| x.as_str().unwrap_or("").to_string()).collect()).unwrap_or_default();
    let elf = Elf::load(&exe);
    let bias = if elf.is_pie { PIE_BIAS } else { 0 };
    let sym = |n: &str| elf.sym(n).unwrap_or_else(|| vharness::tool_error(&format!("puppet symbol {n} missing"))) + bias;
    std::panic::set_hook(Box::new(|_| {}));
    interpose::set_tracer_thread();
    let (d, rec, outp, pid) = dbg::launch(&exe, &args);
    let p = Puppet { pid: pid.as_raw(), cnt_addr: sym("C10_CNT"), iter_addr: sym("C10_ITER"), done_addr: sym("C10_DONE"), go_addr: sym("C10_GO") };
    let mut cx = Ctx {
        dbg: Some(d),
        rec,
        out: outp,
        p: p.clone(),
        src: script["src"].as_str().unwrap_or("sigpuppet.rs").to_string(),
        bp_line: script["bp_line"].as_u64().unwrap_or(0),
        bp_addr: None,
    };
    interpose::take();
    interpose::push(json!({"ev": "meta", "pid": p.pid, "main": p.pid}));
    interpose::start();
    let items = script["items"].as_array().cloned().unwrap_or_default();

    // free-running burst sender (impl -> spec direction)
    let burst_stop = Arc::new(AtomicBool::new(false));
    let burst_go = Arc::new(AtomicBool::new(false));
    let mut burst_handle = None;
    if script.get("burst").map(|b| b.is_object()).unwrap_or(false) {
        let b = script["burst"].clone();
        let (stop, go, pp) = (burst_stop.clone(), burst_go.clone(), p.clone());
        burst_handle = Some(std::thread::spawn(move || {
            let mut x: u64 = b["seed"].as_u64().unwrap_or(1).wrapping_mul(0x9E3779B97F4A7C15) | 1;
            let mut rnd = move || {
                x ^= x >> 12;
                x ^= x << 25;
                x ^= x >> 27;
                x.wrapping_mul(0x2545F4914F6CDD1D) >> 16
            };
            let sigs: Vec<String> = b["sigs"].as_array().map(|a| a.iter().map(|s| s.as_str().unwrap_or("USR1").to_string()).collect()).unwrap_or_default();
            let tos: Vec<String> = b["to"].as_array().map(|a| a.iter().map(|s| s.as_str().unwrap_or("t1").to_string()).collect()).unwrap_or_else(|| vec!["t1".into()]);
            let (lo, hi) = (b["gap_us"][0].as_u64().unwrap_or(500), b["gap_us"][1].as_u64().unwrap_or(5000));
            let n = b["n"].as_u64().unwrap_or(10);
            while !go.load(Ordering::SeqCst) && !stop.load(Ordering::SeqCst) {
                std::thread::sleep(Duration::from_micros(200));
            }
            let mut sent = 0;
            let mut tries = 0;
            while sent < n && tries < 50 * n && !stop.load(Ordering::SeqCst) {
                tries += 1;
                let s = &sigs[(rnd() % sigs.len() as u64) as usize];
                let to = &tos[(rnd() % tos.len() as u64) as usize];
                // never send a signal that would coalesce: every send counts exactly once
                let bit = 1u64 << (signo(s) - 1);
                let Some(tid) = (if to == "proc" { Some(pp.pid) } else { pp.tid_of(to) }) else { continue };
                let (sp, sh) = probe::pending_signals(pp.pid, tid);
                if (to == "proc" && sh & bit != 0) || (to != "proc" && sp & bit != 0) {
                    std::thread::sleep(Duration::from_micros(300));
                    continue;
                }
                let no = signo(s);
                interpose::push(json!({"ev": "send", "sig": s, "signo": no, "to": to, "tid": tid, "mode": "burst", "coal": false, "ambiguous": false}));
                unsafe {
                    if to == "proc" {
                        libc::kill(pp.pid, no);
                    } else {
                        libc::syscall(libc::SYS_tgkill, pp.pid, tid, no);
                    }
                }
                sent += 1;
                std::thread::sleep(Duration::from_micros(lo + rnd() % (hi - lo + 1)));
            }
            sent
        }));
    }
    let burst_from = script["burst"]["from"].as_u64().unwrap_or(0) as usize;

    for (k, it) in items.iter().enumerate() {
        if burst_handle.is_some() && k == burst_from {
            burst_go.store(true, Ordering::SeqCst);
        }
        if let Some(s) = it.get("send") {
            do_send(&p, s["sig"].as_str().unwrap_or(""), s["to"].as_str().unwrap_or(""), "prompt", json!({"k": k}));
            interpose::push(json!({"ev": "probe", "k": k, "obs": prompt_probe(&cx)}));
            flush(&mut out);
            continue;
        }
        let name = it["cmd"].as_str().unwrap_or("").to_string();
        if name == "finish_puppet" {
            // stop the burst, then let the puppet's main loop end (written through /proc/pid/mem)
            burst_stop.store(true, Ordering::SeqCst);
            if let Some(h) = burst_handle.take() {
                let n = h.join().unwrap_or(0);
                interpose::push(json!({"ev": "burst_done", "sent": n}));
            }
            let ok = probe::write_mem(p.pid, p.done_addr, &1u64.to_le_bytes());
            interpose::push(json!({"ev": "finish_puppet", "ok": ok}));
            continue;
        }
        if name == "run_to_exit" {
            // one `continue` (and one prompt event) per stop, until the program has exited
            let mut n = 0;
            loop {
                interpose::push(json!({"ev": "cmd", "k": k, "cmd": "continue", "runout": n}));
                p.credit();
                let res = run_cmd(&mut cx, "continue");
                let hooks = cx.rec.take();
                let obs = if res.get("panic").is_some() { json!({"status": "panicked"}) } else { prompt_probe(&cx) };
                let fin = res.get("panic").is_some() || res["ok"] != json!(true) || res["ret"]["kind"] == "exit" || obs["alive"] == json!(false);
                interpose::push(json!({"ev": "prompt", "k": k, "cmd": "continue", "runout": n, "res": res, "hooks": hooks, "obs": obs, "unplaced": []}));
                flush(&mut out);
                n += 1;
                if fin || n > 200 {
                    break;
                }
            }
            break;
        }
        interpose::push(json!({"ev": "cmd", "k": k, "cmd": name}));
        // mid-command sends: park the tracer thread at the chosen points
        let sends: Vec<Value> = it["sends"].as_array().cloned().unwrap_or_default();
        let done = Arc::new(AtomicBool::new(false));
        let mut sched = None;
        if !sends.is_empty() {
            let fired: Arc<Mutex<Vec<usize>>> = Arc::new(Mutex::new(vec![]));
            let specs: Vec<(String, u64)> = sends.iter().map(|s| (s["after"][0].as_str().unwrap_or("start").to_string(), s["after"][1].as_u64().unwrap_or(0))).collect();
            let mut counts: std::collections::HashMap<&'static str, u64> = Default::default();
            let mut used = vec![false; specs.len()];
            let f2 = fired.clone();
            interpose::hold_when(move |pc| {
                // counts = calls of this command that have RETURNED (this one not yet made)
                let mut hit = false;
                for (i, (cls, nth)) in specs.iter().enumerate() {
                    if used[i] {
                        continue;
                    }
                    let have = if cls == "start" { u64::MAX } else { *counts.get(cls.as_str()).unwrap_or(&0) };
                    if have >= *nth {
                        used[i] = true;
                        f2.lock().unwrap().push(i);
                        hit = true;
                    }
                }
                if let Some(c) = class_of(pc) {
                    *counts.entry(c).or_insert(0) += 1;
                }
                hit
            });
            let (pp, dn, sd) = (p.clone(), done.clone(), sends.clone());
            let early2 = name != "continue"
                || sends.iter().all(|s| s["after"][0] == "wait" && s["after"][1].as_u64().unwrap_or(0) >= 2);
            sched = Some(std::thread::spawn(move || {
                let mut performed = vec![];
                let t_start = Instant::now();
                let mut credited = early2;
                while !dn.load(Ordering::SeqCst) {
                    if !credited && (performed.len() == sd.len() || t_start.elapsed() > Duration::from_millis(400)) {
                        pp.credit();
                        credited = true;
                    }
                    if let Some(pc) = interpose::wait_parked(Duration::from_millis(20)) {
                        let idxs: Vec<usize> = std::mem::take(&mut *fired.lock().unwrap());
                        for i in idxs {
                            let s = &sd[i];
                            // "after cont n": the resumed task is scheduled asynchronously; the model's send point is
                            // "while it runs", so give it a moment to leave its stop (best effort, guidance only)
                            if s["after"][0] == "cont" {
                                let to = s["to"].as_str().unwrap_or("");
                                let t0 = Instant::now();
                                loop {
                                    let running = if to == "proc" {
                                        probe::task_states(pp.pid).values().any(|x| x != "t")
                                    } else {
                                        pp.tid_of(to).map(|t| pp.state(t) != "t").unwrap_or(true)
                                    };
                                    if running || t0.elapsed() > Duration::from_millis(100) {
                                        break;
                                    }
                                    std::thread::sleep(Duration::from_micros(100));
                                }
                            }
                            do_send(&pp, s["sig"].as_str().unwrap_or(""), s["to"].as_str().unwrap_or(""), "mid",
                                json!({"k": k, "after": s["after"], "before_call": pc.name, "before_tid": pc.tid}));
                            performed.push(i);
                        }
                        interpose::release();
                    }
                }
                performed
            }));
        }
        // gate credit: at once unless the sends of this command are meant to happen before the thread moves on
        let early = sends.iter().all(|s| s["after"][0] == "wait" && s["after"][1].as_u64().unwrap_or(0) >= 2);
        if name == "continue" && early {
            p.credit();
        }
        let res = run_cmd(&mut cx, &name);
        done.store(true, Ordering::SeqCst);
        interpose::clear_hold();
        interpose::release();
        let mut unplaced = vec![];
        if let Some(h) = sched {
            let performed = h.join().unwrap_or_default();
            for (i, s) in sends.iter().enumerate() {
                if !performed.contains(&i) {
                    unplaced.push(s.clone());
                }
            }
        }
        if name == "break" {
            cx.bp_addr = res["ret"][0].as_u64();
        }
        let hooks = cx.rec.take();
        let obs = if res.get("panic").is_some() { json!({"status": "panicked"}) } else { prompt_probe(&cx) };
        interpose::push(json!({"ev": "prompt", "k": k, "cmd": name, "res": res, "hooks": hooks, "obs": obs, "unplaced": unplaced}));
        // a hold point that never occurred: the send happens at the prompt instead (guidance, not a verdict)
        for s in &unplaced {
            if obs["alive"] == json!(true) {
                do_send(&p, s["sig"].as_str().unwrap_or(""), s["to"].as_str().unwrap_or(""), "prompt", json!({"k": k, "relocated": true}));
            }
        }
        flush(&mut out);
        if res.get("panic").is_some() || res["ret"]["kind"] == "exit" || obs["alive"] == json!(false) {
            break;
        }
    }
    burst_stop.store(true, Ordering::SeqCst);
    if let Some(h) = burst_handle.take() {
        let _ = h.join();
    }
    interpose::stop();
    if let Some(d) = cx.dbg.take() {
        let alive = probe::process_state(p.pid).map(|s| s != "Z").unwrap_or(false);
        if alive {
            // not part of C10's observations: never risk a panic in Drop here
            std::mem::forget(d);
            unsafe { libc::kill(p.pid, libc::SIGKILL) };
        } else {
            let _ = catch(move || drop(d));
        }
    }
    // the puppet prints its counters right before exiting; the pipe is drained by a background thread
    let t_end = Instant::now();
    while !cx.out.stdout_string().contains("SIG ") && t_end.elapsed() < Duration::from_secs(5) {
        std::thread::sleep(Duration::from_millis(10));
    }
    interpose::push(json!({"ev": "end", "stdout": cx.out.stdout_string(), "stderr": cx.out.stderr_string()}));
    flush(&mut out);
    unsafe { libc::kill(p.pid, libc::SIGKILL) };
}

//! sess: executes an API-grain command script against the real `Debugger` and a puppet, and
//! emits one observation record per command (ndjson).  Observations combine what the debugger
//! *reports* (return values, hook events, ecx, backtrace, breakpoint snapshot) with what the OS
//! shows independently (/proc: rip, task states, text bytes vs. file, the puppet's own TICK).
//!
//! usage: sess <exe> <script.json> <out.ndjson>
//! script: {"cmds":[{..}], "tick": <link addr of TICK or 0>, "probes": ["text","bt","tasks","locals"]}

use bugstalker::debugger::address::{Address, RelocatedAddress};
use bugstalker::debugger::variable::dqe::{Dqe, Selector};
use bugstalker::debugger::Debugger;
use nix::unistd::Pid;
use serde_json::{json, Value};
use vharness::dbg::{self, stop_json, Output, Recorder};
#[allow(unused_imports)]
use std::io::Read as _;
use vharness::probe::{self, Elf};
use vharness::{catch, read_json, NdjsonOut};

const PIE_BIAS: u64 = 0x5555_5555_4000;

struct Ctx {
    old_pids: Vec<i32>,
    dbg: Option<Debugger>,
    rec: Recorder,
    out: Output,
    pid: i32,
    elf: Elf,
    tick_addr: u64,
    probes: Vec<String>,
    src_name: String,
}

static BUSY_SINCE: std::sync::LazyLock<std::sync::Arc<std::sync::atomic::AtomicU64>> =
    std::sync::LazyLock::new(|| std::sync::Arc::new(std::sync::atomic::AtomicU64::new(0)));
fn now_ms() -> u64 {
    std::time::SystemTime::now().duration_since(std::time::UNIX_EPOCH).map(|d| d.as_millis() as u64).unwrap_or(0)
}
static LAST_PANIC_AT: std::sync::Mutex<String> = std::sync::Mutex::new(String::new());
static ATTACHED_BIAS: std::sync::atomic::AtomicU64 = std::sync::atomic::AtomicU64::new(u64::MAX);

fn bias(elf: &Elf) -> u64 {
    let a = ATTACHED_BIAS.load(std::sync::atomic::Ordering::Relaxed);
    if a != u64::MAX {
        return a;
    }
    if elf.is_pie {
        PIE_BIAS
    } else {
        0
    }
}

/// u_debugreg[7] of every task, read through an independent PTRACE_SEIZE (only valid once the
/// debugger has released the process).  Returns tid -> dr7, or an error string.
fn independent_dr7(pid: i32) -> Value {
    use nix::sys::ptrace;
    use nix::sys::wait::waitpid;
    let mut o = serde_json::Map::new();
    for (tid, _) in probe::task_states(pid) {
        let t = Pid::from_raw(tid);
        let r: Result<i64, String> = (|| {
            ptrace::seize(t, ptrace::Options::empty()).map_err(|e| format!("seize: {e}"))?;
            ptrace::interrupt(t).map_err(|e| format!("interrupt: {e}"))?;
            waitpid(t, Some(nix::sys::wait::WaitPidFlag::__WALL)).map_err(|e| format!("wait: {e}"))?;
            let off = 848 + 7 * 8; // offsetof(struct user, u_debugreg) on x86-64 = 848
            let v = unsafe { libc::ptrace(libc::PTRACE_PEEKUSER, tid, off as *mut libc::c_void, 0) };
            let _ = ptrace::detach(t, None);
            Ok(v)
        })();
        match r {
            Ok(v) => o.insert(tid.to_string(), json!(v)),
            Err(e) => o.insert(tid.to_string(), json!(e)),
        };
    }
    Value::Object(o)
}

/// rip of a ptrace-stopped task as the kernel reports it in /proc/<pid>/task/<tid>/syscall
fn proc_pc(pid: i32, tid: i32) -> Option<u64> {
    let s = std::fs::read_to_string(format!("/proc/{pid}/task/{tid}/syscall")).ok()?;
    let last = s.split_whitespace().last()?;
    u64::from_str_radix(last.trim_start_matches("0x"), 16).ok()
}

fn views_json(v: &[bugstalker::debugger::BreakpointView], b: u64) -> Value {
    Value::Array(
        v.iter()
            .map(|bp| {
                let (kind, a) = match bp.addr {
                    Address::Relocated(r) => ("reloc", u64::from(r)),
                    Address::Global(g) => ("global", u64::from(g)),
                };
                let link = if kind == "reloc" { a.wrapping_sub(b) } else { a };
                json!({"num": bp.number, "kind": kind, "addr": a, "link": link,
                       "line": bp.place.as_ref().map(|p| p.line_number),
                       "file": bp.place.as_ref().map(|p| p.file.to_string_lossy().to_string())})
            })
            .collect(),
    )
}

fn observe(cx: &Ctx) -> Value {
    let Some(d) = cx.dbg.as_ref() else { return json!({"status": "gone"}) };
    let b = bias(&cx.elf);
    let alive = probe::process_state(cx.pid).map(|s| s != "Z").unwrap_or(false);
    let mut o = serde_json::Map::new();
    o.insert("alive".into(), json!(alive));
    o.insert("proc_state".into(), json!(probe::process_state(cx.pid)));
    let snap = d.breakpoints_snapshot();
    o.insert("snapshot".into(), views_json(&snap, b));
    drop(snap);
    if !alive {
        return Value::Object(o);
    }
    let tid = d.ecx().pid_on_focus().as_raw();
    o.insert("focus".into(), json!(tid));
    let started = d.thread_state().is_ok();
    o.insert("started".into(), json!(started));
    if cx.probes.iter().any(|p| p == "tasks") {
        o.insert("tasks".into(), probe::task_states_json(cx.pid));
    }
    if cx.probes.iter().any(|p| p == "text") {
        o.insert("patched".into(), json!(probe::patched_text(cx.pid, &cx.elf)));
    }
    if !started {
        return Value::Object(o);
    }
    let loc = d.ecx().location();
    o.insert("ecx_pc".into(), json!(u64::from(loc.pc).wrapping_sub(b)));
    o.insert("rip_bias".into(), json!(b));
    o.insert("frame_num".into(), json!(d.ecx().frame_num()));
    if let Some(pc) = proc_pc(cx.pid, tid) {
        o.insert("rip".into(), json!(pc.wrapping_sub(b)));
    }
    if cx.tick_addr != 0 {
        o.insert("tick".into(), json!(probe::read_u64(cx.pid, b + cx.tick_addr)));
    }
    if cx.probes.iter().any(|p| p == "bt") {
        match catch(|| d.backtrace(Pid::from_raw(tid))) {
            Ok(Ok(bt)) => {
                let frames: Vec<Value> = bt
                    .iter()
                    .map(|f| {
                        json!({"ip": u64::from(f.ip).wrapping_sub(b), "fn": f.func_name,
                           "line": f.place.as_ref().map(|p| p.line_number),
                           "file": f.place.as_ref().map(|p| p.file.to_string_lossy().to_string())})
                    })
                    .collect();
                o.insert("bt".into(), json!(frames));
            }
            Ok(Err(e)) => {
                o.insert("bt_err".into(), json!(e.to_string()));
            }
            Err(p) => {
                o.insert("bt_panic".into(), json!(p));
            }
        }
        match catch(|| d.frame_info()) {
            Ok(Ok(fi)) => {
                o.insert(
                    "frame_info".into(),
                    json!({"num": fi.num, "cfa": u64::from(fi.cfa), "ret": fi.return_addr.map(|a| u64::from(a).wrapping_sub(b)),
                           "ip": u64::from(fi.frame.ip).wrapping_sub(b)}),
                );
            }
            Ok(Err(e)) => {
                o.insert("frame_info_err".into(), json!(e.to_string()));
            }
            Err(p) => {
                o.insert("frame_info_panic".into(), json!(p));
            }
        }
        // raw stack facts for the CFA / return address check
        if let Some(regs) = proc_regs(cx.pid, tid) {
            o.insert("rsp".into(), json!(regs.0));
        }
    }
    if cx.probes.iter().any(|p| p == "locals") {
        o.insert("locals".into(), read_vars(d, false));
        o.insert("args".into(), read_vars(d, true));
    }
    Value::Object(o)
}

/// (rsp) of a stopped task from /proc/<pid>/task/<tid>/syscall ("-1 <sp> <pc>" when not in a syscall)
fn proc_regs(pid: i32, tid: i32) -> Option<(u64,)> {
    let s = std::fs::read_to_string(format!("/proc/{pid}/task/{tid}/syscall")).ok()?;
    let parts: Vec<&str> = s.split_whitespace().collect();
    if parts.len() >= 2 {
        let sp = parts[parts.len() - 2];
        return u64::from_str_radix(sp.trim_start_matches("0x"), 16).ok().map(|v| (v,));
    }
    None
}

fn scalar_json(v: &bugstalker::debugger::variable::value::Value) -> Value {
    use bugstalker::debugger::variable::value::{SupportedScalar as S, Value as V};
    match v {
        V::Scalar(s) => match &s.value {
            Some(S::I8(x)) => json!(x),
            Some(S::I16(x)) => json!(x),
            Some(S::I32(x)) => json!(x),
            Some(S::I64(x)) => json!(x),
            Some(S::Isize(x)) => json!(x),
            Some(S::U8(x)) => json!(x),
            Some(S::U16(x)) => json!(x),
            Some(S::U32(x)) => json!(x),
            Some(S::U64(x)) => json!(x),
            Some(S::Usize(x)) => json!(x),
            Some(S::Bool(x)) => json!(x),
            Some(other) => json!(format!("{other:?}")),
            None => Value::Null,
        },
        other => json!(format!("{other:?}").chars().take(200).collect::<String>()),
    }
}

fn read_vars(d: &Debugger, args: bool) -> Value {
    let r = catch(|| {
        if args {
            d.read_argument(Dqe::Variable(Selector::Any))
        } else {
            d.read_local_variables()
        }
    });
    match r {
        Ok(Ok(v)) => Value::Array(
            v.iter()
                .map(|q| {
                    let name = q.identity().name.clone();
                    json!({"name": name, "value": scalar_json(q.value())})
                })
                .collect(),
        ),
        Ok(Err(e)) => json!({"err": e.to_string()}),
        Err(p) => json!({"panic": p}),
    }
}

fn run_cmd(cx: &mut Ctx, c: &Value) -> Value {
    let name = c["cmd"].as_str().unwrap_or("");
    let b = bias(&cx.elf);
    let reloc = |a: u64| RelocatedAddress::from(b + a);
    let src = cx.src_name.clone();
    let Some(d) = cx.dbg.as_mut() else { return json!({"ok": false, "err": "debugger gone"}) };
    let r: Result<Result<Value, String>, String> = catch(|| match name {
        "break_addr" => d
            .set_breakpoint_at_addr(reloc(c["addr"].as_u64().unwrap()))
            .map(|v| views_json(&[v], b))
            .map_err(|e| e.to_string()),
        "break_line" => d
            .set_breakpoint_at_line(c["file"].as_str().unwrap_or(&src), c["line"].as_u64().unwrap())
            .map(|v| views_json(&v, b))
            .map_err(|e| e.to_string()),
        "break_fn" => d
            .set_breakpoint_at_fn(c["name"].as_str().unwrap())
            .map(|v| views_json(&v, b))
            .map_err(|e| e.to_string()),
        "remove_addr" => d
            .remove_breakpoint(Address::Relocated(reloc(c["addr"].as_u64().unwrap())))
            .map(|v| views_json(&v.into_iter().collect::<Vec<_>>(), b))
            .map_err(|e| e.to_string()),
        "remove_line" => d
            .remove_breakpoint_at_line(c["file"].as_str().unwrap_or(&src), c["line"].as_u64().unwrap())
            .map(|v| views_json(&v, b))
            .map_err(|e| e.to_string()),
        "remove_fn" => d
            .remove_breakpoint_at_fn(c["name"].as_str().unwrap())
            .map(|v| views_json(&v, b))
            .map_err(|e| e.to_string()),
        "remove_num" => d
            .remove_breakpoint_by_number(c["num"].as_u64().unwrap() as u32)
            .map(|v| views_json(&v.into_iter().collect::<Vec<_>>(), b))
            .map_err(|e| e.to_string()),
        "start" => d.start_debugee_with_reason().map(|r| stop_json(&r)).map_err(|e| e.to_string()),
        "continue" => d.continue_debugee_with_reason().map(|r| stop_json(&r)).map_err(|e| e.to_string()),
        "stepi" => d.stepi().map(|_| Value::Null).map_err(|e| e.to_string()),
        "step" => d.step_into().map(|_| Value::Null).map_err(|e| e.to_string()),
        "next" => d.step_over().map(|_| Value::Null).map_err(|e| e.to_string()),
        "finish" => d.step_out().map(|_| Value::Null).map_err(|e| e.to_string()),
        "frame" => d
            .set_frame_into_focus(c["k"].as_u64().unwrap() as u32)
            .map(|n| json!(n))
            .map_err(|e| e.to_string()),
        "restart" => d.restart_debugee().map(|p| json!({"pid": p.as_raw()})).map_err(|e| e.to_string()),
        "detach" => d.detach().map(|_| Value::Null).map_err(|e| e.to_string()),
        "noop" => Ok(Value::Null),
        // injected call of the puppet's non-ticking helper
        "call" => {
            use bugstalker::debugger::variable::dqe::Literal;
            let arg = c["arg"].as_i64().unwrap_or(7);
            d.call(c["fn"].as_str().unwrap_or("probe_id"), &[Literal::Int(arg)])
                .map(|_| Value::Null)
                .map_err(|e| e.to_string())
        }
        // a process-directed SIGUSR1 sent by the harness while the debuggee sits at a prompt
        "signal" => {
            let pid = d.process().pid().as_raw();
            let r = unsafe { libc::kill(pid, libc::SIGUSR1) };
            if r == 0 { Ok(Value::Null) } else { Err("kill failed".to_string()) }
        }
        "watch_addr" => {
            use bugstalker::debugger::register::debug::{BreakCondition, BreakSize};
            let sz = match c["size"].as_u64().unwrap_or(8) {
                1 => BreakSize::Bytes1,
                2 => BreakSize::Bytes2,
                4 => BreakSize::Bytes4,
                _ => BreakSize::Bytes8,
            };
            d.set_watchpoint_on_memory(reloc(c["addr"].as_u64().unwrap()), sz, BreakCondition::DataWrites, false)
                .map(|v| json!({"num": v.number}))
                .map_err(|e| e.to_string())
        }
        // keep continuing (through any remaining breakpoints) until the program has exited
        "run_to_exit" => {
            let mut n = 0;
            loop {
                match d.continue_debugee_with_reason() {
                    Ok(bugstalker::debugger::StopReason::DebugeeExit(c)) => break Ok(json!({"kind": "exit", "code": c, "continues": n})),
                    Ok(_) if n < 500 => n += 1,
                    Ok(r) => break Ok(json!({"kind": "gave_up", "last": stop_json(&r)})),
                    Err(e) => break Err(e.to_string()),
                }
            }
        }
        other => Err(format!("unknown command {other}")),
    });
    match r {
        Ok(Ok(v)) => json!({"ok": true, "ret": v}),
        Ok(Err(e)) => json!({"ok": false, "err": e}),
        Err(p) => json!({"ok": false, "panic": p, "panic_at": LAST_PANIC_AT.lock().unwrap().clone()}),
    }
}

fn main() {
    let argv: Vec<String> = std::env::args().collect();
    if argv.len() < 4 {
        vharness::tool_error("usage: sess <exe> <script.json> <out.ndjson>");
    }
    if std::env::var_os("SESS_LOG").is_some() {
        let _ = env_logger::Builder::new().filter_level(log::LevelFilter::Debug).try_init();
    }
    let script = read_json(&argv[2]);
    let mut out = NdjsonOut::create(&argv[3]);
    let elf = Elf::load(&argv[1]);
    #[allow(unused_assignments)]
    let args: Vec<String> = script["args"]
        .as_array()
        .map(|a| a.iter().map(|x| x.as_str().unwrap_or("").to_string()).collect())
        .unwrap_or_default();
    // a panic inside the debugger must not take the hook output with it
    std::panic::set_hook(Box::new(|info| {
        if let Some(l) = info.location() {
            *LAST_PANIC_AT.lock().unwrap() = format!("{}:{}", l.file(), l.line());
            if std::env::var_os("SESS_BACKTRACE").is_some() {
                eprintln!("{}", std::backtrace::Backtrace::force_capture());
            }
        }
    }));
    let mut attach = script["attach"].as_bool().unwrap_or(false);
    let mut ext_child: Option<std::process::Child> = None;
    let (d, rec, outp, pid) = if attach {
        // start the puppet natively (real ASLR); it waits in a pre-main gate (PUPPET_WAIT) for one byte on stdin
        dbg::init();
        let mut ch = std::process::Command::new(&argv[1])
            .args(&args)
            .env("PUPPET_WAIT", "1")
            .stdin(std::process::Stdio::piped())
            .stdout(std::process::Stdio::piped())
            .stderr(std::process::Stdio::piped())
            .spawn()
            .unwrap_or_else(|e| vharness::tool_error(&format!("spawn {}: {e}", argv[1])));
        let pid = Pid::from_raw(ch.id() as i32);
        // wait until it sits in the gate: read(0, ..) shows up as "0 0x0 ..." in /proc/<pid>/syscall
        for _ in 0..500 {
            let sc = std::fs::read_to_string(format!("/proc/{}/syscall", pid.as_raw())).unwrap_or_default();
            if sc.starts_with("0 0x0 ") {
                break;
            }
            std::thread::sleep(std::time::Duration::from_millis(10));
        }
        let outp = Output::default();
        {
            use std::io::Read;
            let mut so = ch.stdout.take().unwrap();
            let buf = outp.stdout.clone();
            let eofs = outp.reader_started();
            std::thread::spawn(move || {
                let mut b = [0u8; 4096];
                while let Ok(n) = so.read(&mut b) {
                    if n == 0 {
                        break;
                    }
                    buf.lock().unwrap().extend_from_slice(&b[..n]);
                }
                eofs.fetch_add(1, std::sync::atomic::Ordering::SeqCst);
            });
        }
        ATTACHED_BIAS.store(probe::load_bias(pid.as_raw(), &elf), std::sync::atomic::Ordering::Relaxed);
        let rec = Recorder::default();
        // output of a process the debugger launches itself later on (restart of the attached program)
        let (r1, w1) = os_pipe::pipe().unwrap();
        let (r2, w2) = os_pipe::pipe().unwrap();
        dbg::drain_more(r1, &outp, false);
        dbg::drain_more(r2, &outp, true);
        let d = bugstalker::debugger::DebuggerBuilder::new()
            .with_hooks(rec.clone())
            .build_attached(pid, w1, w2)
            .unwrap_or_else(|e| vharness::tool_error(&format!("attach: {e}")));
        // open the gate: the byte is read once the debugger lets the process run (stdin stays open:
        // the puppet waits once more before its final report so that it can be inspected after release)
        {
            use std::io::Write;
            let _ = ch.stdin.as_mut().unwrap().write_all(b"g");
            let _ = ch.stdin.as_mut().unwrap().flush();
        }
        // watchdog: a command that runs the program to its end would block in the puppet's second gate
        // (before the final report); if a command takes longer than 15 s the gate is opened
        {
            let si = ch.stdin.take();
            let flag = BUSY_SINCE.clone();
            std::thread::spawn(move || {
                let mut si = si;
                loop {
                    std::thread::sleep(std::time::Duration::from_millis(500));
                    let t = flag.load(std::sync::atomic::Ordering::Relaxed);
                    if t == u64::MAX {
                        // session over: open the gate for the released process
                        if let Some(mut s) = si.take() {
                            use std::io::Write;
                            let _ = s.write_all(b"g");
                        }
                        return;
                    }
                    if t != 0 && now_ms().saturating_sub(t) > 15_000 {
                        if let Some(mut s) = si.take() {
                            use std::io::Write;
                            let _ = s.write_all(b"g");
                            let _ = s.flush();
                        }
                    }
                }
            });
        }
        ext_child = Some(ch);
        (d, rec, outp, pid)
    } else {
        dbg::launch(&argv[1], &args)
    };
    let mut cx = Ctx {
        old_pids: vec![],
        dbg: Some(d),
        rec,
        out: outp,
        pid: pid.as_raw(),
        elf,
        tick_addr: script["tick"].as_u64().unwrap_or(0),
        probes: script["probes"]
            .as_array()
            .map(|a| a.iter().map(|x| x.as_str().unwrap_or("").to_string()).collect())
            .unwrap_or_default(),
        src_name: script["src"].as_str().unwrap_or("").to_string(),
    };
    out.emit(&json!({"ev": "meta", "pid": cx.pid, "pie": cx.elf.is_pie}));
    let cmds = script["cmds"].as_array().cloned().unwrap_or_default();
    for (k, c) in cmds.iter().enumerate() {
        let name = c["cmd"].as_str().unwrap_or("");
        if name == "drop" {
            let d = cx.dbg.take();
            let r = catch(move || drop(d));
            std::thread::sleep(std::time::Duration::from_millis(60));
            let stale: Vec<Value> = cx
                .old_pids
                .iter()
                .filter_map(|p| probe::process_state(*p).map(|s| json!({"pid": p, "state": s})))
                .collect();
            out.emit(&json!({"ev": "obs", "k": k, "cmd": c, "res": {"ok": r.is_ok(), "panic": r.err()},
                "hooks": cx.rec.take(), "after": {"proc_state": probe::process_state(cx.pid), "tasks": probe::task_states_json(cx.pid), "stale": stale}}));
            continue;
        }
        BUSY_SINCE.store(now_ms(), std::sync::atomic::Ordering::Relaxed);
        let res = run_cmd(&mut cx, c);
        BUSY_SINCE.store(0, std::sync::atomic::Ordering::Relaxed);
        if name == "restart" {
            if let Some(p) = res["ret"]["pid"].as_i64() {
                if p as i32 != cx.pid {
                    cx.old_pids.push(cx.pid);
                }
                cx.pid = p as i32;
                if attach {
                    // the debugger has killed the attached process and launched the program itself: from here
                    // on this is a launched program (no ASLR, quitting must leave nothing behind).  The old
                    // process was a child of this harness: collect it (if the debugger's waits have not).
                    if let Some(mut ch) = ext_child.take() {
                        for _ in 0..200 {
                            match ch.try_wait() {
                                Ok(None) => std::thread::sleep(std::time::Duration::from_millis(10)),
                                _ => break,
                            }
                        }
                    }
                    ATTACHED_BIAS.store(probe::load_bias(cx.pid, &cx.elf), std::sync::atomic::Ordering::Relaxed);
                    attach = false;
                }
            }
        }
        let hooks = cx.rec.take();
        let mut after = if res.get("panic").is_some() { json!({"status": "panicked"}) } else { observe(&cx) };
        if name == "restart" {
            std::thread::sleep(std::time::Duration::from_millis(30));
        }
        if let Some(o) = after.as_object_mut() {
            let stale: Vec<Value> = cx
                .old_pids
                .iter()
                .filter_map(|p| probe::process_state(*p).map(|s| json!({"pid": p, "state": s})))
                .collect();
            o.insert("stale".into(), json!(stale));
        }
        out.emit(&json!({"ev": "obs", "k": k, "cmd": c, "res": res, "hooks": hooks, "after": after}));
        if res.get("panic").is_some() {
            // the debugger's state is unknown after a panic: stop the session here
            if let Some(d) = cx.dbg.take() {
                std::mem::forget(d);
            }
            unsafe { libc::kill(cx.pid, libc::SIGKILL) };
            break;
        }
    }
    // attached process released (detach / drop): look at it independently and let it finish
    if attach && cx.dbg.is_none() && ext_child.is_some() && probe::process_state(cx.pid).map(|s| s == "t").unwrap_or(false) {
        // the session ended in a debugger panic: the process is still traced by this (dead) session
        unsafe { libc::kill(cx.pid, libc::SIGKILL) };
        if let Some(mut ch) = ext_child.take() {
            let _ = ch.wait();
        }
        out.emit(&json!({"ev": "end", "stdout": cx.out.stdout_string(), "stderr": cx.out.stderr_string()}));
        return;
    }
    if attach {
        if let Some(d) = cx.dbg.take() {
            let r = catch(move || drop(d));
            out.emit(&json!({"ev": "teardown", "ok": r.is_ok(), "panic": r.err(), "proc_state": probe::process_state(cx.pid)}));
        }
        // the released process runs on and then waits in its second gate (before the final report)
        for _ in 0..300 {
            let sc = std::fs::read_to_string(format!("/proc/{}/syscall", cx.pid)).unwrap_or_default();
            if sc.starts_with("0 0x0 ") || probe::process_state(cx.pid).map(|s| s == "Z").unwrap_or(true) {
                break;
            }
            std::thread::sleep(std::time::Duration::from_millis(10));
        }
        let st = probe::process_state(cx.pid);
        let tasks = probe::task_states_json(cx.pid);
        let patched = probe::patched_text(cx.pid, &cx.elf);
        let dr7 = if st.is_some() { independent_dr7(cx.pid) } else { Value::Null };
        let mut code = None;
        if let Some(mut ch) = ext_child.take() {
            BUSY_SINCE.store(u64::MAX, std::sync::atomic::Ordering::Relaxed);
            // give it time to finish natively
            for _ in 0..100 {
                match ch.try_wait() {
                    Ok(Some(s)) => {
                        code = s.code();
                        break;
                    }
                    _ => std::thread::sleep(std::time::Duration::from_millis(50)),
                }
            }
            if code.is_none() {
                let _ = ch.kill();
                let _ = ch.wait();
            }
        }
        cx.out.wait_eof(std::time::Duration::from_secs(if code.is_some() { 10 } else { 1 }));
        out.emit(&json!({"ev": "released", "proc_state": st, "tasks": tasks, "patched": patched, "dr7": dr7,
            "exit_code": code, "stdout": cx.out.stdout_string()}));
        out.emit(&json!({"ev": "end", "stdout": cx.out.stdout_string(), "stderr": cx.out.stderr_string()}));
        return;
    }
    // teardown: drop the debugger (this is itself part of C11's observations)
    if let Some(d) = cx.dbg.take() {
        let r = catch(move || drop(d));
        std::thread::sleep(std::time::Duration::from_millis(60));
        out.emit(&json!({"ev": "teardown", "ok": r.is_ok(), "panic": r.err(),
            "proc_state": probe::process_state(cx.pid)}));
    }
    // everything the program wrote is in the pipes; read them to their end (the writers are gone once the
    // program has exited and the debugger is dropped) instead of trusting the scheduler
    let gone = probe::process_state(cx.pid).is_none();
    cx.out.wait_eof(std::time::Duration::from_secs(if gone { 10 } else { 1 }));
    out.emit(&json!({"ev": "end", "stdout": cx.out.stdout_string(), "stderr": cx.out.stderr_string()}));
    // never leave a debuggee behind
    unsafe { libc::kill(cx.pid, libc::SIGKILL) };
}

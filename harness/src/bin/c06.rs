//! C06 driver: reads every variable of a generated puppet through the real `Debugger` API and writes
//! the projected `Value` trees as ndjson.  The driver never judges; tools/checks/c06.py compares the
//! projection with the abstract value TLC computed from spec/Values.tla.
//!
//!   c06 read <puppet> <file> <line> <plan.json> <out.ndjson>
//!
//! plan.json: {"vars":[{"name":..,"kind":"local"|"arg"|"static"|"tls"}, ..], "skip":[names]}
//! Output rows:
//!   {"echo": "<puppet stdout up to the probe line>"}
//!   {"begin": <what>}                       before every call into the code under test
//!   {"locals": {"r":"ok","n":N} | {"r":"panic"|"error","msg":..}}     read_local_variables()
//!   {"name":..,"kind":..,"api":"locals"|"variable"|"argument","res": {"r":"value","v":<projection>,"ty":..,
//!       "render":..} | {"r":"none","why":..} | {"r":"multi","n":..} | {"r":"panic","msg":..}}
use bugstalker::debugger::variable::dqe::{Dqe, Selector};
use bugstalker::debugger::variable::execute::QueryResult;
use bugstalker::debugger::variable::render::RenderValue;
use bugstalker::debugger::variable::value::specialization::SpecializedValue;
use bugstalker::debugger::variable::value::{Member, SupportedScalar, Value as BsValue};
use bugstalker::ui::generic::variable::render_value;
use serde_json::{json, Value};
use std::cell::RefCell;
use vharness::{catch, read_json, tool_error, NdjsonOut};

const MAX_DEREF_DEPTH: usize = 6;

fn scalar(s: &SupportedScalar) -> Value {
    match s {
        SupportedScalar::I8(v) => json!({"k":"int","v":v.to_string(),"w":"i8"}),
        SupportedScalar::I16(v) => json!({"k":"int","v":v.to_string(),"w":"i16"}),
        SupportedScalar::I32(v) => json!({"k":"int","v":v.to_string(),"w":"i32"}),
        SupportedScalar::I64(v) => json!({"k":"int","v":v.to_string(),"w":"i64"}),
        SupportedScalar::I128(v) => json!({"k":"int","v":v.to_string(),"w":"i128"}),
        SupportedScalar::Isize(v) => json!({"k":"int","v":v.to_string(),"w":"isize"}),
        SupportedScalar::U8(v) => json!({"k":"int","v":v.to_string(),"w":"u8"}),
        SupportedScalar::U16(v) => json!({"k":"int","v":v.to_string(),"w":"u16"}),
        SupportedScalar::U32(v) => json!({"k":"int","v":v.to_string(),"w":"u32"}),
        SupportedScalar::U64(v) => json!({"k":"int","v":v.to_string(),"w":"u64"}),
        SupportedScalar::U128(v) => json!({"k":"int","v":v.to_string(),"w":"u128"}),
        SupportedScalar::Usize(v) => json!({"k":"int","v":v.to_string(),"w":"usize"}),
        SupportedScalar::F32(v) => json!({"k":"float","bits":format!("{:08x}", v.to_bits()),"w":"f32"}),
        SupportedScalar::F64(v) => json!({"k":"float","bits":format!("{:016x}", v.to_bits()),"w":"f64"}),
        SupportedScalar::Bool(v) => json!({"k":"bool","v":v}),
        SupportedScalar::Char(v) => json!({"k":"char","v":*v as u32}),
        SupportedScalar::Empty() => json!({"k":"unit"}),
    }
}

/// A projector that can follow pointers: `deref` is the real `Value::deref` bound to the parse context
/// of the query result the value came from.
struct Proj<'a> {
    deref: &'a dyn Fn(&BsValue) -> Option<BsValue>,
}

impl Proj<'_> {
    fn members(&self, ms: &[Member], d: usize) -> Value {
        Value::Array(ms.iter().map(|m| json!([m.field_name, self.proj(&m.value, d)])).collect())
    }

    fn items(&self, v: &BsValue, d: usize) -> Value {
        match v {
            BsValue::Array(a) => match &a.items {
                Some(it) => Value::Array(it.iter().map(|i| json!([i.index, self.proj(&i.value, d)])).collect()),
                None => Value::Null,
            },
            _ => Value::Null,
        }
    }

    fn pointee(&self, v: &BsValue, d: usize) -> Value {
        if d >= MAX_DEREF_DEPTH {
            return json!({"k":"cut"});
        }
        match catch(|| (self.deref)(v)) {
            Ok(Some(t)) => self.proj(&t, d + 1),
            Ok(None) => Value::Null,
            Err(p) => json!({"k":"panic","msg":p}),
        }
    }

    fn proj(&self, v: &BsValue, d: usize) -> Value {
        let mut j = self.proj0(v, d);
        if let Value::Object(o) = &mut j {
            o.insert("t".into(), json!(v.r#type().name_fmt()));
        }
        j
    }

    fn proj0(&self, v: &BsValue, d: usize) -> Value {
        match v {
            BsValue::Scalar(s) => match &s.value {
                Some(x) => scalar(x),
                None => json!({"k":"none"}),
            },
            BsValue::Struct(s) => json!({"k":"struct","fields":self.members(&s.members, d)}),
            BsValue::Array(a) => json!({"k":"array","items":self.items(v, d), "has_items": a.items.is_some()}),
            BsValue::CEnum(e) => json!({"k":"cenum","v":e.value}),
            BsValue::RustEnum(e) => match &e.value {
                Some(m) => json!({"k":"enum","variant":m.field_name,"payload":self.proj(&m.value, d)}),
                None => json!({"k":"enum","variant":null}),
            },
            BsValue::Pointer(p) => {
                json!({"k":"ptr","addr":p.value.map(|a| a as usize),"to":self.pointee(v, d)})
            }
            BsValue::Subroutine(_) => json!({"k":"fn"}),
            BsValue::CModifiedVariable(c) => match &c.value {
                Some(x) => json!({"k":"modified","inner":self.proj(x, d)}),
                None => json!({"k":"none"}),
            },
            BsValue::Specialized { value: None, original } => {
                json!({"k":"unspec","fields":self.members(&original.members, d)})
            }
            BsValue::Specialized { value: Some(sv), .. } => match sv {
                SpecializedValue::Vector(x) | SpecializedValue::VecDeque(x) => {
                    let kind = if matches!(sv, SpecializedValue::Vector(_)) { "vec" } else { "vecdeque" };
                    let items = x.structure.members.first().map(|m| self.items(&m.value, d));
                    let cap = x.structure.members.get(1).map(|m| self.proj(&m.value, d));
                    json!({"k":kind,"items":items,"cap":cap})
                }
                SpecializedValue::HashMap(m) | SpecializedValue::BTreeMap(m) => {
                    let kind = if matches!(sv, SpecializedValue::HashMap(_)) { "hashmap" } else { "btreemap" };
                    json!({"k":"map","impl":kind,
                        "kv":m.kv_items.iter().map(|(k, v)| json!([self.proj(k, d), self.proj(v, d)])).collect::<Vec<_>>()})
                }
                SpecializedValue::HashSet(s) | SpecializedValue::BTreeSet(s) => {
                    let kind = if matches!(sv, SpecializedValue::HashSet(_)) { "hashset" } else { "btreeset" };
                    json!({"k":"set","impl":kind,"items":s.items.iter().map(|x| self.proj(x, d)).collect::<Vec<_>>()})
                }
                SpecializedValue::String(s) => json!({"k":"str","impl":"String","v":s.value}),
                SpecializedValue::Str(s) => json!({"k":"str","impl":"&str","v":s.value}),
                SpecializedValue::Cell(c) => json!({"k":"cell","inner":self.proj(c, d)}),
                SpecializedValue::RefCell(c) => json!({"k":"refcell","inner":self.proj(c, d)}),
                SpecializedValue::Rc(p) | SpecializedValue::Arc(p) => {
                    let kind = if matches!(sv, SpecializedValue::Rc(_)) { "rc" } else { "arc" };
                    let as_ptr = BsValue::Pointer(p.clone());
                    json!({"k":"rc","impl":kind,"addr":p.value.map(|a| a as usize),"to":self.pointee(&as_ptr, d)})
                }
                SpecializedValue::Tls(t) => {
                    json!({"k":"tls","inner":t.inner_value.as_ref().map(|x| self.proj(x, d)),
                           "inner_type": t.inner_type.name_fmt()})
                }
                SpecializedValue::Uuid(_) => json!({"k":"uuid"}),
                SpecializedValue::SystemTime(_) => json!({"k":"systime"}),
                SpecializedValue::Instant(_) => json!({"k":"instant"}),
            },
        }
    }
}

/// Project one query result (value + every pointee reachable through `Value::deref`).
fn project(qr: &QueryResult) -> Value {
    let out: RefCell<Value> = RefCell::new(Value::Null);
    let ty = qr.value().r#type().name_fmt().to_string();
    let rendered = catch(|| render_value(qr.value())).unwrap_or_else(|p| format!("<render panic: {p}>"));
    let _ = qr.clone().modify_value(|pcx, v| {
        let deref = |x: &BsValue| x.clone().deref(pcx);
        let p = Proj { deref: &deref };
        *out.borrow_mut() = p.proj(&v, 0);
        Some(v)
    });
    let mut r: String = rendered.chars().take(600).collect();
    if r.len() < rendered.len() {
        r.push('…');
    }
    json!({"r":"value","v":out.into_inner(),"ty":ty,"render":r})
}

fn outcome(res: Result<Result<Vec<QueryResult>, String>, String>) -> Value {
    match res {
        Err(p) => json!({"r":"panic","msg":p}),
        Ok(Err(e)) => json!({"r":"none","why":format!("error: {e}")}),
        Ok(Ok(rs)) => {
            let with_val: Vec<&QueryResult> = rs.iter().filter(|r| r.value.is_some()).collect();
            match with_val.len() {
                0 => json!({"r":"none","why":"empty"}),
                1 => catch(|| project(with_val[0])).unwrap_or_else(|p| json!({"r":"panic","msg":p,"in":"projection"})),
                n => {
                    // several globals of one name (thread-local shims): report all
                    let vs: Vec<Value> = with_val
                        .iter()
                        .map(|q| catch(|| project(q)).unwrap_or_else(|p| json!({"r":"panic","msg":p})))
                        .collect();
                    json!({"r":"multi","n":n,"vs":vs})
                }
            }
        }
    }
}

fn run_read(puppet: &str, file: &str, line: u64, plan: &str, out: &str) {
    let plan = read_json(plan);
    let skip: Vec<String> = plan["skip"]
        .as_array()
        .map(|a| a.iter().filter_map(|s| s.as_str().map(String::from)).collect())
        .unwrap_or_default();
    let mut o = NdjsonOut::create(out);
    let (mut dbg, _rec, output, pid) = vharness::dbg::launch(puppet, &[]);
    dbg.set_breakpoint_at_line(file, line).unwrap_or_else(|e| tool_error(&format!("breakpoint {file}:{line}: {e}")));
    let why = dbg.start_debugee_with_reason().unwrap_or_else(|e| tool_error(&format!("start: {e}")));
    let why = vharness::dbg::stop_json(&why);
    if why["kind"] != "breakpoint" {
        tool_error(&format!("puppet did not reach the probe line: {why}; stderr: {}", output.stderr_string()));
    }
    // the self-report is printed (and flushed) before the probe line
    let mut echo = String::new();
    for _ in 0..400 {
        echo = output.stdout_string();
        if echo.contains("C06-ECHO-END") {
            break;
        }
        std::thread::sleep(std::time::Duration::from_millis(10));
    }
    if !echo.contains("C06-ECHO-END") {
        tool_error(&format!("puppet did not finish its self-report before the probe line; stop {why}; stdout {:?}; stderr: {}", echo, output.stderr_string()));
    }
    o.emit(&json!({"echo": echo}));

    // 1. all locals in one call
    let skip_locals = skip.iter().any(|s| s == "*locals");
    let mut local_rows: Vec<(String, Value)> = vec![];
    if !skip_locals {
        o.emit(&json!({"begin": "*locals"}));
        let res = catch(|| dbg.read_local_variables().map_err(|e| e.to_string()));
        match res {
            Err(p) => o.emit(&json!({"locals": {"r":"panic","msg":p}})),
            Ok(Err(e)) => o.emit(&json!({"locals": {"r":"error","msg":e}})),
            Ok(Ok(rs)) => {
                o.emit(&json!({"locals": {"r":"ok","n":rs.len()}}));
                for q in rs.iter() {
                    let name = q.identity().name.clone().unwrap_or_default();
                    if q.value.is_none() {
                        local_rows.push((name, json!({"r":"none","why":"no value"})));
                        continue;
                    }
                    let pj = catch(|| project(q)).unwrap_or_else(|p| json!({"r":"panic","msg":p,"in":"projection"}));
                    local_rows.push((name, pj));
                }
            }
        }
    }
    for (name, pj) in local_rows {
        o.emit(&json!({"name": name, "api": "locals", "res": pj}));
    }

    // 2. by name: read_variable for everything, read_argument for arguments
    for v in plan["vars"].as_array().unwrap_or(&vec![]) {
        let name = v["name"].as_str().unwrap_or_else(|| tool_error("plan: name"));
        let kind = v["kind"].as_str().unwrap_or("local");
        if skip.iter().any(|s| s == name) {
            continue;
        }
        let apis: &[&str] = if kind == "arg" { &["argument", "variable"] } else { &["variable"] };
        for api in apis {
            o.emit(&json!({"begin": name, "api": api}));
            let q = Dqe::Variable(Selector::by_name(name, false));
            let res = catch(|| {
                if *api == "argument" {
                    dbg.read_argument(q).map_err(|e| e.to_string())
                } else {
                    dbg.read_variable(q).map_err(|e| e.to_string())
                }
            });
            o.emit(&json!({"name": name, "kind": kind, "api": api, "res": outcome(res)}));
        }
    }
    o.emit(&json!({"done": true}));
    std::mem::forget(dbg);
    unsafe { libc::kill(pid.as_raw(), libc::SIGKILL) };
    std::process::exit(0);
}

fn main() {
    let a: Vec<String> = std::env::args().collect();
    match a.get(1).map(|s| s.as_str()) {
        Some("read") if a.len() == 7 => {
            run_read(&a[2], &a[3], a[4].parse().unwrap_or_else(|_| tool_error("line")), &a[5], &a[6])
        }
        _ => tool_error("usage: c06 read <puppet> <file> <line> <plan.json> <out.ndjson>"),
    }
}

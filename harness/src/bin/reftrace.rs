//! reftrace: an independent reference tracer (no BugStalker code involved).
//!
//! Runs a puppet natively under its own PTRACE_TRACEME session with ADDR_NO_RANDOMIZE,
//! single-steps it from `main` until `main` returns, and records for every executed
//! instruction of *user code* (address ranges given on the command line): pc (link-time
//! address), rsp, call depth (tracked from decoded call/ret instructions), the call stack
//! as a list of return addresses, and the values of the puppet's self-reporting statics.
//! Calls that leave the user ranges are stepped over with a private breakpoint.  After
//! `main` returns the process is detached and its stdout / exit status are captured: they
//! are the native behaviour of the program.
//!
//! usage: reftrace <exe> <out.ndjson> --ranges lo-hi[,lo-hi..] --main <hex> [--tick <hex>]
//!                 [--depthsym <hex>] [--max N] [-- args..]

use capstone::prelude::*;
use nix::sys::personality::{self, Persona};
use nix::sys::ptrace;
use nix::sys::signal::Signal;
use nix::sys::wait::{waitpid, WaitStatus};
use nix::unistd::{fork, ForkResult, Pid};
use serde_json::json;
use std::ffi::CString;
use std::io::Read;
use std::os::fd::{AsRawFd, FromRawFd};
use vharness::{probe, tool_error, NdjsonOut};

fn hex(s: &str) -> u64 {
    u64::from_str_radix(s.trim_start_matches("0x"), 16).unwrap_or_else(|_| tool_error(&format!("bad hex {s}")))
}

fn peek(pid: Pid, addr: u64) -> u64 {
    ptrace::read(pid, addr as *mut _).unwrap_or_else(|e| tool_error(&format!("peek {addr:#x}: {e}"))) as u64
}

fn poke(pid: Pid, addr: u64, v: u64) {
    unsafe { ptrace::write(pid, addr as *mut _, v as *mut _) }.unwrap_or_else(|e| tool_error(&format!("poke {addr:#x}: {e}")));
}

/// run to `addr` with a private int3
fn run_to(pid: Pid, addr: u64) -> Option<i32> {
    let orig = peek(pid, addr);
    poke(pid, addr, (orig & !0xff) | 0xcc);
    ptrace::cont(pid, None).unwrap();
    loop {
        match waitpid(pid, None).unwrap() {
            WaitStatus::Stopped(_, Signal::SIGTRAP) => break,
            WaitStatus::Stopped(_, sig) => {
                ptrace::cont(pid, Some(sig)).unwrap();
            }
            WaitStatus::Exited(_, c) => return Some(c),
            WaitStatus::Signaled(_, s, _) => return Some(128 + s as i32),
            _ => {
                ptrace::cont(pid, None).unwrap();
            }
        }
    }
    poke(pid, addr, orig);
    let mut regs = ptrace::getregs(pid).unwrap();
    regs.rip = addr;
    ptrace::setregs(pid, regs).unwrap();
    None
}

fn main() {
    let argv: Vec<String> = std::env::args().collect();
    if argv.len() < 3 {
        tool_error("usage: reftrace <exe> <out> --ranges .. --main ..");
    }
    let exe = argv[1].clone();
    let out_path = argv[2].clone();
    let mut ranges: Vec<(u64, u64)> = vec![];
    let mut main_addr = 0u64;
    let mut tick_addr = 0u64;
    let mut max = 200_000usize;
    let mut args: Vec<String> = vec![];
    let mut i = 3;
    while i < argv.len() {
        match argv[i].as_str() {
            "--ranges" => {
                for r in argv[i + 1].split(',') {
                    let (a, b) = r.split_once('-').unwrap();
                    ranges.push((hex(a), hex(b)));
                }
                i += 2;
            }
            "--main" => {
                main_addr = hex(&argv[i + 1]);
                i += 2;
            }
            "--tick" => {
                tick_addr = hex(&argv[i + 1]);
                i += 2;
            }
            "--max" => {
                max = argv[i + 1].parse().unwrap();
                i += 2;
            }
            "--" => {
                args = argv[i + 1..].to_vec();
                break;
            }
            x => tool_error(&format!("unknown arg {x}")),
        }
    }
    let elf = probe::Elf::load(&exe);
    let (rd, wr) = os_pipe::pipe().unwrap();

    let pid = match unsafe { fork() }.unwrap() {
        ForkResult::Child => {
            personality::set(Persona::ADDR_NO_RANDOMIZE).unwrap();
            unsafe {
                libc::dup2(wr.as_raw_fd(), 1);
                libc::dup2(wr.as_raw_fd(), 2);
            }
            ptrace::traceme().unwrap();
            let c = CString::new(exe.clone()).unwrap();
            let mut av = vec![c.clone()];
            for a in &args {
                av.push(CString::new(a.as_str()).unwrap());
            }
            let _ = nix::unistd::execv(&c, &av);
            std::process::exit(127);
        }
        ForkResult::Parent { child } => child,
    };
    drop(wr);
    let outbuf = std::sync::Arc::new(std::sync::Mutex::new(Vec::<u8>::new()));
    let reader = {
        let ob = outbuf.clone();
        let mut rd = unsafe { std::fs::File::from_raw_fd(libc::dup(rd.as_raw_fd())) };
        std::thread::spawn(move || {
            let mut b = [0u8; 4096];
            while let Ok(n) = rd.read(&mut b) {
                if n == 0 {
                    break;
                }
                ob.lock().unwrap().extend_from_slice(&b[..n]);
            }
        })
    };
    drop(rd);
    match waitpid(pid, None).unwrap() {
        WaitStatus::Stopped(_, Signal::SIGTRAP) => {}
        s => tool_error(&format!("unexpected status after exec: {s:?}")),
    }
    let bias = probe::load_bias(pid.as_raw(), &elf);
    let mut out = NdjsonOut::create(&out_path);
    out.emit(&json!({"ev": "meta", "exe": exe, "bias": bias, "pie": elf.is_pie, "main": main_addr}));
    if let Some(code) = run_to(pid, bias + main_addr) {
        tool_error(&format!("program exited ({code}) before reaching main"));
    }
    let cs = Capstone::new().x86().mode(arch::x86::ArchMode::Mode64).build().unwrap();
    let in_user = |a: u64| ranges.iter().any(|(lo, hi)| a >= *lo && a < *hi);
    let mut depth: i64 = 0;
    let mut stack: Vec<u64> = vec![]; // return addresses (link-time), outermost first
    let mut n = 0usize;
    let mut exit_code: Option<i32> = None;
    'outer: loop {
        let regs = ptrace::getregs(pid).unwrap();
        let pc = regs.rip - bias;
        if !in_user(pc) {
            // left user code without a call we saw (should not happen) -> stop tracing
            out.emit(&json!({"ev": "left_user", "pc": pc}));
            break;
        }
        let w0 = peek(pid, regs.rip);
        let w1 = peek(pid, regs.rip + 8);
        let mut bytes = w0.to_le_bytes().to_vec();
        bytes.extend_from_slice(&w1.to_le_bytes());
        let insns = cs.disasm_count(&bytes, regs.rip, 1).unwrap();
        let ins = insns.iter().next().unwrap_or_else(|| tool_error("disasm failed"));
        let mn = ins.mnemonic().unwrap_or("").to_string();
        let len = ins.bytes().len() as u64;
        let kind = if mn.starts_with("call") {
            "call"
        } else if mn.starts_with("ret") {
            "ret"
        } else {
            "other"
        };
        let tick = if tick_addr != 0 { peek(pid, bias + tick_addr) } else { 0 };
        out.emit(&json!({"ev": "i", "n": n, "pc": pc, "rsp": regs.rsp, "depth": depth, "tick": tick,
            "k": kind, "len": len, "stk": stack}));
        n += 1;
        if n >= max {
            out.emit(&json!({"ev": "truncated"}));
            break;
        }
        // execute it
        ptrace::step(pid, None).unwrap();
        loop {
            match waitpid(pid, None).unwrap() {
                WaitStatus::Stopped(_, Signal::SIGTRAP) => break,
                WaitStatus::Stopped(_, sig) => ptrace::step(pid, Some(sig)).unwrap(),
                WaitStatus::Exited(_, c) => {
                    exit_code = Some(c);
                    break 'outer;
                }
                WaitStatus::Signaled(_, s, _) => {
                    exit_code = Some(128 + s as i32);
                    break 'outer;
                }
                _ => ptrace::step(pid, None).unwrap(),
            }
        }
        match kind {
            "call" => {
                let r2 = ptrace::getregs(pid).unwrap();
                let target = r2.rip - bias;
                let ret = pc + len;
                if in_user(target) {
                    depth += 1;
                    stack.push(ret);
                } else {
                    // external callee: step over it as one unit
                    out.emit(&json!({"ev": "ext", "n": n, "from": pc, "target": target}));
                    if let Some(c) = run_to(pid, bias + ret) {
                        exit_code = Some(c);
                        break 'outer;
                    }
                }
            }
            "ret" => {
                depth -= 1;
                stack.pop();
                if depth < 0 {
                    out.emit(&json!({"ev": "main_returned", "n": n}));
                    break;
                }
            }
            _ => {}
        }
    }
    if exit_code.is_none() {
        let _ = ptrace::detach(pid, None);
        match waitpid(pid, None) {
            Ok(WaitStatus::Exited(_, c)) => exit_code = Some(c),
            Ok(WaitStatus::Signaled(_, s, _)) => exit_code = Some(128 + s as i32),
            _ => {}
        }
    }
    // the pipe reaches EOF when the program (the only other holder of the write end) is gone
    let _ = reader.join();
    let so = String::from_utf8_lossy(&outbuf.lock().unwrap()).to_string();
    out.emit(&json!({"ev": "end", "steps": n, "exit": exit_code, "stdout": so}));
}

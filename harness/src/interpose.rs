//! ptrace()/waitpid() interposition for harness binaries (DESIGN §3.4, App. E).
//!
//! Include in a bin with
//! ```ignore
//! #[path = "../interpose.rs"]
//! mod interpose;
//! ```
//! The including *executable* then defines the C symbols `ptrace` and `waitpid`; because the executable
//! is first in symbol resolution every call the `bugstalker` library makes through `nix`/`libc` passes
//! through here and is forwarded with `dlsym(RTLD_NEXT, ..)`.  No change to /repo is needed.
//!
//! What it does, only on the *tracer thread* (the thread that called [`set_tracer_thread`]; the forked
//! child and all other threads are forwarded untouched):
//!   * records the syscall-grain trace (DESIGN App. B2): state-changing requests normalised
//!     (`cont`, `step`, `interrupt`, `patch`, `setregs`, `pokeuser`, `kill`-like requests, `detach`,
//!     `seize`) and every `wait` with its decoded status; read-only requests only if `record_reads(true)`;
//!   * *hold-before-call gates*: a predicate decides, before a call is forwarded, whether the tracer
//!     thread parks until another thread calls [`release`] (schedule steering);
//!   * seeded delay injection at named points (after a wait returned, before an interrupt, before a
//!     `waitpid(tid)`, before a cont/step);
//!   * optional failure injection (make the n-th matching call fail with an errno).
//!
//! Sequence numbers `n` are taken under one lock at the syscall boundary (after the call returned, so
//! that a `wait` is numbered when its status is known); harness events pushed with [`push`] share the
//! same counter, so the trace is totally ordered without wall-clock merging.
//!
//! Interface (stable; C10 reuses it):
//!   set_tracer_thread(), tracer_tid(), start(), stop(), is_recording(), take(), push(v), record_reads(b),
//!   hold_when(pred), hold_spec(HoldSpec), clear_hold(), wait_parked(timeout) -> Option<Pending>,
//!   release(), set_delays(DelayCfg), clear_delays(), fail_when(pred, errno), clear_fail(),
//!   decode_status(raw) -> Decoded, counters().
#![allow(dead_code)]

use serde_json::{json, Value};
use std::sync::atomic::{AtomicBool, AtomicI32, AtomicU64, Ordering};
use std::sync::{Condvar, Mutex, OnceLock};
use std::time::{Duration, Instant};

// ---- ptrace request numbers (x86_64 linux) --------------------------------------------------------
pub const PTRACE_TRACEME: u32 = 0;
pub const PTRACE_PEEKTEXT: u32 = 1;
pub const PTRACE_PEEKDATA: u32 = 2;
pub const PTRACE_PEEKUSER: u32 = 3;
pub const PTRACE_POKETEXT: u32 = 4;
pub const PTRACE_POKEDATA: u32 = 5;
pub const PTRACE_POKEUSER: u32 = 6;
pub const PTRACE_CONT: u32 = 7;
pub const PTRACE_KILL: u32 = 8;
pub const PTRACE_SINGLESTEP: u32 = 9;
pub const PTRACE_GETREGS: u32 = 12;
pub const PTRACE_SETREGS: u32 = 13;
pub const PTRACE_GETFPREGS: u32 = 14;
pub const PTRACE_SETFPREGS: u32 = 15;
pub const PTRACE_ATTACH: u32 = 16;
pub const PTRACE_DETACH: u32 = 17;
pub const PTRACE_SYSCALL: u32 = 24;
pub const PTRACE_SETOPTIONS: u32 = 0x4200;
pub const PTRACE_GETEVENTMSG: u32 = 0x4201;
pub const PTRACE_GETSIGINFO: u32 = 0x4202;
pub const PTRACE_SETSIGINFO: u32 = 0x4203;
pub const PTRACE_GETREGSET: u32 = 0x4204;
pub const PTRACE_SETREGSET: u32 = 0x4205;
pub const PTRACE_SEIZE: u32 = 0x4206;
pub const PTRACE_INTERRUPT: u32 = 0x4207;
pub const PTRACE_LISTEN: u32 = 0x4208;

pub const PTRACE_EVENT_FORK: i32 = 1;
pub const PTRACE_EVENT_VFORK: i32 = 2;
pub const PTRACE_EVENT_CLONE: i32 = 3;
pub const PTRACE_EVENT_EXEC: i32 = 4;
pub const PTRACE_EVENT_VFORK_DONE: i32 = 5;
pub const PTRACE_EVENT_EXIT: i32 = 6;
pub const PTRACE_EVENT_SECCOMP: i32 = 7;
pub const PTRACE_EVENT_STOP: i32 = 128;

/// offsetof(struct user, u_debugreg) on x86_64
pub const DEBUGREG_OFFSET: u64 = 848;
/// offsetof(struct user_regs_struct, rip)
const RIP_OFFSET: usize = 16 * 8;

/// Normalised name of a ptrace request (the `ev` of the recorded event).
pub fn req_name(req: u32) -> &'static str {
    match req {
        PTRACE_TRACEME => "traceme",
        PTRACE_PEEKTEXT | PTRACE_PEEKDATA => "peek",
        PTRACE_PEEKUSER => "peekuser",
        PTRACE_POKETEXT | PTRACE_POKEDATA => "patch",
        PTRACE_POKEUSER => "pokeuser",
        PTRACE_CONT => "cont",
        PTRACE_KILL => "ptrace_kill",
        PTRACE_SINGLESTEP => "step",
        PTRACE_GETREGS => "getregs",
        PTRACE_SETREGS => "setregs",
        PTRACE_GETFPREGS => "getfpregs",
        PTRACE_SETFPREGS => "setfpregs",
        PTRACE_ATTACH => "attach",
        PTRACE_DETACH => "detach",
        PTRACE_SYSCALL => "syscall",
        PTRACE_SETOPTIONS => "setoptions",
        PTRACE_GETEVENTMSG => "geteventmsg",
        PTRACE_GETSIGINFO => "getsiginfo",
        PTRACE_SETSIGINFO => "setsiginfo",
        PTRACE_GETREGSET => "getregset",
        PTRACE_SETREGSET => "setregset",
        PTRACE_SEIZE => "seize",
        PTRACE_INTERRUPT => "interrupt",
        PTRACE_LISTEN => "listen",
        _ => "other",
    }
}

/// Requests that do not change kernel-visible tracee state (stuttering steps of the model).
pub fn is_read_only(req: u32) -> bool {
    matches!(
        req,
        PTRACE_PEEKTEXT
            | PTRACE_PEEKDATA
            | PTRACE_PEEKUSER
            | PTRACE_GETREGS
            | PTRACE_GETFPREGS
            | PTRACE_GETEVENTMSG
            | PTRACE_GETSIGINFO
            | PTRACE_GETREGSET
    )
}

// ---- wait status decoding ---------------------------------------------------------------------------
#[derive(Debug, Clone, PartialEq)]
pub struct Decoded {
    /// exited | signaled | event_stop | event_clone | event_exit | event_exec | event_fork | event_vfork |
    /// event_vfork_done | event_seccomp | event_other | trap | syscall | signal | continued | unknown
    pub kind: &'static str,
    /// stop signal / terminating signal (0 if none)
    pub sig: i32,
    /// exit code for `exited`, ptrace event number for event_* (0 otherwise)
    pub code: i32,
}

pub fn decode_status(st: i32) -> Decoded {
    let low = st & 0x7f;
    if low == 0 {
        return Decoded { kind: "exited", sig: 0, code: (st >> 8) & 0xff };
    }
    if st == 0xffff {
        return Decoded { kind: "continued", sig: 0, code: 0 };
    }
    if (st & 0xff) == 0x7f {
        let sig = (st >> 8) & 0xff;
        let ev = (st >> 16) & 0xffff;
        if ev != 0 {
            let kind = match ev {
                PTRACE_EVENT_STOP => "event_stop",
                PTRACE_EVENT_CLONE => "event_clone",
                PTRACE_EVENT_EXIT => "event_exit",
                PTRACE_EVENT_EXEC => "event_exec",
                PTRACE_EVENT_FORK => "event_fork",
                PTRACE_EVENT_VFORK => "event_vfork",
                PTRACE_EVENT_VFORK_DONE => "event_vfork_done",
                PTRACE_EVENT_SECCOMP => "event_seccomp",
                _ => "event_other",
            };
            return Decoded { kind, sig, code: ev };
        }
        if sig == (libc::SIGTRAP | 0x80) {
            return Decoded { kind: "syscall", sig: libc::SIGTRAP, code: 0 };
        }
        if sig == libc::SIGTRAP {
            return Decoded { kind: "trap", sig, code: 0 };
        }
        return Decoded { kind: "signal", sig, code: 0 };
    }
    if low != 0x7f {
        return Decoded { kind: "signaled", sig: low, code: 0 };
    }
    Decoded { kind: "unknown", sig: 0, code: 0 }
}

// ---- state ----------------------------------------------------------------------------------------------
static TRACER_TID: AtomicI32 = AtomicI32::new(0);
static RECORDING: AtomicBool = AtomicBool::new(false);
static RECORD_READS: AtomicBool = AtomicBool::new(false);
static NCALLS: AtomicU64 = AtomicU64::new(0);
static NWAITS: AtomicU64 = AtomicU64::new(0);

struct Log {
    n: u64,
    events: Vec<Value>,
    /// tid -> was the last resume of this task a PTRACE_SINGLESTEP
    stepped: std::collections::HashMap<i32, bool>,
}

fn log() -> &'static Mutex<Log> {
    static L: OnceLock<Mutex<Log>> = OnceLock::new();
    L.get_or_init(|| Mutex::new(Log { n: 0, events: vec![], stepped: Default::default() }))
}

/// A call that is about to be forwarded (what gate / failure predicates see).
#[derive(Debug, Clone)]
pub struct Pending {
    /// normalised name: `wait` for waitpid, otherwise [`req_name`]
    pub name: &'static str,
    pub req: u32,
    /// target task (for `wait`: the selector, -1 = any)
    pub tid: i32,
    pub addr: u64,
    pub data: u64,
    /// number of calls (ptrace + waitpid) seen on the tracer thread since `start()`, this one excluded
    pub idx: u64,
}

type Pred = Box<dyn FnMut(&Pending) -> bool + Send>;

struct Gate {
    pred: Option<Pred>,
    parked: Option<Pending>,
    go: bool,
    fail: Option<(Pred, i32)>,
}

fn gate() -> &'static (Mutex<Gate>, Condvar) {
    static G: OnceLock<(Mutex<Gate>, Condvar)> = OnceLock::new();
    G.get_or_init(|| (Mutex::new(Gate { pred: None, parked: None, go: false, fail: None }), Condvar::new()))
}
static GATE_ARMED: AtomicBool = AtomicBool::new(false);
static FAIL_ARMED: AtomicBool = AtomicBool::new(false);

/// Simple declarative hold: park before the `nth` (0-based) call named `name` (optionally on `tid`).
#[derive(Debug, Clone)]
pub struct HoldSpec {
    pub name: &'static str,
    pub tid: Option<i32>,
    pub nth: u32,
    /// keep holding at every later match too (otherwise one-shot)
    pub repeat: bool,
}

#[derive(Debug, Clone, Copy, Default)]
pub struct DelayPoint {
    /// probability in 1/1000
    pub permille: u32,
    pub max_us: u32,
}

/// Seeded delay injection on the tracer thread.
#[derive(Debug, Clone, Copy, Default)]
pub struct DelayCfg {
    pub seed: u64,
    /// after any waitpid returned a status
    pub after_wait: DelayPoint,
    /// before PTRACE_INTERRUPT (inside the group stop)
    pub before_interrupt: DelayPoint,
    /// before waitpid(tid) with a specific tid (inside the group stop / single step)
    pub before_wait_tid: DelayPoint,
    /// before PTRACE_CONT / PTRACE_SINGLESTEP (between the resumes of cont_stopped)
    pub before_resume: DelayPoint,
    /// yield the CPU instead of sleeping when the drawn delay is below this many microseconds
    pub yield_below_us: u32,
}

struct Delays {
    cfg: DelayCfg,
    rng: u64,
    injected: u64,
}
fn delays() -> &'static Mutex<Option<Delays>> {
    static D: OnceLock<Mutex<Option<Delays>>> = OnceLock::new();
    D.get_or_init(|| Mutex::new(None))
}
static DELAYS_ARMED: AtomicBool = AtomicBool::new(false);

// ---- public control -------------------------------------------------------------------------------------
fn gettid() -> i32 {
    unsafe { libc::syscall(libc::SYS_gettid) as i32 }
}

/// Declare the calling thread to be the tracer thread (the one that will own the `Debugger`).
pub fn set_tracer_thread() {
    TRACER_TID.store(gettid(), Ordering::SeqCst);
}
pub fn tracer_tid() -> i32 {
    TRACER_TID.load(Ordering::SeqCst)
}
pub fn on_tracer_thread() -> bool {
    let t = TRACER_TID.load(Ordering::Relaxed);
    t != 0 && t == gettid()
}

/// Start recording (clears nothing; use `take()` to drain).
pub fn start() {
    RECORDING.store(true, Ordering::SeqCst);
}
pub fn stop() {
    RECORDING.store(false, Ordering::SeqCst);
}
pub fn is_recording() -> bool {
    RECORDING.load(Ordering::SeqCst)
}
pub fn record_reads(on: bool) {
    RECORD_READS.store(on, Ordering::SeqCst);
}
/// Drain the recorded events (in sequence order).
pub fn take() -> Vec<Value> {
    std::mem::take(&mut log().lock().unwrap().events)
}
/// Append a harness event (`cmd`, `report`, `probe`, `release`, `send`, ...); gets the next `n`.
/// Recorded even when syscall recording is off.
pub fn push(mut v: Value) -> u64 {
    let mut l = log().lock().unwrap();
    l.n += 1;
    let n = l.n;
    if let Some(o) = v.as_object_mut() {
        o.insert("n".into(), json!(n));
    }
    l.events.push(v);
    n
}
/// (ptrace+waitpid calls, waitpid calls) seen on the tracer thread so far.
pub fn counters() -> (u64, u64) {
    (NCALLS.load(Ordering::SeqCst), NWAITS.load(Ordering::SeqCst))
}

/// Install a gate predicate: evaluated on the tracer thread before every call; `true` parks the tracer
/// until [`release`].  Replaces any previous predicate.
pub fn hold_when(pred: impl FnMut(&Pending) -> bool + Send + 'static) {
    let (m, _) = gate();
    m.lock().unwrap().pred = Some(Box::new(pred));
    GATE_ARMED.store(true, Ordering::SeqCst);
}
pub fn hold_spec(spec: HoldSpec) {
    let mut seen = 0u32;
    let mut done = false;
    hold_when(move |p| {
        if done && !spec.repeat {
            return false;
        }
        if p.name != spec.name || spec.tid.is_some_and(|t| t != p.tid) {
            return false;
        }
        let hit = seen >= spec.nth;
        seen += 1;
        if hit {
            done = true;
        }
        hit
    });
}
/// Remove the gate predicate (a parked tracer stays parked until `release()`).
pub fn clear_hold() {
    let (m, _) = gate();
    m.lock().unwrap().pred = None;
    GATE_ARMED.store(false, Ordering::SeqCst);
}
/// Wait until the tracer thread is parked at a gate; returns the call it is about to make.
pub fn wait_parked(timeout: Duration) -> Option<Pending> {
    let (m, cv) = gate();
    let deadline = Instant::now() + timeout;
    let mut g = m.lock().unwrap();
    loop {
        if let Some(p) = &g.parked {
            if !g.go {
                return Some(p.clone());
            }
        }
        let now = Instant::now();
        if now >= deadline {
            return None;
        }
        g = cv.wait_timeout(g, deadline - now).unwrap().0;
    }
}
/// Is the tracer parked right now?
pub fn parked() -> Option<Pending> {
    let (m, _) = gate();
    let g = m.lock().unwrap();
    if g.go {
        None
    } else {
        g.parked.clone()
    }
}
/// Let a parked tracer thread perform its call.
pub fn release() {
    let (m, cv) = gate();
    let mut g = m.lock().unwrap();
    if g.parked.is_some() {
        g.go = true;
    }
    cv.notify_all();
}

pub fn set_delays(cfg: DelayCfg) {
    *delays().lock().unwrap() = Some(Delays { cfg, rng: cfg.seed | 1, injected: 0 });
    DELAYS_ARMED.store(true, Ordering::SeqCst);
}
/// Returns the number of delays injected since `set_delays`.
pub fn clear_delays() -> u64 {
    DELAYS_ARMED.store(false, Ordering::SeqCst);
    delays().lock().unwrap().take().map(|d| d.injected).unwrap_or(0)
}

/// Make every call for which `pred` is true fail with `errno` without reaching the kernel.
pub fn fail_when(pred: impl FnMut(&Pending) -> bool + Send + 'static, errno: i32) {
    let (m, _) = gate();
    m.lock().unwrap().fail = Some((Box::new(pred), errno));
    FAIL_ARMED.store(true, Ordering::SeqCst);
}
pub fn clear_fail() {
    let (m, _) = gate();
    m.lock().unwrap().fail = None;
    FAIL_ARMED.store(false, Ordering::SeqCst);
}

// ---- internals ------------------------------------------------------------------------------------------
#[derive(Clone, Copy)]
enum Point {
    AfterWait,
    BeforeInterrupt,
    BeforeWaitTid,
    BeforeResume,
}

fn maybe_delay(pt: Point) {
    if !DELAYS_ARMED.load(Ordering::Relaxed) {
        return;
    }
    let us = {
        let mut g = delays().lock().unwrap();
        let Some(d) = g.as_mut() else { return };
        let p = match pt {
            Point::AfterWait => d.cfg.after_wait,
            Point::BeforeInterrupt => d.cfg.before_interrupt,
            Point::BeforeWaitTid => d.cfg.before_wait_tid,
            Point::BeforeResume => d.cfg.before_resume,
        };
        if p.permille == 0 {
            return;
        }
        // xorshift64*
        let mut x = d.rng;
        x ^= x >> 12;
        x ^= x << 25;
        x ^= x >> 27;
        d.rng = x;
        let r = x.wrapping_mul(0x2545F4914F6CDD1D);
        if (r % 1000) as u32 >= p.permille {
            return;
        }
        d.injected += 1;
        let us = ((r >> 20) % (p.max_us.max(1) as u64)) as u32;
        if us < d.cfg.yield_below_us {
            0
        } else {
            us
        }
    };
    if us == 0 {
        std::thread::yield_now();
    } else {
        std::thread::sleep(Duration::from_micros(us as u64));
    }
}

/// Gate + failure injection.  Returns Some(errno) if the call must fail.
fn before_call(p: &Pending) -> Option<i32> {
    if FAIL_ARMED.load(Ordering::Relaxed) {
        let (m, _) = gate();
        let mut g = m.lock().unwrap();
        if let Some((pred, errno)) = g.fail.as_mut() {
            if pred(p) {
                return Some(*errno);
            }
        }
    }
    if GATE_ARMED.load(Ordering::Relaxed) {
        let (m, cv) = gate();
        let mut g = m.lock().unwrap();
        let hold = match g.pred.as_mut() {
            Some(pred) => pred(p),
            None => false,
        };
        if hold {
            g.parked = Some(p.clone());
            g.go = false;
            cv.notify_all();
            while !g.go {
                g = cv.wait(g).unwrap();
            }
            g.parked = None;
            g.go = false;
            cv.notify_all();
        }
    }
    None
}

type PtraceFn = unsafe extern "C" fn(libc::c_uint, libc::pid_t, *mut libc::c_void, *mut libc::c_void) -> libc::c_long;
type WaitpidFn = unsafe extern "C" fn(libc::pid_t, *mut libc::c_int, libc::c_int) -> libc::pid_t;

fn real_ptrace() -> PtraceFn {
    static REAL: OnceLock<usize> = OnceLock::new();
    let p = *REAL.get_or_init(|| unsafe { libc::dlsym(libc::RTLD_NEXT, c"ptrace".as_ptr()) as usize });
    unsafe { std::mem::transmute::<usize, PtraceFn>(p) }
}
fn real_waitpid() -> WaitpidFn {
    static REAL: OnceLock<usize> = OnceLock::new();
    let p = *REAL.get_or_init(|| unsafe { libc::dlsym(libc::RTLD_NEXT, c"waitpid".as_ptr()) as usize });
    unsafe { std::mem::transmute::<usize, WaitpidFn>(p) }
}

unsafe fn errno() -> i32 {
    *libc::__errno_location()
}
unsafe fn set_errno(e: i32) {
    *libc::__errno_location() = e;
}

/// Raw ptrace for probes issued by the harness itself on the tracer thread (never recorded, never gated).
/// # Safety
/// like libc::ptrace
pub unsafe fn raw_ptrace(req: u32, pid: i32, addr: u64, data: u64) -> i64 {
    real_ptrace()(req, pid, addr as *mut libc::c_void, data as *mut libc::c_void) as i64
}

/// rip of a stopped task (tracer thread only); None on error.
pub fn probe_rip(tid: i32) -> Option<u64> {
    let mut regs = [0u64; 27];
    let e = unsafe { errno() };
    let r = unsafe { raw_ptrace(PTRACE_GETREGS, tid, 0, regs.as_mut_ptr() as u64) };
    unsafe { set_errno(e) };
    if r == 0 {
        Some(regs[RIP_OFFSET / 8])
    } else {
        None
    }
}

/// # Safety
/// called like libc's ptrace (variadic in C; the four fixed register arguments are what every caller passes)
#[no_mangle]
pub unsafe extern "C" fn ptrace(req: libc::c_uint, pid: libc::pid_t, addr: *mut libc::c_void, data: *mut libc::c_void) -> libc::c_long {
    let f = real_ptrace();
    if !on_tracer_thread() {
        return f(req, pid, addr, data);
    }
    let idx = NCALLS.fetch_add(1, Ordering::SeqCst);
    let name = req_name(req);
    let pend = Pending { name, req, tid: pid, addr: addr as u64, data: data as u64, idx };
    if let Some(e) = before_call(&pend) {
        if RECORDING.load(Ordering::SeqCst) {
            push(json!({"ev": name, "tid": pid, "ret": -1, "errno": e, "injected": true}));
        }
        set_errno(e);
        return -1;
    }
    match req {
        PTRACE_INTERRUPT => maybe_delay(Point::BeforeInterrupt),
        PTRACE_CONT | PTRACE_SINGLESTEP => maybe_delay(Point::BeforeResume),
        _ => {}
    }
    let recording = RECORDING.load(Ordering::SeqCst);
    // old rip for SETREGS (so that the normaliser can tell a pc rewrite from a plain register write)
    let mut old_rip: Option<u64> = None;
    if recording && req == PTRACE_SETREGS {
        old_rip = probe_rip(pid);
    }
    set_errno(0);
    let ret = f(req, pid, addr, data);
    let e = errno();
    if recording && (RECORD_READS.load(Ordering::Relaxed) || !is_read_only(req)) {
        let err = if ret == -1 && e != 0 { e } else { 0 };
        let mut ev = json!({"ev": name, "tid": pid, "ret": if err != 0 { -1 } else { 0 }, "errno": err});
        let o = ev.as_object_mut().unwrap();
        match req {
            PTRACE_CONT | PTRACE_SINGLESTEP | PTRACE_SYSCALL | PTRACE_DETACH => {
                o.insert("sig".into(), json!(data as u64));
            }
            PTRACE_POKETEXT | PTRACE_POKEDATA => {
                o.insert("addr".into(), json!(addr as u64));
                o.insert("word".into(), json!(data as u64));
                o.insert("byte".into(), json!(if (data as u64) & 0xff == 0xCC { "int3" } else { "orig" }));
            }
            PTRACE_SETREGS => {
                let new_rip = if data.is_null() { 0 } else { *((data as *const u8).add(RIP_OFFSET) as *const u64) };
                o.insert("pc".into(), json!(new_rip));
                o.insert("old".into(), json!(old_rip));
                o.insert("pc_changed".into(), json!(old_rip.is_some_and(|r| r != new_rip)));
            }
            PTRACE_POKEUSER => {
                let off = addr as u64;
                o.insert("off".into(), json!(off));
                if off >= DEBUGREG_OFFSET && off < DEBUGREG_OFFSET + 64 {
                    o.insert("dr".into(), json!((off - DEBUGREG_OFFSET) / 8));
                }
                o.insert("v".into(), json!(data as u64));
            }
            PTRACE_SEIZE | PTRACE_SETOPTIONS => {
                o.insert("options".into(), json!(data as u64));
            }
            PTRACE_GETEVENTMSG => {
                if ret == 0 && !data.is_null() {
                    o.insert("msg".into(), json!(*(data as *const u64)));
                }
            }
            PTRACE_PEEKTEXT | PTRACE_PEEKDATA | PTRACE_PEEKUSER => {
                o.insert("addr".into(), json!(addr as u64));
                o.insert("word".into(), json!(ret as u64));
                o.insert("ret".into(), json!(if err != 0 { -1 } else { 0 }));
            }
            _ => {}
        }
        let mut l = log().lock().unwrap();
        if err == 0 && matches!(req, PTRACE_CONT | PTRACE_SINGLESTEP | PTRACE_SYSCALL) {
            l.stepped.insert(pid, req == PTRACE_SINGLESTEP);
        }
        l.n += 1;
        let n = l.n;
        ev.as_object_mut().unwrap().insert("n".into(), json!(n));
        l.events.push(ev);
    }
    set_errno(e);
    ret
}

/// # Safety
/// called like libc's waitpid
#[no_mangle]
pub unsafe extern "C" fn waitpid(pid: libc::pid_t, wstatus: *mut libc::c_int, options: libc::c_int) -> libc::pid_t {
    let f = real_waitpid();
    if !on_tracer_thread() {
        return f(pid, wstatus, options);
    }
    let idx = NCALLS.fetch_add(1, Ordering::SeqCst);
    NWAITS.fetch_add(1, Ordering::SeqCst);
    let pend = Pending { name: "wait", req: u32::MAX, tid: pid, addr: 0, data: options as u64, idx };
    if let Some(e) = before_call(&pend) {
        if RECORDING.load(Ordering::SeqCst) {
            push(json!({"ev": "wait", "sel": pid, "tid": -1, "kind": "error", "errno": e, "injected": true}));
        }
        set_errno(e);
        return -1;
    }
    if pid > 0 {
        maybe_delay(Point::BeforeWaitTid);
    }
    let mut st: libc::c_int = 0;
    let ret = f(pid, &mut st, options);
    let e = errno();
    if !wstatus.is_null() {
        *wstatus = st;
    }
    if RECORDING.load(Ordering::SeqCst) {
        let ev = if ret > 0 {
            let d = decode_status(st);
            let mut kind = d.kind.to_string();
            let mut si_code: Option<i32> = None;
            let mut child: Option<u64> = None;
            let stepped = log().lock().unwrap().stepped.get(&ret).copied().unwrap_or(false);
            if d.kind == "trap" {
                // refine with si_code (read-only request, issued directly)
                let mut info: libc::siginfo_t = std::mem::zeroed();
                let r = raw_ptrace(PTRACE_GETSIGINFO, ret, 0, &mut info as *mut _ as u64);
                if r == 0 {
                    si_code = Some(info.si_code);
                    kind = match info.si_code {
                        2 => "trap_step",                                    // TRAP_TRACE
                        // measured in this VM: INT3 -> SI_KERNEL (0x80); PTRACE_SINGLESTEP -> TRAP_BRKPT (1)
                        0x80 => "trap_brkpt",
                        1 => if stepped { "trap_step" } else { "trap_brkpt" },
                        4 => "trap_hwbkpt",
                        5 => "syscall",
                        _ => "trap_other",
                    }
                    .to_string();
                }
            } else if d.kind == "event_clone" || d.kind == "event_fork" || d.kind == "event_vfork" {
                let mut msg: u64 = 0;
                if raw_ptrace(PTRACE_GETEVENTMSG, ret, 0, &mut msg as *mut _ as u64) == 0 {
                    child = Some(msg);
                }
            }
            json!({"ev": "wait", "sel": pid, "tid": ret, "kind": kind, "sig": d.sig, "code": d.code,
                   "si_code": si_code, "stepped": stepped, "child": child, "raw": st})
        } else {
            json!({"ev": "wait", "sel": pid, "tid": -1, "kind": if ret == 0 { "nohang" } else { "error" },
                   "errno": if ret < 0 { e } else { 0 }})
        };
        push(ev);
    }
    if ret > 0 {
        maybe_delay(Point::AfterWait);
    }
    set_errno(e);
    ret
}

"""C19: independent scope facts of a puppet binary, decoded from `llvm-dwarfdump --debug-info`.

For the puppet's compile unit: every concrete DW_TAG_subprogram (low/high pc, frame base) becomes a
root block; DW_TAG_lexical_block / DW_TAG_inlined_subroutine become child blocks (low/high pc or
DW_AT_ranges); DW_TAG_formal_parameter / DW_TAG_variable children become variables with name,
decl_line, kind and location entries.  Only the simple location forms are decoded; everything else
is "opaque" (no value judgement, the name is still judged):

  fbreg N                      memory at frame base + N            (frame base must be DW_OP_reg6 RBP)
  fbreg N, deref{m}            memory reached through m pointers   (closure captures)
  regR                         the register's value
  bregR off                    memory at register + off
  bregR off, stack_value       register + off
  consts/constu/litN, stack_value | DW_AT_const_value      a constant
  (no DW_AT_location at all / no list entry at pc)          no value ("none")

Nothing here is shared with BugStalker (gimli is not involved); the text is parsed as printed.
The result is emitted as a TLA+ data module (ScopeData) for spec/TraceScope.tla and as a table for
the driver (harness/src/bin/c19.rs), which only reads the raw bytes/registers the entries name.
"""
import re
from pathlib import Path

from vlib import sh, ToolError

BIG = 2 ** 30          # "whole scope" upper bound of a single-location entry (TLC ints are 32 bit)

SCALARS = {"i8": (1, True), "i16": (2, True), "i32": (4, True), "i64": (8, True), "isize": (8, True),
           "u8": (1, False), "u16": (2, False), "u32": (4, False), "u64": (8, False), "usize": (8, False)}

_DIE = re.compile(r"^0x([0-9a-f]+):(\s+)(DW_TAG_\w+|NULL)\s*$")
_ATTR = re.compile(r"^\s+(DW_AT_\w+)\t\((.*)$")
_RANGE = re.compile(r"\[0x([0-9a-f]+), 0x([0-9a-f]+)\)(?::\s*(.*))?")


_HALFOPEN = re.compile(r"\[0x[0-9a-f]+, 0x[0-9a-f]+\)")


class Die:
    __slots__ = ("off", "tag", "depth", "attrs", "children", "parent")

    def __init__(self, off, tag, depth):
        self.off, self.tag, self.depth = off, tag, depth
        self.attrs, self.children, self.parent = {}, [], None


def parse_dies(text, want_cu):
    """DIE trees of the compile units whose DW_AT_name contains `want_cu`; also the set of names of
    DW_TAG_variable DIEs that are not inside any subprogram, over ALL units (globals / statics)."""
    roots, globals_ = [], set()
    stack = []            # open DIEs of the current unit
    cur_attr = None
    keep = False
    cu = None
    in_sub = 0            # depth of the outermost enclosing subprogram (for the global-name scan), or 0
    for line in text.splitlines():
        m = _DIE.match(line)
        if m:
            cur_attr = None
            depth = len(m.group(2)) // 2
            tag = m.group(3)
            if tag == "NULL":
                continue
            if in_sub and depth <= in_sub:
                in_sub = 0
            if tag == "DW_TAG_compile_unit":
                cu = Die(int(m.group(1), 16), tag, depth)
                stack = [cu]
                keep = None       # decided when DW_AT_name is seen
                in_sub = 0
                continue
            if tag == "DW_TAG_subprogram" and not in_sub:
                in_sub = depth
            d = Die(int(m.group(1), 16), tag, depth)
            d.attrs["_global"] = not in_sub
            if keep is False:
                stack = [d]       # only attributes (name) of variables are needed
                continue
            while stack and stack[-1].depth >= depth:
                stack.pop()
            if stack:
                d.parent = stack[-1]
                stack[-1].children.append(d)
            stack.append(d)
            continue
        m = _ATTR.match(line)
        if m and stack:
            name, val = m.group(1), m.group(2)
            tgt = stack[-1]
            if val.endswith(")") and not _open(val):
                tgt.attrs[name] = val[:-1]
                cur_attr = None
            else:
                tgt.attrs[name] = val
                cur_attr = name
            if tgt.tag == "DW_TAG_compile_unit" and name == "DW_AT_name":
                keep = want_cu in val
                if keep:
                    roots.append(tgt)
            if name == "DW_AT_name" and tgt.tag == "DW_TAG_variable" and tgt.attrs.get("_global"):
                globals_.add(_q(tgt.attrs[name]))
            continue
        if cur_attr and stack and line.strip():
            # continuation line of a multi-line attribute (ranges, location lists)
            s = line.strip()
            tgt = stack[-1]
            if s.endswith(")") and not _open(tgt.attrs[cur_attr] + "\n" + s):
                tgt.attrs[cur_attr] += "\n" + s[:-1]
                cur_attr = None
            else:
                tgt.attrs[cur_attr] += "\n" + s
    return roots, globals_


def _open(val):
    """TRUE while the attribute's outer parenthesis is still open (the value continues on the next line)."""
    depth = 1
    for ch in _HALFOPEN.sub("", val):
        if ch == "(":
            depth += 1
        elif ch == ")":
            depth -= 1
    return depth > 0


def _q(s):
    m = re.search(r'"((?:[^"\\]|\\.)*)"', s)
    return m.group(1) if m else s.strip()


def _hex(s):
    return int(s.strip().split()[0], 16)


def die_ranges(d):
    a = d.attrs
    if "DW_AT_ranges" in a:
        return [(int(x, 16), int(y, 16)) for x, y, _ in _RANGE.findall(a["DW_AT_ranges"])]
    if "DW_AT_low_pc" in a and "DW_AT_high_pc" in a:
        return [(_hex(a["DW_AT_low_pc"]), _hex(a["DW_AT_high_pc"]))]
    return []


def decode_expr(e, fb_is_rbp):
    """one DWARF expression as printed -> (form, a, b)"""
    ops = [o.strip() for o in e.split(",")]
    m = re.fullmatch(r"DW_OP_fbreg ([+-]?\d+)", ops[0])
    if m and all(o == "DW_OP_deref" for o in ops[1:]):
        if not fb_is_rbp:
            return ("opaque", 0, 0)
        return ("fbreg", int(m.group(1)), 0) if len(ops) == 1 else ("fbderef", int(m.group(1)), len(ops) - 1)
    m = re.fullmatch(r"DW_OP_reg(\d+)(?: \w+)?", ops[0])
    if m and len(ops) == 1:
        return ("reg", int(m.group(1)), 0)
    m = re.fullmatch(r"DW_OP_regx (?:0x)?([0-9a-f]+)", ops[0])
    if m and len(ops) == 1:
        return ("reg", int(m.group(1), 16), 0)
    m = re.fullmatch(r"DW_OP_breg(\d+) \w+([+-]\d+)", ops[0])
    if m and len(ops) == 1:
        return ("breg", int(m.group(1)), int(m.group(2)))
    if m and ops[1:] == ["DW_OP_stack_value"]:
        return ("regval", int(m.group(1)), int(m.group(2)))
    if len(ops) == 2 and ops[1] == "DW_OP_stack_value":
        m = re.fullmatch(r"DW_OP_consts ([+-]?\d+)", ops[0]) or re.fullmatch(r"DW_OP_constu (?:0x)?([0-9a-f]+)", ops[0]) \
            or re.fullmatch(r"DW_OP_lit(\d+)", ops[0])
        if m:
            v = int(m.group(1), 16 if "constu" in ops[0] and ops[0].split()[1].startswith("0x") else 10)
            return ("const", v, 0)
    prog = expr_program(ops)
    if prog is not None:
        return ("expr", 0, 0, prog)
    return ("opaque", 0, 0)


_BIN = {"DW_OP_or", "DW_OP_and", "DW_OP_xor", "DW_OP_plus", "DW_OP_minus", "DW_OP_mul", "DW_OP_shl", "DW_OP_shr", "DW_OP_shra"}
_UN = {"DW_OP_neg", "DW_OP_not", "DW_OP_dup"}


def expr_program(ops):
    """a value expression (.. , DW_OP_stack_value) made of register reads, constants and arithmetic ->
    [[op, arg], ..] for the driver's own little stack machine; None if anything else occurs"""
    if len(ops) < 2 or ops[-1] != "DW_OP_stack_value":
        return None
    prog = []
    for o in ops[:-1]:
        m = re.fullmatch(r"DW_OP_breg(\d+) \w+([+-]\d+)", o)
        if m:
            prog.append(["breg", int(m.group(1)), int(m.group(2))])
            continue
        m = re.fullmatch(r"DW_OP_lit(\d+)", o) or re.fullmatch(r"DW_OP_consts ([+-]?\d+)", o)
        if m:
            prog.append(["const", int(m.group(1)), 0])
            continue
        m = re.fullmatch(r"DW_OP_constu (0x[0-9a-f]+|\d+)", o) or re.fullmatch(r"DW_OP_plus_uconst (0x[0-9a-f]+|\d+)", o)
        if m:
            prog.append(["const" if "constu" in o else "plus_uconst", int(m.group(1), 0), 0])
            continue
        if o in _BIN or o in _UN:
            prog.append([o[6:], 0, 0])
            continue
        return None
    return prog


def var_locs(d, fb_is_rbp):
    """[(lo, hi, form, a, b)]; [] = the variable has no value anywhere"""
    a = d.attrs
    if "DW_AT_const_value" in a:
        try:
            return [(0, BIG, "const", int(a["DW_AT_const_value"].strip(), 0), 0)]
        except ValueError:
            return [(0, BIG, "opaque", 0, 0)]
    loc = a.get("DW_AT_location")
    if loc is None:
        return []
    if "\n" in loc or re.match(r"^0x[0-9a-f]+:", loc.strip()):
        res = []
        for x, y, e in _RANGE.findall(loc):
            d = decode_expr(e.strip(), fb_is_rbp) if e else ("opaque", 0, 0)
            res.append((int(x, 16), int(y, 16)) + tuple(d))
        return res
    return [(0, BIG) + tuple(decode_expr(loc.strip(), fb_is_rbp))]


def cu_offsets(exe, srcname):
    """offsets of the compile units whose DW_AT_name mentions the puppet's source file"""
    _, so, _ = sh(["llvm-dwarfdump", "--debug-info", "-r", "0", str(exe)], timeout=300)
    offs, cur = [], None
    for line in so.splitlines():
        m = _DIE.match(line)
        if m and m.group(3) == "DW_TAG_compile_unit":
            cur = m.group(1)
        elif cur and "DW_AT_name" in line:
            if srcname in line:
                offs.append(cur)
            cur = None
    return offs


def global_names(exe, names):
    """which of `names` is (also) the name of a variable with static storage somewhere in the binary"""
    if not names:
        return set()
    cmd = ["llvm-dwarfdump"]
    for n in sorted(names):
        cmd += ["--name", n]
    _, so, _ = sh(cmd + [str(exe)], timeout=300)
    res, tag, nm, isaddr = set(), None, None, False

    def flush():
        if tag == "DW_TAG_variable" and nm in names and isaddr:
            res.add(nm)
    for line in so.splitlines():
        m = _DIE.match(line)
        if m:
            flush()
            tag, nm, isaddr = m.group(3), None, False
        elif "DW_AT_name" in line and nm is None:
            nm = _q(line)
        elif "DW_OP_addr" in line or "DW_AT_external" in line:
            isaddr = True
    flush()
    return res


def decode(exe, srcname, names=(), crate=None):
    """-> dict(blocks=[...], vars=[...], globals=set())"""
    roots = []
    for off in cu_offsets(exe, srcname):
        _, so, _ = sh(["llvm-dwarfdump", f"--debug-info=0x{off}", "-c", str(exe)], timeout=300)
        r, _g = parse_dies(so, srcname)
        roots += r
    if not roots:
        raise ToolError(f"{exe}: no compile unit named like {srcname}")
    globals_ = None
    blocks, vars_ = [], []

    def name_of(d):
        if "DW_AT_name" in d.attrs:
            return _q(d.attrs["DW_AT_name"])
        if "DW_AT_abstract_origin" in d.attrs:
            return _q(d.attrs["DW_AT_abstract_origin"])
        return ""

    def walk(d, block, fn, fb_is_rbp, path):
        for c in d.children:
            if c.tag == "DW_TAG_subprogram":
                rs = die_ranges(c)
                if not rs:
                    continue                      # abstract instance / declaration
                if crate and (path + [""])[0] != crate:
                    continue                      # std / core instantiations inside the puppet's unit
                fb = c.attrs.get("DW_AT_frame_base", "")
                blocks.append({"id": len(blocks) + 1, "parent": 0, "fn": len(blocks) + 1, "ranges": rs, "kind": "fn",
                               "name": "::".join(path + [name_of(c)]), "off": c.off})
                b = len(blocks)
                walk(c, b, b, fb.strip().startswith("DW_OP_reg6"), path + [name_of(c)])
            elif c.tag in ("DW_TAG_lexical_block", "DW_TAG_inlined_subroutine") and block:
                rs = die_ranges(c)
                blocks.append({"id": len(blocks) + 1, "parent": block, "fn": fn, "ranges": rs,
                               "kind": "block" if c.tag == "DW_TAG_lexical_block" else "inlined",
                               "name": name_of(c), "off": c.off})
                walk(c, len(blocks), fn, fb_is_rbp, path)
            elif c.tag in ("DW_TAG_variable", "DW_TAG_formal_parameter") and block:
                ty = _q(c.attrs.get("DW_AT_type", ""))
                size, signed = SCALARS.get(ty, (0, False))
                locs = var_locs(c, fb_is_rbp)
                if any(l[2] == "opaque" for l in locs) and re.search(r"DW_OP_addr", c.attrs.get("DW_AT_location", "")):
                    continue                      # a function-local static: not a stack/register variable
                try:
                    decl = int(c.attrs.get("DW_AT_decl_line", "0").strip())
                except ValueError:
                    decl = 0
                vars_.append({"id": len(vars_) + 1, "name": name_of(c), "block": block, "fn": fn, "decl": decl,
                              "kind": "param" if c.tag == "DW_TAG_formal_parameter" else "local",
                              "type": ty, "size": size, "signed": signed, "locs": locs, "off": c.off})
            elif c.tag == "DW_TAG_namespace":
                walk(c, block, fn, fb_is_rbp, path + [name_of(c)])
            else:
                walk(c, block, fn, fb_is_rbp, path)

    for r in roots:
        walk(r, 0, 0, False, [])
    allnames = set(names) | {v["name"] for v in vars_ if v["name"]}
    return {"blocks": blocks, "vars": vars_, "globals": global_names(exe, allnames)}


def tla_str(s):
    return '"' + s.replace("\\", "\\\\").replace('"', '\\"') + '"'


def tla_module(dw, opt, names, module="ScopeData"):
    bl = []
    for b in dw["blocks"]:
        rs = ", ".join(f"<<{lo}, {hi}>>" for lo, hi in b["ranges"])
        bl.append(f'[parent |-> {b["parent"]}, fn |-> {b["fn"]}, ranges |-> <<{rs}>>, kind |-> {tla_str(b["kind"])}]')
    vs = []
    for v in dw["vars"]:
        ls = ", ".join(f'[lo |-> {l[0]}, hi |-> {l[1]}, form |-> {tla_str(l[2])}, a |-> {l[3]}, b |-> {l[4]}]'
                       for l in v["locs"])
        vs.append(f'[name |-> {tla_str(v["name"])}, block |-> {v["block"]}, decl |-> {v["decl"]}, kind |-> {tla_str(v["kind"])}, '
                  f'scalar |-> {"TRUE" if v["size"] else "FALSE"}, locs |-> <<{ls}>>]')
    gl = ", ".join(tla_str(n) for n in sorted(set(names) & dw["globals"]))
    return (f"---- MODULE {module} ----\nEXTENDS Integers\n"
            f"Blocks == <<\n  " + ",\n  ".join(bl) + "\n>>\n"
            f"Vars == <<\n  " + ",\n  ".join(vs) + "\n>>\n"
            f"GlobalNames == {{ {gl} }}\n"
            f"OptLevel == {opt}\n====\n")


def driver_table(dw):
    """what the driver needs to read raw facts: per variable its function's ranges and location entries"""
    fnr = {b["id"]: b["ranges"] for b in dw["blocks"] if b["kind"] == "fn"}
    return [{"id": v["id"], "fn": [list(r) for r in fnr[v["fn"]]], "size": v["size"], "signed": v["signed"],
             "locs": [{"e": n + 1, "form": l[2], "a": l[3], "b": l[4], "ops": list(l[5]) if len(l) > 5 else []}
                      for n, l in enumerate(v["locs"])]}
            for v in dw["vars"] if v["size"]]


if __name__ == "__main__":
    import sys
    import json
    d = decode(sys.argv[1], sys.argv[2])
    for b in d["blocks"]:
        print("B", b["id"], b["parent"], b["fn"], b["kind"], b["name"], [(hex(x), hex(y)) for x, y in b["ranges"]])
    for v in d["vars"]:
        print("V", v["id"], v["name"], "blk", v["block"], v["kind"], v["type"], v["decl"], v["locs"])
    print("globals", len(d["globals"]))

#!/usr/bin/env python3
"""Regenerates MANIFEST.json from tools/manifest_src.json (single source, validated against the schema)."""
import json, sys
from pathlib import Path
V = Path(__file__).resolve().parent.parent
src = json.loads((V / "tools" / "manifest_src.json").read_text())
props = [json.loads(l)["id"] for l in (V / "properties.jsonl").read_text().splitlines() if l.strip()]
# per-check fragments: tools/checks/cNN.manifest.json  {"level","text","note","technique","design_ref","hooks":[commits]}
for frag in sorted((V / "tools" / "checks").glob("c*.manifest.json")):
    pid = frag.name.split(".")[0].upper()
    src["checks"][pid] = json.loads(frag.read_text())
    for h in src["checks"][pid].get("hooks", []):
        if h not in src["hooks"]["source_commits"]:
            src["hooks"]["source_commits"].append(h)
# known findings: known_findings.d/*.json (each a list of entries) -> known_findings.json
kf = []
for frag in sorted((V / "known_findings.d").glob("*.json")):
    kf += json.loads(frag.read_text())
(V / "known_findings.json").write_text(json.dumps({"findings": kf}, indent=1) + "\n")
checks = []
for pid in props:
    c = src["checks"].get(pid)
    if not c:
        continue
    checks.append({
        "property_id": pid,
        "quick_cmd": f"tools/vcheck {pid} --tier quick",
        "thorough_cmd": f"tools/vcheck {pid} --tier thorough",
        "evidence_file": f"/verif/evidence/{pid}.json",
        "replay_cmd_template": f"tools/vcheck {pid} --replay {{path}}",
        "engine": c.get("engine", "tlc+harness"),
        "level_claimed": {"category": c["level"], "text": c["text"], "design_ref": c.get("design_ref", "DESIGN.md §5")},
        "level_note": c["note"],
        "technique": c["technique"],
    })
na = [{"property_id": p, "reason": src["not_applicable"].get(p, "check not built yet")} for p in props if p not in src["checks"]]
for e in src["engines"]:
    e["serves_properties"] = [c["property_id"] for c in checks]
m = {
    "version": 1,
    "setup_cmd": src["setup_cmd"],
    "hooks": src["hooks"],
    "engines": src["engines"],
    "checks": checks,
    "not_applicable": na,
    "notes": src["notes"],
}
(V / "MANIFEST.json").write_text(json.dumps(m, indent=1) + "\n")
try:
    import jsonschema
    jsonschema.validate(m, json.loads(Path("/root/.vp/MANIFEST.schema.json").read_text()))
    print("MANIFEST.json valid;", len(checks), "checks,", len(na), "not_applicable")
except ImportError:
    print("MANIFEST.json written (jsonschema not importable here)")

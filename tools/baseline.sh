#!/bin/sh
# Runs the repository's pinned baseline with the verification guard OFF and checks that
# every test of BASELINE.json's stable_pass set passes.
cd /repo || exit 2
out=$(mktemp)
cargo nextest run --workspace --no-fail-fast --tool-config-file pb:/w/lib/nextest.toml --profile pb --test-threads 8 --offline >"$out" 2>&1
python3 - "$out" <<'PY'
import json,sys,re,glob,os
import xml.etree.ElementTree as ET
base=json.load(open('/root/.vp/BASELINE.json'))
want=set(base['stable_pass'])
j='/repo/target/nextest/pb/junit.xml'
ok=set()
if os.path.exists(j):
    for tc in ET.parse(j).getroot().iter('testcase'):
        name=tc.get('classname','')+'::'+tc.get('name','')
        failed=any(c.tag in('failure','error') for c in tc)
        # classname looks like "bugstalker::dap" / "bugstalker" ; normalise to baseline ids
        for w in want:
            if w.endswith(tc.get('name','')) and w.startswith(tc.get('classname','').split('::')[0]):
                if not failed: ok.add(w)
missing=sorted(want-ok)
print(f"baseline: {len(ok)}/{len(want)} stable tests passed")
for m in missing: print("MISSING/FAILED", m)
sys.exit(1 if missing else 0)
PY
rc=$?
rm -f "$out"
exit $rc

"""C12: the request catalogue.  Maps model (class, shape) pairs to concrete DAP requests and builds the
recorded-session corpus (re-drives of /repo/tests/dap, argument mutation, out-of-order/repeated requests,
output storms).  Every request carries its (class, shape) label; shape "bad" is reserved for requests whose
*required* argument is missing or ill-typed so that no successful answer exists (the reference demands
success:false for those); "ill" = malformed arguments without that obligation; "ok" = well-formed.

SAFETY (DESIGN §3.4): `launch` only with our puppet or a /nonexistent path, `attach` never with a number,
`terminateThreads` never with a number, `runInTerminal` only /bin/true.  The harness re-checks.
"""
SRC = "/verif/puppets/c12/c12_puppet.rs"
BP_LINE = 9          # body of bp_here
MAIN_LINE = 37       # the call of bp_here in main


def R(command, arguments=None, cls="query", shape="ok", **kw):
    r = {"command": command, "cls": cls, "shape": shape}
    if arguments is not None:
        r["arguments"] = arguments
    r.update(kw)
    return r


def launch(puppet, args=(0, 0, 0, 0, 0, 0, 0)):
    return R("launch", {"program": puppet, "args": [str(x) for x in args]}, "launch", "ok")


INIT = lambda: R("initialize", {"adapterID": "bugstalker"}, "init", "ok")
SETBP = lambda: R("setFunctionBreakpoints", {"breakpoints": [{"name": "bp_here"}]}, "setbp", "ok")
SETBP_LINE = lambda: R("setBreakpoints", {"source": {"path": SRC}, "breakpoints": [{"line": BP_LINE}]}, "setbp", "ok")
CONFDONE = lambda: R("configurationDone", {}, "confdone", "ok")
CONT = lambda: R("continue", {"threadId": "$tid"}, "continue", "ok")
NEXT = lambda: R("next", {"threadId": "$tid"}, "step", "ok")
DISC = lambda term=True: R("disconnect", {"terminateDebuggee": term}, "disconnect", "term" if term else "noterm")
THREADS = lambda: R("threads", {}, "threads", "ok")
STACK = lambda: R("stackTrace", {"threadId": "$tid"})
GOTOT = lambda: R("gotoTargets", {"source": {"path": SRC}, "line": BP_LINE})


def concrete(cls, shape, puppet, args):
    """One concrete request per model (class, shape)."""
    t = {
        ("init", "ok"): INIT,
        ("launch", "ok"): lambda: launch(puppet, args),
        ("launch", "bad"): lambda: R("launch", {"args": []}, "launch", "bad"),
        ("launch", "noexec"): lambda: R("launch", {"program": "/nonexistent/c12"}, "launch", "noexec"),
        ("attach", "bad"): lambda: R("attach", {}, "attach", "bad"),
        ("setbp", "ok"): SETBP,
        ("confdone", "ok"): CONFDONE,
        ("continue", "ok"): CONT,
        ("step", "ok"): NEXT,
        ("pause", "ok"): lambda: R("pause", {"threadId": "$tid"}, "pause", "ok"),
        ("restart", "ok"): lambda: R("restart", {}, "restart", "ok"),
        ("goto", "ok"): lambda: R("restartFrame", {"frameId": "$frame"}, "goto", "ok"),
        ("goto", "bad"): lambda: R("goto", {}, "goto", "bad"),
        ("threads", "ok"): THREADS,
        ("query", "ok"): lambda: R("modules", {}),
        ("query", "bad"): lambda: R("evaluate", {}, "query", "bad"),
        ("terminate", "ok"): lambda: R("terminate", {}, "terminate", "ok"),
        ("disconnect", "term"): lambda: DISC(True),
        ("disconnect", "noterm"): lambda: DISC(False),
        ("termthreads", "empty"): lambda: R("terminateThreads", {"threadIds": []}, "termthreads", "empty"),
        ("termthreads", "bad"): lambda: R("terminateThreads", {"threadIds": "x"}, "termthreads", "bad"),
    }
    return t[(cls, shape)]()


# ------------------------------------------------------------------------------------------------
# the 45 commands: a well-formed instance, and the instance with its required argument removed ("bad")
# ------------------------------------------------------------------------------------------------
def well_formed(puppet):
    return [
        INIT(), launch(puppet), R("attach", {"pid": "not-a-pid"}, "attach", "bad"), CONFDONE(), SETBP_LINE(), SETBP(),
        R("setInstructionBreakpoints", {"breakpoints": []}),
        R("setExceptionBreakpoints", {"filters": ["signal"]}),
        R("dataBreakpointInfo", {"name": "n"}), R("setDataBreakpoints", {"breakpoints": []}),
        R("breakpointLocations", {"source": {"path": SRC}, "line": BP_LINE}),
        R("exceptionInfo", {"threadId": "$tid"}), THREADS(), STACK(), R("scopes", {"frameId": "$frame"}),
        R("variables", {"variablesReference": "$vref"}),
        R("setVariable", {"variablesReference": "$vref", "name": "n", "value": "7"}),
        CONT(), R("restart", {}, "restart", "ok"), R("restartFrame", {"frameId": "$frame"}, "goto", "ok"),
        NEXT(), R("stepIn", {"threadId": "$tid"}, "step", "ok"), R("stepInTargets", {"frameId": "$frame"}),
        R("stepOut", {"threadId": "$tid"}, "step", "ok"), R("stepBack", {"threadId": "$tid"}),
        R("reverseContinue", {"threadId": "$tid"}), R("pause", {"threadId": "$tid"}, "pause", "ok"), GOTOT(),
        R("goto", {"targetId": "$target", "threadId": "$tid"}, "goto", "ok"),
        R("evaluate", {"expression": "n", "frameId": "$frame"}),
        R("setExpression", {"expression": "n", "value": "3", "frameId": "$frame"}),
        R("completions", {"text": "bp_", "column": 4}), R("loadedSources", {}), R("modules", {}),
        R("readMemory", {"memoryReference": "$iref", "count": 8}),
        R("writeMemory", {"memoryReference": "0x10", "data": "AA=="}),
        R("disassemble", {"memoryReference": "$iref", "instructionCount": 4}),
        R("terminateThreads", {"threadIds": []}, "termthreads", "empty"), R("cancel", {"requestId": 1}),
        R("runInTerminal", {"args": ["/bin/true"]}), R("source", {"source": {"path": SRC}}),
        R("terminate", {}, "terminate", "ok"), DISC(True),
    ]


# required argument removed / ill-typed so that the request cannot be performed
BAD = [
    R("launch", {}, "launch", "bad"), R("launch", {"program": 5}, "launch", "bad"),
    R("attach", {}, "attach", "bad"), R("attach", {"pid": "abc"}, "attach", "bad"), R("attach", {"pid": [1]}, "attach", "bad"),
    R("goto", {}, "goto", "bad"), R("goto", {"targetId": "x"}, "goto", "bad"),
    R("restartFrame", {}, "goto", "bad"), R("restartFrame", {"frameId": "f"}, "goto", "bad"),
    R("evaluate", {}, "query", "bad"), R("evaluate", {"expression": 5}, "query", "bad"),
    R("variables", {}, "query", "bad"), R("variables", {"variablesReference": "v"}, "query", "bad"),
    R("setVariable", {}, "query", "bad"), R("setVariable", {"variablesReference": "$vref"}, "query", "bad"),
    R("setExpression", {}, "query", "bad"), R("scopes", {}, "query", "bad"),
    R("readMemory", {}, "query", "bad"), R("readMemory", {"memoryReference": 7, "count": 1}, "query", "bad"),
    R("writeMemory", {}, "query", "bad"), R("writeMemory", {"memoryReference": "0x10"}, "query", "bad"),
    R("disassemble", {}, "query", "bad"), R("gotoTargets", {}, "query", "bad"),
    R("breakpointLocations", {}, "query", "bad"), R("stepInTargets", {}, "query", "bad"),
    R("completions", {}, "query", "bad"), R("runInTerminal", {}, "query", "bad"),
    R("runInTerminal", {"args": []}, "query", "bad"),
    R("terminateThreads", {"threadIds": "x"}, "termthreads", "bad"),
    R("terminateThreads", {"threadIds": ["a"]}, "termthreads", "bad"),
    R("terminateThreads", None, "termthreads", "bad"),
    R("noSuchCommand", {}, "query", "bad"),
]

ILL_ARGS = [None, 5, "x", [], [1, "a"], True, {"threadId": "t", "frameId": [], "variablesReference": {}, "source": 3,
                                              "breakpoints": "b", "expression": None, "filters": 1}]
# commands whose handler acts on the host or ends the session are not given arbitrary arguments
NO_ILL = {"launch", "attach", "terminateThreads", "runInTerminal", "terminate", "disconnect"}


def ill_typed(puppet):
    out = []
    for w in well_formed(puppet):
        if w["command"] in NO_ILL:
            continue
        for a in ILL_ARGS:
            cls = w["cls"] if w["cls"] in ("init", "confdone", "continue", "step", "pause", "restart", "threads") else \
                ("goto" if w["cls"] == "goto" else "query")
            shape = "ok" if cls not in ("query", "goto") else "ill"
            if cls == "goto":
                shape = "bad" if not (isinstance(a, dict)) else "ill"
                if a is None or not isinstance(a, dict):
                    shape = "bad"
            r = R(w["command"], a, cls, shape)
            if cls == "query":
                r["shape"] = "ill"
            out.append(r)
    return out


def prelude_stopped(puppet, args=(0, 0, 0, 0, 0, 0, 0), by_line=True):
    return [INIT(), launch(puppet, args), SETBP_LINE() if by_line else SETBP(), CONFDONE(), STACK()]


# ------------------------------------------------------------------------------------------------
# re-drives of /repo/tests/dap/dap_integration.rs (same request sequences, our puppet as the program)
# ------------------------------------------------------------------------------------------------
def dap_tests(puppet):
    L = lambda: launch(puppet, (1, 1, 1, 1, 0, 0, 0))
    PRE = lambda: [INIT(), L(), SETBP_LINE(), CONFDONE()]
    FR = lambda: PRE() + [STACK()]
    SC = lambda: FR() + [R("scopes", {"frameId": "$frame"})]
    T = {
        "initialize": [INIT()],
        "launch": [INIT(), L()],
        "attach": [INIT(), R("attach", {"pid": "not-a-pid"}, "attach", "bad"), CONFDONE()],
        "configuration_done": PRE(),
        "set_breakpoints": [INIT(), L(), SETBP_LINE()],
        "set_function_breakpoints": [INIT(), L(), SETBP()],
        "set_instruction_breakpoints": PRE() + [GOTOT(), R("setInstructionBreakpoints", {"breakpoints": [{"instructionReference": "$iref"}]})],
        "set_exception_breakpoints": [INIT(), L(), R("setExceptionBreakpoints", {"filters": ["signal"]})],
        "threads": PRE() + [THREADS()],
        "stack_trace": FR(),
        "scopes": SC(),
        "variables": SC() + [R("variables", {"variablesReference": "$vref"})],
        "set_variable": SC() + [R("variables", {"variablesReference": "$vref"}),
                                R("setVariable", {"variablesReference": "$vref", "name": "n", "value": "42"})],
        "evaluate": FR() + [R("evaluate", {"expression": "n", "frameId": "$frame"})],
        "set_expression": FR() + [R("setExpression", {"expression": "n", "value": "41", "frameId": "$frame"})],
        "continue": PRE() + [R("continue", {}, "continue", "ok")],
        "next": PRE() + [NEXT()],
        "step_in": PRE() + [R("stepIn", {"threadId": "$tid"}, "step", "ok")],
        "step_out": PRE() + [R("stepOut", {"threadId": "$tid"}, "step", "ok")],
        "step_back": PRE() + [R("stepBack", {"threadId": "$tid"})],
        "reverse_continue": PRE() + [R("reverseContinue", {})],
        "pause": PRE() + [R("pause", {}, "pause", "ok")],
        "goto_targets": PRE() + [GOTOT()],
        "goto": PRE() + [GOTOT(), R("goto", {"targetId": "$target"}, "goto", "ok")],
        "restart": PRE() + [R("restart", {}, "restart", "ok")],
        "restart_frame": FR() + [R("restartFrame", {"frameId": "$frame"}, "goto", "ok")],
        "read_memory": PRE() + [GOTOT(), R("readMemory", {"memoryReference": "$iref", "count": 8})],
        "write_memory": PRE() + [GOTOT(), R("readMemory", {"memoryReference": "$iref", "count": 1})],
        "disassemble": PRE() + [GOTOT(), R("disassemble", {"memoryReference": "$iref", "instructionCount": 4})],
        "data_breakpoint_info": PRE() + [R("dataBreakpointInfo", {"name": "n"})],
        "set_data_breakpoints": [INIT(), L(), R("dataBreakpointInfo", {"name": "n"}), R("setDataBreakpoints", {"breakpoints": []})],
        "modules": [INIT(), L(), R("modules", {})],
        "loaded_sources": [INIT(), L(), R("loadedSources", {})],
        "source": [INIT(), L(), R("source", {"source": {"path": SRC}})],
        "completions": PRE() + [R("completions", {"text": "bp_", "column": 4})],
        "step_in_targets": FR() + [R("stepInTargets", {"frameId": "$frame"})],
        "breakpoint_locations": [INIT(), L(), R("breakpointLocations", {"source": {"path": SRC}, "line": BP_LINE})],
        "terminate": PRE() + [R("terminate", {}, "terminate", "ok")],
        "terminate_threads": PRE() + [R("terminateThreads", {"threadIds": []}, "termthreads", "empty")],
        "disconnect": PRE(),
        "cancel": [INIT(), R("cancel", {})],
        "run_in_terminal": [INIT(), R("runInTerminal", {"args": ["/bin/true"]})],
        "event_continued": PRE() + [R("continue", {}, "continue", "ok")],
        "event_output": PRE() + [R("continue", {}, "continue", "ok")],
        "event_exited": PRE() + [R("continue", {}, "continue", "ok")],
        "event_invalidated": SC() + [R("variables", {"variablesReference": "$vref"}),
                                     R("setVariable", {"variablesReference": "$vref", "name": "n", "value": "1"})],
    }
    out = []
    for name, reqs in T.items():
        if not any(r["cls"] in ("terminate",) for r in reqs):
            reqs = reqs + [DISC(True)]
        out.append({"id": f"dap-{name}", "requests": reqs, "holds": [], "origin": f"tests/dap test_{name}"})
    return out


def recorded_sessions(puppet, tier, rnd):
    out = dap_tests(puppet)
    quick = tier == "quick"
    # ---- out-of-order / repeated requests ----
    ooo = {
        "continue-before-launch": [INIT(), R("continue", {}, "continue", "ok"), launch(puppet), R("continue", {}, "continue", "ok"), DISC(True)],
        "everything-before-launch": [R("next", {}, "step", "ok"), R("pause", {}, "pause", "ok"), R("restart", {}, "restart", "ok"),
                                     CONFDONE(), THREADS(), STACK(), R("goto", {"targetId": 1}, "goto", "ok"), INIT(), DISC(False)],
        "twice": [INIT(), INIT(), launch(puppet), SETBP(), SETBP(), CONFDONE(), CONFDONE(), THREADS(), THREADS(), DISC(True)],
        "after-exit": [INIT(), launch(puppet), CONFDONE(), R("continue", {}, "continue", "ok"), NEXT(), R("pause", {}, "pause", "ok"),
                       THREADS(), STACK(), INIT(), R("restart", {}, "restart", "ok"), CONFDONE(), DISC(True)],
        "relaunch": [INIT(), launch(puppet), SETBP(), CONFDONE(), launch(puppet), CONFDONE(), launch(puppet), R("terminate", {}, "terminate", "ok")],
        "restart-cycle": [INIT(), launch(puppet), R("restart", {}, "restart", "ok"), THREADS(), R("continue", {}, "continue", "ok"),
                          launch(puppet), R("terminate", {}, "terminate", "ok")],
        "terminate-threads-then-more": [INIT(), launch(puppet), SETBP(), CONFDONE(), R("terminateThreads", {"threadIds": []}, "termthreads", "empty"),
                                        THREADS(), R("continue", {}, "continue", "ok"), launch(puppet), CONFDONE(), DISC(True)],
        "launch-errors": [INIT(), R("launch", {}, "launch", "bad"), R("launch", {"program": "/nonexistent/c12"}, "launch", "noexec"),
                          R("restart", {}, "restart", "ok"), CONFDONE(), launch(puppet), CONFDONE(), DISC(False)],
        # progress ids are predictable (bs-progress-<n>): a client may cancel the progress a later request is going
        # to open; that request must still be answered exactly once (cancelled or not)
        "cancel-next-progress": [INIT(), launch(puppet, (1, 1, 1, 1, 0, 0, 0)), SETBP(), CONFDONE(), THREADS()]
                                + [R("cancel", {"progressId": f"bs-progress-{n}"}) for n in range(1, 9)]
                                + [STACK(), THREADS(), R("scopes", {"frameId": "$frame"}), STACK(), DISC(True)],
        "cancel-progress-storm": [INIT()] + [R("cancel", {"progressId": f"bs-progress-{n}"}) for n in range(1, 7)]
                                 + [launch(puppet, (1, 1, 1, 1, 0, 0, 0)), SETBP_LINE(), CONFDONE(), THREADS(), STACK(),
                                    R("disassemble", {"memoryReference": "$iref", "instructionCount": 4}), DISC(True)],
        "disconnect-first": [DISC(False)],
        "terminate-first": [R("terminate", {}, "terminate", "ok")],
        "steps-to-exit": [INIT(), launch(puppet, (1, 1, 1, 1, 0, 0, 0)), SETBP(), CONFDONE()] + [NEXT() for _ in range(8)] + [DISC(True)],
    }
    for k, reqs in ooo.items():
        out.append({"id": f"ooo-{k}", "requests": reqs, "holds": [], "origin": "out-of-order/repeated"})
    # ---- argument mutation: missing / ill-typed arguments, before launch and while stopped ----
    bad = [dict(r) for r in BAD]
    ill = ill_typed(puppet)
    rnd.shuffle(ill)
    if quick:
        ill = ill[:60]
    chunks = [bad[i:i + 11] for i in range(0, len(bad), 11)] + [ill[i:i + 15] for i in range(0, len(ill), 15)]
    for i, ch in enumerate(chunks):
        out.append({"id": f"mut-none-{i:02d}", "requests": [INIT()] + [dict(r) for r in ch] + [DISC(False)], "holds": [],
                    "origin": "argument mutation, no debuggee"})
        out.append({"id": f"mut-stop-{i:02d}", "requests": prelude_stopped(puppet) + [R("scopes", {"frameId": "$frame"})]
                    + [dict(r) for r in ch] + [DISC(True)], "holds": [], "origin": "argument mutation, stopped at breakpoint"})
    # ---- every well-formed command once, while stopped ----
    wf = [r for r in well_formed(puppet) if r["command"] not in ("launch", "attach", "initialize", "configurationDone", "terminate",
                                                                  "disconnect", "terminateThreads", "restart", "continue", "writeMemory")]
    out.append({"id": "all-commands-stopped", "requests": prelude_stopped(puppet) + [R("scopes", {"frameId": "$frame"}), GOTOT()] + wf + [DISC(True)],
                "holds": [], "origin": "every command once, stopped"})
    # ---- random request sequences over the catalogue (seeded) ----
    n_rand = 8 if quick else 100
    pool = [lambda: INIT(), lambda: launch(puppet, (1, 1, 1, 1, 0, 0, 0)), SETBP, CONFDONE, lambda: R("continue", {}, "continue", "ok"), NEXT,
            lambda: R("pause", {}, "pause", "ok"), lambda: R("restart", {}, "restart", "ok"), THREADS, STACK, lambda: R("modules", {}),
            lambda: R("terminateThreads", {"threadIds": []}, "termthreads", "empty"), lambda: R("evaluate", {}, "query", "bad"),
            lambda: R("launch", {}, "launch", "bad"), lambda: R("stepOut", {"threadId": "$tid"}, "step", "ok"),
            lambda: R("restartFrame", {"frameId": "$frame"}, "goto", "ok")]
    for i in range(n_rand):
        reqs = [rnd.choice(pool)() for _ in range(rnd.randint(4, 9))]
        reqs.append(rnd.choice([lambda: DISC(True), lambda: DISC(False), lambda: R("terminate", {}, "terminate", "ok")])())
        out.append({"id": f"rand-{i:03d}", "requests": reqs, "holds": [], "origin": "random sequence"})
    # ---- free-running output storms (no schedule control) ----
    n_storm = 6 if quick else 40
    for i in range(n_storm):
        n = rnd.choice([5, 12, 25])
        args = (n, n, n, n, i % 3, 0, i % 2)
        if i % 3 == 0:
            reqs = [INIT(), launch(puppet, args), CONFDONE(), THREADS(), DISC(True)]                      # runs straight to exit
        elif i % 3 == 1:
            reqs = [INIT(), launch(puppet, args), SETBP(), CONFDONE(), THREADS(), STACK(), R("continue", {}, "continue", "ok"), THREADS(), DISC(True)]
        else:
            reqs = [INIT(), launch(puppet, args), SETBP(), CONFDONE(), R("modules", {}), NEXT(), NEXT(), NEXT(), NEXT(),
                    R("terminate", {}, "terminate", "ok")]
        out.append({"id": f"storm-{i:02d}", "requests": reqs, "holds": [], "origin": "output storm, free running"})
    return out

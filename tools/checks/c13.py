"""C13 -- DAP breakpoint requests replace, and their options are honoured whenever set.

spec/DapBp.tla holds the REFERENCE (what the property promises) and a model of the adapter + registry as
written, with repair switches.  This check
  1. model-checks the repaired design against the reference (TLC, exhaustive; all four invariants),
     and records which invariants the as-written model violates (informational: the code is judged in 3.);
  2. lets TLC generate behaviours (simulation of the same module; every behaviour carries, per request,
     the reference's expected observation and the prediction of the as-written model and of each
     single-defect variant);
  3. replays each selected behaviour into the real `DebugSession` (harness bin c13, one child process per
     session, watchdog) on the puppet and compares what a DAP client sees with the reference.
Python orchestrates, translates model values to DAP JSON and compares; every expected value is TLC's.
"""
import json
import os
import random
import signal
import subprocess
import time
from concurrent.futures import ThreadPoolExecutor
from pathlib import Path

import c13_puppet
import vlib

LINE_OF = {1: "P", 2: "G", 3: "L", 9: "N"}
ORDER = {"P": 1, "G": 2, "L": 4, "F": 7, "I": 8, "A": 9, "B": 10, "exit": 11}       # program order of the locations
LOG_TAG = {"A": "W", "B": "W"}      # a logpoint's message belongs to the breakpoint, not to the place
RUN_CMDS = ("configurationDone", "continue", "restart")
DEFECTS = ("kindless", "all", "rfilter", "bareident", "insnchk")

TIERS = {
    # E: exhaustive constants;  sim: traces per worker; n: sessions replayed
    "quick": dict(E_runs=[("small", 3)], sim=30, sim_focus=30, sim_workers=8, n=120, jobs=6, tlc_workers=8, replay_s=75, min_sessions=12),
    "thorough": dict(E_runs=[("small", 4), ("focus", 5)], sim=200, sim_focus=150, sim_workers=8, n=2500, jobs=8, tlc_workers=8, replay_s=600,
                     min_sessions=300),
}


# ------------------------------------------------------------------------------------------------
# model value -> DAP request
# ------------------------------------------------------------------------------------------------
def opt_fields(opt, loc):
    return {"none": {}, "cfalse": {"condition": "false"}, "cparen": {"condition": "(hot)"},
            "cbare": {"condition": "hot"}, "hit2": {"hitCondition": "2"},
            "log": {"logMessage": f"LOG@{loc}"}}[opt]


def to_dap(entry, pup):
    """One history entry of the model -> (DAP step, ordered keys of the request)."""
    cmd, arg = entry["cmd"], entry["arg"]
    if cmd == "setBreakpoints":
        keys = sorted(k for k, _ in arg)
        o = dict((k, v) for k, v in arg)
        bps = [dict(line=pup["marks"][LINE_OF[k]], **opt_fields(o[k], LINE_OF[k])) for k in keys]
        return {"cmd": cmd, "args": {"source": {"path": pup["src"]}, "breakpoints": bps}}, keys
    if cmd == "setFunctionBreakpoints":
        keys = sorted(k for k, _ in arg)
        o = dict((k, v) for k, v in arg)
        names = {"fin": "fin", "nosuch": "c13_no_such_function", "work": "c13work"}
        tag = {"fin": "F", "nosuch": "F", "work": "W"}     # one message per breakpoint: both places of `work` log W
        return {"cmd": cmd, "args": {"breakpoints": [dict(name=names[k], **opt_fields(o[k], tag[k])) for k in keys]}}, keys
    if cmd == "setInstructionBreakpoints":
        keys = sorted(k for k, _ in arg)
        o = dict((k, v) for k, v in arg)
        ref = {50: hex(pup["insn_addr"]), 99: "0x10"}
        return {"cmd": cmd, "args": {"breakpoints": [dict(instructionReference=ref[k], **opt_fields(o[k], "I"))
                                                     for k in keys]}}, keys
    if cmd == "setDataBreakpoints":
        keys = sorted(arg)
        ids = {"w": "expr:WATCHED", "nosuch": "expr:c13_no_such_variable"}
        return {"cmd": cmd, "args": {"breakpoints": [{"dataId": ids[k], "accessType": "write"} for k in keys]}}, keys
    if cmd in RUN_CMDS:
        stop = entry["ref"]["stop"]
        names = {k: k for k in ("P", "G", "L", "F", "I", "A", "B")}
        expect = "exit" if stop == "exit" else pup["marks"].get(names.get(stop))
        return {"cmd": cmd, "args": ({"threadId": 0} if cmd == "continue" else {}), "run": True, "expect": expect,
                "peek": pup["iter_addr"]}, []
    raise vlib.ToolError(f"unknown model command {cmd}")


def use_smap(ix, beh):
    """Which replayed sessions go through a sourceMap: every third one, and every second of those in which
    the set of a source file is replaced at least once (where the adapter's per-source records matter)."""
    if sum(1 for e in beh if e["cmd"] == "setBreakpoints") >= 2:
        return ix % 2 == 0
    return ix % 3 == 2


def with_source_map(steps, pup):
    """The same history as a client whose workspace lives elsewhere sees it: launch carries a sourceMap
    (target prefix -> client prefix) and every setBreakpoints names the file by its client path.  Path
    mapping is presentation only: the reference is unchanged."""
    tdir = os.path.dirname(pup["src"])
    cdir = "/c13-client/ws"
    out = []
    for st in steps:
        st = json.loads(json.dumps(st))
        if st["cmd"] == "launch":
            st["args"]["sourceMap"] = {tdir: cdir}
        elif st["cmd"] == "setBreakpoints":
            st["args"]["source"]["path"] = cdir + "/" + os.path.basename(pup["src"])
        out.append(st)
    return out


def model_obs(o, keys):
    """Observation of the model (reference or a cfg) in the comparison form."""
    if "ver" in o:
        d = dict((k, v) for k, v in o["ver"])
        return {"ver": [d[k] for k in keys]}
    return {"outs": [LOG_TAG.get(x, x) for x in o["outs"]], "stop": o["stop"], "it": o.get("it")}


# ------------------------------------------------------------------------------------------------
# real step -> observation
# ------------------------------------------------------------------------------------------------
def real_obs(step, pup, muted):
    """What the client saw, in the model's vocabulary.  `muted`: an exited/terminated event was seen
    earlier in this session (the adapter drops every later event: C12's subject, not ours)."""
    cmd = step["cmd"]
    if cmd not in RUN_CMDS:
        if step.get("success") is not True:
            return {"ver": None, "error": step.get("message")}
        return {"ver": [bool(b.get("verified")) for b in (step.get("body") or {}).get("breakpoints", [])]}
    names = {v: k for k, v in pup["marks"].items()}
    outs = []
    for e in step["events"]:
        if e["event"] == "output" and (e["body"] or {}).get("category") == "console":
            t = (e["body"].get("output") or "")
            outs.append(t[4:].strip() if t.startswith("LOG@") else "?" + t.strip())
    evs = [e["event"] for e in step["events"]]
    if step.get("success") is not True or step.get("extra_responses"):
        stop = "error"
    elif "exited" in evs or "terminated" in evs:
        stop = "exit"
    elif "stopped" in evs:
        st = step.get("stop") or {}
        if st.get("frames", 0) == 0 or st.get("line") is None:
            stop = "phantom"
        else:
            stop = names.get(st["line"], f"line{st['line']}")
    else:
        pr = step.get("probe") or {}
        top = pr.get("top") or {}
        if not pr.get("threads"):
            stop = "exit"
        elif top.get("line") is not None and top.get("frames", 0) > 0:
            stop = names.get(top["line"], f"line{top['line']}")
        else:
            stop = "unknown"
    it = (step.get("stop") or {}).get("peek")
    if it is None:
        it = ((step.get("probe") or {}).get("top") or {}).get("peek")
    return {"outs": outs, "stop": stop, "it": it, "muted": muted}


def same(real, model, muted):
    if "ver" in model:
        return real.get("ver") == model["ver"]
    if real["stop"] != model["stop"]:
        return False
    if model["stop"] in ORDER and model["stop"] != "exit" and real.get("it") is not None \
            and model.get("it") is not None and real["it"] != model["it"]:
        return False              # same line, another arrival (the puppet's own iteration counter)
    return muted or real["outs"] == model["outs"]


def classify(real, ref, keys):
    """Class of a disagreement with the reference, computed from the observation itself."""
    if "ver" in ref:
        if real.get("ver") is None or len(real["ver"]) != len(ref["ver"]):
            return "set_request_failed", None
        for k, r, e in zip(keys, real["ver"], ref["ver"]):
            if r != e:
                return ("verified_true_not_installable" if r else "verified_false_installable"), k
        return "verified_mismatch", None
    rs, es = real["stop"], ref["stop"]
    if rs != es:
        if rs in ("phantom", "error", "unknown") or rs.startswith("line"):
            return {"phantom": "stopped_event_without_location", "error": "run_request_failed"}.get(rs, "stop_at_unknown_line"), rs
        if ORDER.get(rs, 99) < ORDER.get(es, 99):
            return "unexpected_stop", rs
        return "missed_stop", es
    if real.get("it") is not None and ref.get("it") is not None and real["it"] != ref["it"] and rs != "exit":
        return "stop_at_wrong_arrival", f"{rs}: arrival {real['it']} instead of {ref['it']}"
    if len(real["outs"]) < len(ref["outs"]):
        return "missing_log", None
    if len(real["outs"]) > len(ref["outs"]):
        return "unexpected_log", None
    return "wrong_log", None


# ------------------------------------------------------------------------------------------------
# running sessions
# ------------------------------------------------------------------------------------------------
def run_session(exe, steps, workdir, idx, timeout_s=60):
    sp, op = workdir / f"s{idx}.json", workdir / f"o{idx}.json"
    init = [{"cmd": "initialize", "args": {"adapterID": "c13"}}]
    sp.write_text(json.dumps({"steps": init + steps, "timeout_ms": int(timeout_s * 1000 * 0.8), "linger_ms": 30}))
    if op.exists():
        op.unlink()
    p = subprocess.Popen([str(exe), "one", str(sp), str(op)], stdout=subprocess.DEVNULL, stderr=subprocess.PIPE,
                         start_new_session=True)
    try:
        _, err = p.communicate(timeout=timeout_s)
    except subprocess.TimeoutExpired:
        err = b""
    finally:
        try:
            os.killpg(p.pid, signal.SIGKILL)
        except ProcessLookupError:
            pass
        p.wait()
    if op.exists():
        try:
            out = json.loads(op.read_text())
            op.unlink()
            sp.unlink()
            return out
        except json.JSONDecodeError:
            pass
    if p.returncode == 2:
        raise vlib.ToolError("c13 driver: " + err.decode(errors="replace")[-500:])
    return {"steps": [], "end": f"driver_died rc={p.returncode} {err.decode(errors='replace')[-300:]}", "stdout": ""}


def unfinished(out):
    """The session did not finish inside its budget (watchdog, overloaded machine, wedged launch): that is
    never a statement about the property -- it is skipped and counted."""
    return out["end"] == "hang" or out["end"].startswith("driver_died")


def judge(beh, out, pup):
    """Compare one replayed behaviour with the reference.  Returns (record|None, info)."""
    info = {"steps_compared": 0, "drift": None, "muted_steps": 0, "explained_by": None}
    real_steps = out["steps"][2:]            # initialize, launch
    launch = out["steps"][1] if len(out["steps"]) > 1 else None
    if launch is None or launch.get("success") is not True:
        raise vlib.ToolError(f"launch of the puppet failed: {out.get('end')} {launch}")
    alive = set(beh[0]["impl"].keys())       # cfgs whose predictions match the real run so far
    muted = False
    script = [{"cmd": e["cmd"], "arg": e["arg"]} for e in beh]
    for i, e in enumerate(beh):
        dap, keys = to_dap(e, pup)
        ref = model_obs(e["ref"], keys)
        if i >= len(real_steps):
            if out["end"] == "ok":
                raise vlib.ToolError("driver stopped early without a divergence")
            cls = "session_died"
            return ({"cls": cls, "action": e["cmd"], "step": i, "expected": ref, "actual": out["end"],
                     "cause": "unexplained", "script": script}, info)
        real = real_obs(real_steps[i], pup, muted)
        matching = {c for c in alive if same(real, model_obs(e["impl"][c], keys), muted)}
        if "ver" not in ref:
            alive = matching         # flags do not move the program: they do not narrow the run attribution
        info["steps_compared"] += 1
        if muted and e["cmd"] in RUN_CMDS:
            info["muted_steps"] += 1
        if not same(real, ref, muted):
            cls, what = classify(real, ref, keys)
            names = {c[:-2] if c.endswith("_b") else c for c in matching}     # *_b: the other views[0] order
            single = sorted(c for c in names if c != "asw")
            cause = "+".join(single) if single else ("combination" if "asw" in names else "unexplained")
            info["explained_by"] = cause
            rec = {"cls": cls, "action": e["cmd"], "step": i, "what": what, "expected": ref, "actual": real,
                   "cause": cause, "script": script[:i + 1]}
            if "ver" in ref and real.get("ver") is not None:
                # a wrong flag does not move the program: note it and keep comparing
                info.setdefault("flag_records", []).append(rec)
                continue
            return rec, info
        if e["cmd"] in RUN_CMDS and any(ev["event"] in ("exited", "terminated") for ev in real_steps[i]["events"]):
            muted = True
    if out["end"] != "ok":
        return ({"cls": "session_" + out["end"].split(":")[0], "action": "end", "step": len(beh), "expected": "ok",
                 "actual": out["end"], "cause": "unexplained", "script": script}, info)
    if out.get("stdout") and any(l != c13_puppet.EXPECT_STDOUT.strip() for l in out["stdout"].split()):
        return ({"cls": "program_output_changed", "action": "end", "step": len(beh), "expected": c13_puppet.EXPECT_STDOUT.strip(),
                 "actual": out["stdout"], "cause": "unexplained", "script": script}, info)
    # the real run followed the reference: does the as-written model still describe the code?
    if "asw" not in alive and "asw_b" not in alive:
        info["drift"] = "real session conforms to the reference where the as-written model predicts a divergence"
    return None, info


def _core(o):
    d = {k: v for k, v in o.items() if k not in ("nopt", "ngone")}
    if d.get("stop") in ("exit", "error", "phantom"):
        d.pop("it", None)
    return d


def is_clean(beh):
    return all(all(_core(e["impl"][c]) == _core(e["ref"]) for c in e["impl"]) for e in beh)


def option_arrivals(beh):
    """TLC's count of arrivals the reference decided through an option (selection guidance only)."""
    return sum(e["ref"].get("nopt", 0) + e["ref"].get("ngone", 0) for e in beh)


def shape(beh):
    return tuple(e["cmd"][:6] for e in beh)


def select(behs, n, rng):
    """Seeded selection: half of the budget for behaviours on which every model variant agrees with the
    reference (any mismatch there is new), half for behaviours where the as-written model diverges;
    within each half, round-robin over command shapes so that rare shapes (continue chains) are kept."""
    halves = []
    for group in ([b for b in behs if is_clean(b)], [b for b in behs if not is_clean(b)]):
        by = {}
        for b in group:
            by.setdefault(shape(b), []).append(b)
        shapes = sorted(by)
        rng.shuffle(shapes)
        # shapes with more run requests, and more set requests after the start, first
        def weight(s):
            runs = sum(1 for c in s if c in ("config", "contin", "restar"))
            start = s.index("config") if "config" in s else len(s)
            late_sets = sum(1 for c in s[start:] if c.startswith("set"))
            last_is_run = 1 if s and s[-1] in ("contin", "restar") else 0
            return -(runs + late_sets + last_is_run)
        # within the budget, prefer histories in which options actually decide something
        best = {sh: max(option_arrivals(b) for b in by[sh]) for sh in shapes}
        shapes.sort(key=lambda sh: (-min(best[sh], 3), weight(sh)))
        for s in shapes:
            rng.shuffle(by[s])
            by[s].sort(key=option_arrivals)          # pop() takes the behaviours exercising options first
        take, k = [], 0
        while len(take) < n // 2 and any(by.values()):
            s = shapes[k % len(shapes)]
            if by[s]:
                take.append(by[s].pop())
            k += 1
        halves.append(take)
    out = []
    for i in range(max(len(h) for h in halves)):       # interleave: a cut-off run keeps both kinds
        for h in halves:
            if i < len(h):
                out.append(h[i])
    return out


def write_cfg(name, base, **subst):
    text = (vlib.SPEC / base).read_text()
    for k, v in subst.items():
        lines = []
        for line in text.splitlines():
            if line.strip().startswith(k + " ="):
                line = f"  {k} = {v}"
            elif k == "INVARIANTS" and line.startswith("INVARIANTS"):
                line = f"INVARIANTS {v}"
            lines.append(line)
        text = "\n".join(lines) + "\n"
    d = vlib.WORK / "c13" / "cfg"
    d.mkdir(parents=True, exist_ok=True)
    p = d / name
    p.write_text(text)
    return str(p)


def run(rep, tier, replay):
    T = TIERS[tier]
    t0 = time.time()
    work = vlib.WORK / "c13" / f"run-{os.getpid()}"
    work.mkdir(parents=True, exist_ok=True)
    try:
        pup = c13_puppet.build(vlib.PUPPET_BUILD)
    except RuntimeError as ex:
        raise vlib.ToolError(str(ex))
    exe = vlib.cargo_build("c13")

    if replay:
        rec = json.loads(Path(replay).read_text())
        beh = rec.get("behaviour")
        if not beh:
            raise vlib.ToolError("replay file carries no behaviour")
        steps = [{"cmd": "launch", "args": {"program": pup["prog"]}}] + [to_dap(e, pup)[0] for e in beh]
        if rec.get("source_map"):
            steps = with_source_map(steps, pup)
        out = run_session(exe, steps, work, 0)
        if unfinished(out):
            raise vlib.ToolError(f"the replayed session did not finish inside its budget ({out['end']})")
        r, info = judge(beh, out, pup)
        for fr in info.pop("flag_records", []):
            rep.mismatch(fr["cls"], fr["action"], cause=fr["cause"], step=fr["step"], what=fr.get("what"),
                         expected=fr["expected"], actual=fr["actual"], script=fr["script"], behaviour=beh)
        if r:
            rep.mismatch(r["cls"], r["action"], cause=r["cause"], step=r["step"], what=r.get("what"),
                         expected=r["expected"], actual=r["actual"], script=r["script"], behaviour=beh)
        return rep.finish("model_checking", {"states": 1, "transitions": 1, "traces_validated_against_impl": 1,
                                             "samples": [r["script"] if r else [e["cmd"] for e in beh]],
                                             "replay_of": str(replay), "info": info})

    # ---- 1. exhaustive model checking -------------------------------------------------------------
    # quick: every interleaving of <= 3 requests over the small alphabet; thorough: <= 4 over the small
    # alphabet and <= 5 over the focus alphabet (<= 5 over the small alphabet is 63.5 M transitions: run by hand,
    # see design/C13.md), both with coverage
    runs = T["E_runs"]
    e_results = []
    for alpha, maxreq in runs:
        cfgE = write_cfg(f"E_{tier}_{alpha}_{os.getpid()}.cfg", "DapBp_E.cfg", MaxReq=maxreq, Alphabet=f'"{alpha}"')
        r1 = vlib.tlc("DapBpMC", cfgE, workers=T["tlc_workers"], coverage=(tier == "thorough"),
                      timeout=900 if tier == "thorough" else 420, heap="6g", name=f"c13E-{tier}-{alpha}")
        os.unlink(cfgE)
        vlib.tlc_expect_ok(r1, f"DapBp exhaustive (repaired design vs reference, {alpha}/{maxreq})")
        if r1.violated:
            raise vlib.ToolError(f"the repaired design violates {r1.violated} ({alpha}/{maxreq}): reference and model "
                                 "are inconsistent\n" + r1.out[-2500:])
        if tier == "thorough":
            vac = [a for a in ("ASetBreakpoints", "ASetFunctionBreakpoints", "ASetInstructionBreakpoints",
                               "ASetDataBreakpoints", "AConfigurationDone", "AContinue", "ARestart")
                   if r1.coverage.get(a, (0, 0))[1] == 0 and not (a == "ASetDataBreakpoints" and alpha == "focus")]
            if vac:
                raise vlib.ToolError(f"vacuous TLC run ({alpha}/{maxreq}): actions never taken: {vac}")
        vlib.log(f"[tlc] E {alpha}/MaxReq={maxreq}: {r1.distinct} states {r1.generated} transitions depth {r1.depth} "
                 f"{r1.wall:.0f}s")
        e_results.append({"alphabet": alpha, "MaxReq": maxreq, "states": r1.distinct, "transitions": r1.generated,
                          "depth": r1.depth, "wall_s": round(r1.wall)})
    rE = vlib.TlcResult()
    rE.distinct = sum(e["states"] for e in e_results)
    rE.generated = sum(e["transitions"] for e in e_results)
    rE.depth = max(e["depth"] for e in e_results)
    asw_violates = []
    invs = ("InstalledEqualsLatest", "VerifiedIffInstalled", "StopsExactlyAtLatest", "OptionsHonouredWheneverSet")
    # quick: one run with all four (TLC reports the first violated); thorough: one run per invariant
    for inv in (invs if tier == "thorough" else (" ".join(invs),)):
        cfgW = write_cfg(f"W_{abs(hash(inv))}_{os.getpid()}.cfg", "DapBp_W.cfg", MaxReq=T["E_runs"][0][1], INVARIANTS=inv)
        rW = vlib.tlc("DapBpMC", cfgW, workers=2, timeout=120, heap="2g", name=f"c13W-{os.getpid()}")
        vlib.tlc_expect_ok(rW, f"DapBp as written / {inv}")
        if rW.violated:
            asw_violates.append(rW.violated)
        os.unlink(cfgW)
    vlib.log(f"[tlc] as-written model violates: {asw_violates}")

    # ---- 2. behaviour generation ------------------------------------------------------------------
    raw = []
    gen_wall = 0.0
    for cfgG, share in (("DapBp_G.cfg", T["sim"]), ("DapBp_G2.cfg", T["sim_focus"])):
        rG = vlib.tlc("DapBpMC", cfgG, workers=T["sim_workers"], simulate=share, depth=16,
                      seed_arg=vlib.seed(), timeout=900, heap="4g", name=f"c13{cfgG[6:-4]}-{tier}")
        vlib.tlc_expect_ok(rG, f"DapBp generation {cfgG}")
        got = [b for b in vlib.printed(rG.out, "BEH") if isinstance(b, list)]
        if not got:
            raise vlib.ToolError(f"generation {cfgG} produced nothing\n{rG.out[-1500:]}")
        raw += got
        gen_wall += rG.wall
    seen, behs = set(), []
    for b in raw:
        k = vlib.stable_hash([(e["cmd"], e["arg"]) for e in b])
        if k not in seen:
            seen.add(k)
            behs.append(b)
    if len(behs) < 50:
        raise vlib.ToolError(f"generation produced only {len(behs)} behaviours")
    cmds_seen = {e["cmd"] for b in behs for e in b}
    missing = {"setBreakpoints", "setFunctionBreakpoints", "setInstructionBreakpoints", "setDataBreakpoints",
               "configurationDone", "continue", "restart"} - cmds_seen
    if missing:
        raise vlib.ToolError(f"vacuous generation: never generated {missing}")
    rng = random.Random(vlib.seed())
    behs.sort(key=lambda b: vlib.stable_hash(b))
    chosen = select(behs, T["n"], rng)
    vlib.log(f"[gen] {len(raw)} behaviours, {len(behs)} distinct, {sum(map(is_clean, behs))} clean; "
             f"replaying {len(chosen)} ({sum(map(is_clean, chosen))} clean)")

    # ---- 3. replay --------------------------------------------------------------------------------
    def job(ix):
        b = chosen[ix]
        steps = [{"cmd": "launch", "args": {"program": pup["prog"]}}] + [to_dap(e, pup)[0] for e in b]
        if use_smap(ix, b):
            steps = with_source_map(steps, pup)
        per = 40 if tier == "quick" else 90
        o = run_session(exe, steps, work, ix, timeout_s=per)
        if o["end"] != "ok" and not o["end"].startswith("panic") and time.time() + per / 2 < deadline:
            o2 = run_session(exe, steps, work, ix, timeout_s=per)   # an overloaded machine must not become a finding
            if o2["end"] == "ok":
                o = o2
        o["smap"] = use_smap(ix, b)
        return o

    outs = [None] * len(chosen)
    deadline = time.time() + T["replay_s"]
    stop_flag = {"stop": False}

    def guarded(ix):
        if stop_flag["stop"]:
            return None
        return job(ix)

    ex = ThreadPoolExecutor(max_workers=T["jobs"])
    futs = [ex.submit(guarded, ix) for ix in range(len(chosen))]
    for ix, f in enumerate(futs):
        try:
            outs[ix] = f.result(timeout=max(0.1, deadline - time.time()))
        except vlib.ToolError:
            stop_flag["stop"] = True
            ex.shutdown(wait=True, cancel_futures=True)
            raise
        except Exception:            # noqa: BLE001  (timeout: budget used up)
            stop_flag["stop"] = True
            break
    ex.shutdown(wait=True, cancel_futures=True)
    for ix, f in enumerate(futs):
        if outs[ix] is None and f.done() and not f.cancelled() and f.exception() is None:
            outs[ix] = f.result()
    done = [(b, o) for b, o in zip(chosen, outs) if o is not None]
    if len(done) < min(T["min_sessions"], len(chosen)):
        raise vlib.ToolError(f"only {len(done)} of {len(chosen)} sessions finished inside {T['replay_s']}s")
    vlib.log(f"[replay] {len(done)} of {len(chosen)} sessions in {time.time() - deadline + T['replay_s']:.0f}s")

    n_ok = n_mis = steps_compared = muted_steps = skipped = 0
    drift, causes, samples, obs_hashes = [], {}, [], set()
    for b, o in done:
        if unfinished(o):
            skipped += 1
            continue
        r, info = judge(b, o, pup)
        for fr in info.get("flag_records", []):
            causes[fr["cause"] + "/" + fr["cls"]] = causes.get(fr["cause"] + "/" + fr["cls"], 0) + 1
            rep.mismatch(fr["cls"], fr["action"], cause=fr["cause"], step=fr["step"], what=fr.get("what"),
                         expected=fr["expected"], actual=fr["actual"], script=fr["script"], behaviour=b,
                         source_map=o.get("smap", False))
        steps_compared += info["steps_compared"]
        muted_steps += info["muted_steps"]
        obs_hashes.add(vlib.stable_hash([[e["cmd"], e["arg"], e["ref"]] for e in b]))
        if info["drift"]:
            drift.append([e["cmd"] for e in b])
        if r is None:
            n_ok += 1
            if len(samples) < 3 and any(e["cmd"] == "continue" for e in b):
                samples.append({"script": [[e["cmd"], e["arg"]] for e in b], "reference": [e["ref"] for e in b],
                                "verdict": "conforms"})
        else:
            n_mis += 1
            causes[r["cause"] + "/" + r["cls"]] = causes.get(r["cause"] + "/" + r["cls"], 0) + 1
            rep.mismatch(r["cls"], r["action"], cause=r["cause"], step=r["step"], what=r.get("what"),
                         expected=r["expected"], actual=r["actual"], script=r["script"], behaviour=b,
                         source_map=o.get("smap", False))
    if skipped:
        vlib.log(f"[replay] {skipped} session(s) did not finish inside their budget: skipped, not judged")
    if len(done) - skipped < min(T["min_sessions"], len(chosen)) or skipped > max(3, len(done) // 2):
        raise vlib.ToolError(f"{skipped} of {len(done)} sessions did not finish inside their budget")
    if drift:
        vlib.log(f"MODEL-DRIFT: {len(drift)} session(s) conform to the reference although the as-written model "
                 f"predicts a divergence (has the code been repaired?), e.g. {drift[0]}")
    if not samples:
        samples = [{"script": [[e["cmd"], e["arg"]] for e in done[0][0]]}]
    try:
        for f in work.iterdir():
            f.unlink()
        work.rmdir()
    except OSError:
        pass
    return rep.finish("model_checking", {
        "states": rE.distinct, "transitions": rE.generated, "depth": rE.depth,
        "exhaustive": True,
        "exhaustive_runs": e_results,
        "constants": {"Lines": 3, "Exec": "P G G' L L L F I A B", "generation_MaxReq": 6},
        "as_written_model_violates": asw_violates,
        "behaviours_generated": len(raw), "behaviours_distinct": len(behs),
        "traces_validated_against_impl": len(done) - skipped, "sessions_selected": len(chosen),
        "sessions_not_started_in_budget": len(chosen) - len(done), "sessions_unfinished_skipped": skipped,
        "distinct_reference_observations": len(obs_hashes),
        "sessions_conforming": n_ok, "sessions_diverging": n_mis, "requests_compared": steps_compared,
        "run_requests_in_muted_session": muted_steps,
        "divergences_by_cause_and_class": causes,
        "model_bound": not drift, "model_drift_sessions": len(drift),
        "samples": samples,
    }, assumptions=[
        "ADDR_NO_RANDOMIZE PIE bias 0x555555554000 for the instruction breakpoint address",
        "hardware data breakpoints are never delivered in this sandbox (R4): setDataBreakpoints is bound for its "
        "replace/verified behaviour only; the watched global is never written",
        "reading C13-a: whether hit counters survive restart is unspecified; no behaviour restarts after a "
        "hit-conditional breakpoint has been hit",
        "after an `exited` event the adapter drops all events (C12's subject): stops are then read through "
        "threads/stackTrace and logpoint output is not compared",
        "one option per breakpoint (condition, hitCondition and logMessage are not combined)",
    ])

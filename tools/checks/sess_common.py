"""Common runner of the session-family checks (C01 C02 C03 C05): TLC explores command histories over
the reference execution of each puppet (Session.tla), the real debugger replays them, TLC judges the
recorded sessions (TraceSession.tla)."""
import json
import random
import time
from pathlib import Path

import vlib
import sesslib
from vlib import ToolError, log

PUPPETS_QUICK = ["rec1", "loop2", "gen3"]
PUPPETS_ALL = ["rec1", "loop2", "gen3", "mut4"]
PUPPETS_DEEP = ["deep6"]          # recursion depth 100: C05 thorough only (long execution)

# which verdict classes belong to which property
OWN = {
    "C01": {"missed_breakpoint_hit", "spurious_stop", "stop_out_of_order", "stop_reason_wrong",
            "pc_not_in_execution", "place_ne_pc", "line_ne_pc_line", "command_failed", "exit_not_reported"},
    "C02": {"command_moved_program", "residual_patch", "breakpoint_not_patched", "output_differs", "exit_status_differs", "run_to_exit_failed"},
    "C03": {"signal_stop_moved_program", "pc_not_in_execution", "ran_to_exit", "went_backwards", "stopped_before_return", "wrong_caller_frame",
            "not_one_instruction", "deeper_activation_same_function", "inside_callee_past_boundary",
            "past_first_line_boundary", "inside_callee", "not_a_statement_boundary", "not_admissible",
            "silent_cut_short", "place_ne_pc", "line_ne_pc_line", "command_failed"},
    "C05": {"backtrace_truncated", "backtrace_wrong_frame", "cfa_wrong", "frame_return_address_wrong"},
    "C11": {"restart_failed", "restart_lost_or_moved_breakpoint", "restart_renumbered_breakpoints", "wrong_exit_code",
            "panic_on_drop", "process_left_behind", "attached_process_killed", "attached_process_left_stopped",
            "residual_patch_after_release", "debug_register_left_armed", "pc_not_in_execution", "exit_not_reported"},
}
PUPPETS_MIXED = ["cmix8"]
STEP_CMDS = {"stepi", "step", "next", "finish"}
RUN_CMDS = {"start", "continue"}


def puppet_list(tier, deep=False):
    names = PUPPETS_QUICK if tier == "quick" else PUPPETS_ALL + (PUPPETS_DEEP if deep else [])
    if __import__("os").environ.get("VERIF_PUPPETS"):          # development aid
        names = __import__("os").environ["VERIF_PUPPETS"].split(",")
    return [sesslib.SESS_SRC / f"{n}.rs" for n in names if (sesslib.SESS_SRC / f"{n}.rs").exists()]


def model_check(p, cands, maxcmd, maxbps, workers=8):
    """Mode (E): every history within the bounds; the reference's own theorems."""
    d, cfg = p.tla_data(cands, maxcmd, maxbps)
    cfge = cfg + "SPECIFICATION Spec\nINVARIANTS TypeOK\nPROPERTY ContinueStopsAtBp\nVIEW View\n"
    r = sesslib.tlc_in(d, "MC", cfge, "MC_E.cfg", workers=workers, timeout=900, heap="4g")
    vlib.tlc_expect_ok(r, f"Session (E) {p.key}")
    if r.violated:
        raise ToolError(f"the reference specification violates its own theorem {r.violated} on {p.key}")
    return r


def design_prediction(p, cands, maxcmd, maxbps, workers=4):
    """Mode (E) on the design-level model of step.rs (address-keyed temporaries) - informational."""
    d, cfg = p.tla_data(cands, maxcmd, maxbps)
    out = {}
    for inv in ("ImplNextMeetsRef", "ImplFinishMeetsRef"):
        r = sesslib.tlc_in(d, "MC", cfg + f"SPECIFICATION Spec\nINVARIANT {inv}\nVIEW View\n", f"MC_{inv}.cfg",
                           workers=workers, timeout=600, heap="3g")
        out[inv] = "violated" if r.violated else ("error" if r.error else "holds")
    return out


def gen_histories(p, cands, maxcmd, maxbps, num, seed, mix, maxbk=3):
    """Mode (G): TLC simulation emits complete command histories; a greedy pass keeps the `num`
    histories that together cover the most distinct (position, command) pairs."""
    d, cfg = p.tla_data(cands, maxcmd, maxbps, maxbk=maxbk)
    cfgg = cfg + "SPECIFICATION Spec\nINVARIANT EmitHist\n"
    r = sesslib.tlc_in(d, "MC", cfgg, "MC_G.cfg", workers=1, simulate=min(1600, max(400, num * 40)), depth=maxcmd + 1,
                       seed_arg=seed, timeout=2700, heap="3g")
    if r.error and not vlib.printed(r.out, "HIST"):
        raise ToolError(f"history generation failed: {r.error}\n{r.out[-2000:]}")
    hs = vlib.printed(r.out, "HIST")
    pool, seen = [], set()
    for h in hs:
        if not isinstance(h, list):
            continue
        kinds = [c["cmd"] for c in h]
        if mix == "steps" and sum(1 for k in kinds if k in STEP_CMDS) < 3:
            continue
        if mix == "bps" and any(k in STEP_CMDS for k in kinds):
            continue
        if mix == "adjacent" and (sum(1 for k in kinds if k == "break_addr") < 2 or any(k in STEP_CMDS for k in kinds)
                                  or sum(1 for k in kinds if k == "continue") < 3):
            continue
        if mix == "life" and not any(k in ("restart", "drop") for k in kinds):
            continue
        key = json.dumps(h, sort_keys=True)
        if key in seen:
            continue
        seen.add(key)
        pairs, prev, ubp, prevcmd = set(), 0, set(), ""
        for c in h:
            pairs.add((prev, c["cmd"], c.get("addr", 0) if c["cmd"].startswith(("break", "remove")) else 0))
            # context that changes what a step has to do: standing on an enabled breakpoint (step-over of the
            # patched instruction), a caller's frame selected, a signal pending
            if c["cmd"] in STEP_CMDS | RUN_CMDS and 1 <= prev <= len(p.X):
                ctx = ("B" if p.X[prev - 1]["pc"] in ubp else "") + ("F" if prevcmd == "frame" else "") \
                    + ("S" if prevcmd == "signal" else "")
                if ctx:
                    pairs.add(("ctx", c["cmd"], ctx))
            if c["cmd"] == "break_addr":
                ubp.add(c["addr"])
            elif c["cmd"] == "remove_addr":
                ubp.discard(c["addr"])
            prev = c.get("at", prev)
            prevcmd = c["cmd"]
        pool.append((h, pairs))
    res, covered = [], set()
    while pool and len(res) < num:
        def gain(k):
            fresh = pool[k][1] - covered
            return len(fresh) + 4 * sum(1 for x in fresh if x[0] == "ctx")
        best = max(range(len(pool)), key=gain)
        h, pairs = pool.pop(best)
        if res and not (pairs - covered):
            break
        covered |= pairs
        res.append(h)
    return res, len(covered)


def to_script(p, hist, probes, by=None, rng=None):
    """Command history -> driver script.  `by` = optional map address -> ('line', n) / ('fn', name) to
    exercise file:line and function breakpoints for the same locations."""
    cmds = []
    for c in hist:
        if c["cmd"] in ("break_addr", "remove_addr") and by and c["addr"] in by:
            kind, arg = by[c["addr"]]
            verb = "break" if c["cmd"] == "break_addr" else "remove"
            if kind == "line":
                cmds.append({"cmd": f"{verb}_line", "file": p.src.name, "line": arg})
            else:
                cmds.append({"cmd": f"{verb}_fn", "name": arg})
        elif c["cmd"] == "watch":
            cmds.append({"cmd": "watch_addr", "addr": sesslib.nm_symbols(p.exe)["WATCHME"][0], "size": 8})
        elif c["cmd"] == "call":
            cmds.append({"cmd": "call", "fn": "probe_id", "arg": 7})
        else:
            cmds.append(dict(c))
    return {"tick": p.meta["tick_addr"], "src": p.src.name, "probes": probes, "cmds": cmds}


def run_and_judge(p, scripts, tag, max_batch=40):
    """Replay scripts on the real debugger; TLC judges all recorded sessions of a batch at once.
    Returns list of (script, events, verdicts, session_info)."""
    results = []
    batch_events, spans = [], []
    from concurrent.futures import ThreadPoolExecutor
    par = int(__import__("os").environ.get("VERIF_PAR", "6"))
    vlib.cargo_build("sess")
    t0 = time.time()
    with ThreadPoolExecutor(max_workers=par) as ex:
        outs = list(ex.map(lambda a: sesslib.run_session(p.exe, a[1], f"{tag}-{a[0]}"), list(enumerate(scripts))))
    log(f"[sess] {len(scripts)} sessions on {p.key} in {time.time()-t0:.1f}s")
    for n, sc in enumerate(scripts):
        rc, err, obs = outs[n]
        evs = sesslib.to_events(p, obs, attach=bool(sc.get("attach")))
        end = [o for o in obs if o.get("ev") == "end"]
        td = [o for o in obs if o.get("ev") == "teardown"]
        lastobs = [o for o in obs if o.get("ev") == "obs"]
        info = {"rc": rc, "stderr": err[-500:], "stdout": end[-1]["stdout"] if end else None,
                "last_res": lastobs[-1]["res"] if lastobs else None,
                "teardown": td[-1] if td else None, "complete": bool(end),
                "panics": [o["res"].get("panic") for o in obs if o.get("ev") == "obs" and o["res"].get("panic")]}
        start = len(batch_events)
        batch_events.append({"cmd": "reset", "ok": True, "err": "", "addrs": [], "idx": 0, "said": "none", "rpc": -1,
                             "rline": -1, "code": -1, "patched": [-1], "bt": [-1], "tick": -1, "panic": False, "k": -1})
        batch_events += evs
        spans.append((sc, evs, info, start + 1, len(batch_events)))
    viol_all = []
    if batch_events:
        viol_all, _ = sesslib.judge(p, batch_events, tag)
    for sc, evs, info, a, b in spans:
        vs = []
        for v in viol_all:
            if a < v["k"] <= b:          # k is 1-based position in the batch
                v2 = dict(v)
                v2["k"] = evs[v["k"] - a - 1]["k"]
                vs.append(v2)
        results.append((sc, evs, vs, info))
    return results

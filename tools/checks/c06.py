"""C06 -- values shown are the values the program holds.

Oracle: spec/Values.tla.  TLC (a) enumerates the type grammar bounded-exhaustively and prints one descriptor
per (type, value variant): Rust type text, Rust initialiser, ABSTRACT VALUE; (b) explores the std collections
as abstract sequence/set/map state machines and prints (operation sequence, abstract content) per distinct
reachable state (+ scripted bulk sequences); (c) model-checks transcriptions of the three layout decoders
against the abstraction (DecoderEqualsAbstraction).
Binding: tools/c06_puppetgen.py turns the descriptors into Rust puppets (collections by replaying the operation
sequences); harness/src/bin/c06.rs stops at the probe line, reads every variable through
read_local_variables / read_variable / read_argument and projects the `Value` tree; this module compares the
projection STRUCTURALLY with TLC's abstract value.  Python orchestrates and compares; it computes no expected value.
"""
import concurrent.futures as cf
import json
import os
import re
import subprocess
import sys
import time
from pathlib import Path

import vlib

sys.path.insert(0, str(vlib.VERIF / "tools"))
import c06_puppetgen as gen  # noqa: E402

SCRATCH = vlib.WORK / "c06"
LEN_GUARD = 10_000

RULE = ("every TLC-printed case (type of the grammar x value variant, or collection x operation sequence) is one "
        "variable of a generated puppet; the Value tree the debugger returns for it must equal TLC's abstract value "
        "structurally (scalars exactly: integer text, float bits, code point; sequences in order; sets and maps as "
        "sets, nothing missing/duplicated/invented; pointers by pointee and by the address the program itself "
        "reports) and its type name must equal the Rust type name modulo path prefixes, default allocator/hasher "
        "parameters and rustc's `(T)` spelling of 1-tuples; a case is non-trivial when the debugger returned a value "
        "for it; distinct = distinct (type name, abstract value) pairs")

CLASSES = ("wrong_value", "duplicate_result_wrong_value", "wrong_kind", "missing_elements", "invented_elements", "duplicated_elements",
           "slice_not_elements", "unspecialized_collection", "len_guard_truncation", "cap_guard_wrong_elements",
           "type_name", "wrong_address", "decoder_panic", "decoder_out_of_bounds", "no_value", "crash")


# ------------------------------------------------------------------------------------------------
# TLC
# ------------------------------------------------------------------------------------------------
def run_tlc(cfg, workers=4, timeout=900, coverage=False, simulate=None, depth=None, heap="3g"):
    r = vlib.tlc("Values", cfg, workers=workers, timeout=timeout, coverage=coverage, heap=heap,
                 simulate=simulate, depth=depth, seed_arg=(vlib.seed() if simulate else None),
                 name=Path(cfg).stem + ("-sim" if simulate else ""))
    vlib.tlc_expect_ok(r, cfg)
    vlib.log(f"[c06] TLC {cfg}: {r.distinct} states, {r.generated} transitions, {r.wall:.1f}s"
             + (f" VIOLATED {r.violated}" if r.violated else ""))
    return r


def type_cases(cfg, **kw):
    r = run_tlc(cfg, **kw)
    if r.violated:
        raise vlib.ToolError(f"Values.tla ({cfg}) violates {r.violated}: the specification is inconsistent\n{r.out[-1500:]}")
    cases = [c for c in vlib.printed(r.out, "CASE") if isinstance(c, dict)]
    if not cases:
        raise vlib.ToolError(f"TLC printed no type cases for {cfg}\n{r.out[-1500:]}")
    seen, uniq = set(), []
    for c in cases:
        key = (c["rust"], c["m"])
        if key not in seen:
            seen.add(key)
            uniq.append(c)
    uniq.sort(key=lambda c: (c["depth"], c["rust"], c["m"]))
    return r, uniq


def coll_cases(cfg, **kw):
    r = run_tlc(cfg, **kw)
    if r.violated:
        raise vlib.ToolError(f"Values.tla ({cfg}) violates {r.violated}: ring model / decoder transcription disagree "
                             f"with the abstract sequence on a reachable state\n{r.out[-2500:]}")
    cases = [c for c in vlib.printed(r.out, "COLL") if isinstance(c, dict)]
    if not cases:
        raise vlib.ToolError(f"TLC printed no collection cases for {cfg}\n{r.out[-1500:]}")
    seen, uniq = set(), []
    for c in cases:
        key = (c["kind"], c["elem"], json.dumps(c["ops"]))
        if key not in seen:
            seen.add(key)
            uniq.append(c)
    uniq.sort(key=lambda c: (c["kind"], c["elem"], len(c["ops"]), json.dumps(c["ops"])))
    return r, uniq


def decoder_models_start(pool, coverage):
    """(c): the three decoder transcriptions against the abstraction, exhaustively; + the garbage-header run.
    Submitted to a small pool so that they overlap with the enumeration runs and the puppet builds."""
    futs = {}
    for name, cfg in (("vdq_garbage", "Values_vdq_garbage.cfg"), ("bt", "Values_bt.cfg"), ("hb", "Values_hb.cfg"),
                      ("vdq", "Values_vdq.cfg")):
        futs[name] = pool.submit(run_tlc, cfg, 2, 900, coverage and name != "vdq_garbage")
    return futs


def decoder_models_finish(futs, coverage):
    res = {}
    total_s = total_t = 0
    for name in ("vdq", "hb", "bt"):
        r = futs[name].result()
        res[name] = {"cfg": f"Values_{name}.cfg", "states": r.distinct, "transitions": r.generated, "violated": r.violated,
                     "wall_s": round(r.wall, 1)}
        total_s += r.distinct
        total_t += r.generated
        if coverage:
            vac = [a for a in vlib.vacuous_actions(r) if a.lower().startswith(name[:2])]
            if vac:
                raise vlib.ToolError(f"vacuous decoder-model actions in Values_{name}.cfg: {vac}")
        if r.distinct < 50:
            raise vlib.ToolError(f"decoder model Values_{name}.cfg explored only {r.distinct} states")
        if r.violated:
            res[name]["trace"] = r.out[r.out.find("Error:"):][:3000]
    g = futs["vdq_garbage"].result()
    res["vdq_garbage"] = {"cfg": "Values_vdq_garbage.cfg", "states": g.distinct, "violated": g.violated,
                          "counterexample": garbage_state(g)}
    return res, total_s + g.distinct, total_t + g.generated


def garbage_state(g):
    """the C08 clause for garbage headers is expected to fail; the violating state becomes a real twin"""
    if g.violated == "NoOutOfBounds":
        states = re.findall(r"st = \[([^\]]*)\]", g.out)
        if states:
            f = {k: v for k, v in re.findall(r"(\w+) \|-> (\w+)", states[-1])}
            return {"head": int(f["head"]), "len": int(f["len"]), "cap": int(f["cap"])}
    elif g.violated:
        raise vlib.ToolError(f"garbage run violated {g.violated}, not NoOutOfBounds")
    return None


# ------------------------------------------------------------------------------------------------
# puppets
# ------------------------------------------------------------------------------------------------
TOOLCHAINS = {"1.89": "+1.89", "stable": "+stable", "nightly": "+nightly"}
FLAGS = ["--edition", "2021", "-g"]
_rustc_v = {}


def rustc_version(tc):
    if tc not in _rustc_v:
        _, so, _ = vlib.sh(["rustc", TOOLCHAINS[tc], "-vV"], timeout=60)
        _rustc_v[tc] = so
    return _rustc_v[tc]


def build_one(text, crate, tc):
    h = gen.source_hash(text, rustc_version(tc), FLAGS)
    out = vlib.PUPPET_BUILD / f"c06-{h}"
    src = vlib.PUPPET_BUILD / f"c06-{h}.rs"
    if out.exists() and src.exists():
        return out, src, 0.0
    vlib.PUPPET_BUILD.mkdir(parents=True, exist_ok=True)
    src.write_text(text)
    tmp = vlib.PUPPET_BUILD / f"c06-{h}.tmp{os.getpid()}"
    t0 = time.time()
    rc, so, se = vlib.sh(["nice", "-n", "5", "rustc", TOOLCHAINS[tc]] + FLAGS + ["--crate-name", crate, "-A", "warnings",
                          str(src), "-o", str(tmp)], timeout=1500, check=False)
    if rc != 0:
        raise vlib.ToolError(f"generated puppet does not compile ({tc}): {src}\n{se[-3000:]}")
    os.replace(tmp, out)
    return out, src, time.time() - t0


def build_all(batches, tc, jobs):
    """batches: list of (text, plan).  Returns list of (exe, src, plan)."""
    t0 = time.time()
    built = [None] * len(batches)
    compiled = 0
    with cf.ThreadPoolExecutor(max_workers=jobs) as ex:
        futs = {ex.submit(build_one, text, plan["crate"], tc): i for i, (text, plan) in enumerate(batches)}
        for f in cf.as_completed(futs):
            exe, src, dt = f.result()
            compiled += dt > 0
            built[futs[f]] = (exe, src, batches[futs[f]][1])
    vlib.log(f"[c06] puppets {tc}: {len(batches)} ({compiled} compiled, rest cached) in {time.time() - t0:.1f}s")
    return built


# ------------------------------------------------------------------------------------------------
# driver
# ------------------------------------------------------------------------------------------------
def run_driver(exe, puppet, src, plan, tag, timeout=600):
    """Run the harness on one puppet; a driver that dies is data (class crash for the call in flight) and the
    run is resumed without that call."""
    SCRATCH.mkdir(parents=True, exist_ok=True)
    skip, rows_all, crashes = [], [], []
    for attempt in range(12):
        pf = SCRATCH / f"plan-{tag}-{os.getpid()}.json"
        of = SCRATCH / f"out-{tag}-{os.getpid()}.ndjson"
        pf.write_text(json.dumps({"vars": plan["vars"], "skip": skip}))
        if of.exists():
            of.unlink()
        try:
            p = subprocess.run([str(exe), "read", str(puppet), Path(src).name, str(plan["line"]), str(pf), str(of)],
                               stdout=subprocess.PIPE, stderr=subprocess.PIPE, text=True, timeout=timeout,
                               start_new_session=True)
            rc, se = p.returncode, p.stderr
        except subprocess.TimeoutExpired:
            rc, se = -9, "watchdog timeout"
        rows = vlib.ndjson_read(of) if of.exists() else []
        pf.unlink()
        if of.exists():
            of.unlink()
        if rc == 2 or not rows or "echo" not in rows[0]:
            raise vlib.ToolError(f"driver failed on {puppet} rc={rc}\n{se[-2000:]}")
        done = any("done" in r for r in rows)
        begun = None
        for r in rows:
            if "begin" in r:
                begun = r
            elif "name" in r or "locals" in r:
                if "name" in r and begun and begun.get("begin") == r["name"]:
                    begun = None
                if "locals" in r:
                    begun = None
        if attempt == 0:
            rows_all = rows
        else:
            have = {(r.get("name"), r.get("api")) for r in rows_all if "name" in r}
            rows_all += [r for r in rows if "name" in r and (r["name"], r.get("api")) not in have]
        if done:
            return rows_all, crashes
        if begun is None:
            raise vlib.ToolError(f"driver died between calls on {puppet} rc={rc}\n{se[-1500:]}")
        crashes.append({"what": begun["begin"], "api": begun.get("api", "locals"), "rc": rc, "stderr": se[-400:]})
        skip.append(begun["begin"])
    raise vlib.ToolError(f"driver keeps dying on {puppet}")


# ------------------------------------------------------------------------------------------------
# comparison
# ------------------------------------------------------------------------------------------------
_PATH = re.compile(r"(?:[A-Za-z_][A-Za-z0-9_]*::)+")


def norm_type(s):
    """type names are compared modulo: path prefixes, the default allocator / hasher parameters that DWARF
    spells out, rustc's `(T)` for the 1-tuple `(T,)`, blanks"""
    s = _PATH.sub("", s)
    s = s.replace(", Global>", ">").replace(",Global>", ">").replace(", RandomState>", ">")
    s = s.replace(",)", ")")
    return re.sub(r"\s+", " ", s).strip()


def str_of(exp):
    return json.loads('"' + exp["j"] + '"')


def echo_eq(exp, e):
    """generator sanity: the program's own report equals TLC's abstract value (exact, no leniency)"""
    k = exp["k"]
    if not isinstance(e, dict):
        return False
    if k == "ptr":
        if exp.get("null"):
            return e.get("k") == "ptr" and e.get("null") is True
        return e.get("k") == "ptr" and "to" in e and echo_eq(exp["to"], e["to"])
    if e.get("k") != k:
        return False
    if k in ("int", "cenum", "nz", "bool", "char"):
        return exp["v"] == e.get("v")
    if k == "float":
        return exp["bits"] == e.get("bits")
    if k == "unit":
        return True
    if k == "str":
        return str_of(exp) == e.get("v")
    if k in ("tuple", "seq"):
        return len(exp["items"]) == len(e["items"]) and all(echo_eq(a, b) for a, b in zip(exp["items"], e["items"]))
    if k == "struct":
        return exp["name"] == e.get("name") and [f[0] for f in exp["fields"]] == [f[0] for f in e["fields"]] and \
            all(echo_eq(a[1], b[1]) for a, b in zip(exp["fields"], e["fields"]))
    if k == "enum":
        return exp["variant"] == e.get("variant") and [f[0] for f in exp["fields"]] == [f[0] for f in e["fields"]] and \
            all(echo_eq(a[1], b[1]) for a, b in zip(exp["fields"], e["fields"]))
    if k == "set":
        rest = list(e["items"])
        for a in exp["items"]:
            hit = [b for b in rest if echo_eq(a, b)]
            if not hit:
                return False
            rest.remove(hit[0])
        return not rest
    if k == "map":
        rest = list(e["kv"])
        for ka, va in exp["kv"]:
            hit = [p for p in rest if echo_eq(ka, p[0]) and echo_eq(va, p[1])]
            if not hit:
                return False
            rest.remove(hit[0])
        return not rest
    if k == "cell":
        return echo_eq(exp["inner"], e["inner"])
    return False


class Cmp:
    """structural comparison of TLC's abstract value with the debugger's projected Value tree.
    Collects (class, path, at, expected, actual) tuples; the first one decides the record."""

    def __init__(self):
        self.diffs = []

    def diff(self, cls, path, at, exp, act):
        self.diffs.append({"class": cls, "path": "/".join(path) or ".", "at": at,
                           "expected": brief(exp), "actual": brief(act)})

    def unwrap(self, act):
        while isinstance(act, dict) and act.get("k") == "modified":
            act = act.get("inner")
        return act

    def go(self, exp, act, echo, path, at):
        act = self.unwrap(act)
        k = exp["k"]
        at = exp.get("c", at)          # constructor of the type this node belongs to (from Values.tla)
        if not isinstance(act, dict):
            return self.diff("no_value", path, at, exp, act)
        ak = act.get("k")
        if ak == "panic":
            return self.diff("decoder_panic", path, at, exp, act)
        if ak == "none":
            return self.diff("no_value", path, at, exp, act)
        if k == "int":
            if ak != "int":
                return self.diff("wrong_kind", path, at, exp, act)
            if act.get("v") != exp["v"]:
                return self.diff("wrong_value", path, at, exp, act)
            return
        if k == "float":
            if ak != "float":
                return self.diff("wrong_kind", path, at, exp, act)
            if act.get("bits") != exp["bits"]:
                return self.diff("wrong_value", path, at, exp, act)
            return
        if k in ("bool", "char"):
            if ak != k:
                return self.diff("wrong_kind", path, at, exp, act)
            if act.get("v") != exp["v"]:
                return self.diff("wrong_value", path, at, exp, act)
            return
        if k == "unit":
            if ak == "unit" or (ak == "struct" and not act.get("fields")):
                return
            return self.diff("wrong_kind", path, at, exp, act)
        if k == "str":
            if ak in ("unspec", "struct"):
                return self.diff("unspecialized_collection", path, at, exp, act)
            if ak != "str":
                return self.diff("wrong_kind", path, at, exp, act)
            want = str_of(exp)
            if act.get("v") != want:
                if len(want) > LEN_GUARD and act.get("v") == want[:LEN_GUARD]:
                    return self.diff("len_guard_truncation", path, at, exp, act)
                return self.diff("wrong_value", path, at, exp, act)
            return
        if k == "cenum":
            if ak != "cenum":
                return self.diff("wrong_kind", path, at, exp, act)
            if act.get("v") != exp["v"]:
                return self.diff("wrong_value", path, at, exp, act)
            return
        if k == "nz":
            a = act
            while isinstance(a, dict) and a.get("k") == "struct" and len(a.get("fields") or []) == 1:
                a = a["fields"][0][1]
            if not isinstance(a, dict) or a.get("k") != "int":
                return self.diff("wrong_kind", path, at, exp, act)
            if a.get("v") != exp["v"]:
                return self.diff("wrong_value", path, at, exp, act)
            return
        if k in ("tuple", "struct", "enum"):
            if k == "enum":
                if ak != "enum":
                    return self.diff("wrong_kind", path, at, exp, act)
                if act.get("variant") != exp["variant"]:
                    return self.diff("wrong_value", path + ["<variant>"], at, exp["variant"], act.get("variant"))
                want = exp["fields"]
                act = self.unwrap(act.get("payload"))
                path = path + [exp["variant"]]
                efields = {f[0]: f[1] for f in (echo or {}).get("fields", [])} if isinstance(echo, dict) else {}
            elif k == "tuple":
                want = [[f"__{i}", v] for i, v in enumerate(exp["items"])]
                efields = {f"__{i}": v for i, v in enumerate((echo or {}).get("items", []))} if isinstance(echo, dict) else {}
            else:
                want = exp["fields"]
                efields = {f[0]: f[1] for f in (echo or {}).get("fields", [])} if isinstance(echo, dict) else {}
            if not isinstance(act, dict) or act.get("k") != "struct":
                return self.diff("wrong_kind", path, at, exp, act)
            have = act.get("fields") or []
            if [f[0] for f in have] != [f[0] for f in want]:
                return self.diff("wrong_kind", path + ["<fields>"], at, [f[0] for f in want], [f[0] for f in have])
            for (n, ev), (_, av) in zip(want, have):
                self.go(ev, av, efields.get(n), path + [n], at)
            return
        if k == "seq":
            if ak == "struct" and [f[0] for f in act.get("fields") or []] == ["data_ptr", "length"]:
                return self.diff("slice_not_elements", path, at, exp, act)
            if ak in ("unspec",):
                return self.diff("unspecialized_collection", path, at, exp, act)
            if ak not in ("array", "vec", "vecdeque"):
                return self.diff("wrong_kind", path, at, exp, act)
            items = act.get("items")
            if items is None:
                return self.diff("no_value", path, at, exp, act)
            if [i for i, _ in items] != list(range(len(items))):
                return self.diff("wrong_value", path + ["<indices>"], at, None, [i for i, _ in items][:20])
            ne, na = len(exp["items"]), len(items)
            eitems = (echo or {}).get("items", []) if isinstance(echo, dict) else []
            if na != ne:
                pref = all(self.same(x, y[1]) for x, y in zip(exp["items"], items))
                if ne > LEN_GUARD and na == LEN_GUARD and pref:
                    return self.diff("len_guard_truncation", path, at, f"{ne} elements", f"{na} elements")
                return self.diff("missing_elements" if na < ne else "invented_elements", path, at,
                                 f"{ne} elements", f"{na} elements")
            for i, (ev, (_, av)) in enumerate(zip(exp["items"], items)):
                n0 = len(self.diffs)
                self.go(ev, av, eitems[i] if i < len(eitems) else None, path + [str(i)], at)
                if len(self.diffs) > n0 + 3:
                    break
            return
        if k == "set":
            if ak in ("unspec", "struct"):
                return self.diff("unspecialized_collection", path, at, exp, act)
            if ak != "set":
                return self.diff("wrong_kind", path, at, exp, act)
            return self.bag(exp["items"], act.get("items") or [], path, at, lambda x: x, lambda y: y)
        if k == "map":
            if ak in ("unspec", "struct"):
                return self.diff("unspecialized_collection", path, at, exp, act)
            if ak != "map":
                return self.diff("wrong_kind", path, at, exp, act)
            rest = self.bag(exp["kv"], act.get("kv") or [], path, at, lambda x: x[0], lambda y: y[0])
            for (ke, ve), (ka, va) in rest or []:
                self.go(ve, va, None, path + ["[" + brief(ke)[:40] + "]"], at)
            return
        if k == "ptr":
            if ak not in ("ptr", "rc"):
                return self.diff("wrong_kind", path, at, exp, act)
            addr = act.get("addr")
            if exp.get("null"):
                if addr not in (0, None):
                    return self.diff("wrong_value", path, at, exp, act)
                return
            if not addr:
                return self.diff("wrong_value", path + ["<addr>"], at, "non-null", addr)
            if isinstance(echo, dict) and echo.get("addr") and ak == "ptr" and echo["addr"] != addr:
                self.diff("wrong_address", path, at, echo["addr"], addr)
            to = self.unwrap(act.get("to"))
            if ak == "rc":      # Rc/Arc point at RcInner {strong, weak, value} / ArcInner {strong, weak, data}
                f = {n: v for n, v in (to or {}).get("fields", [])} if isinstance(to, dict) else {}
                to = f.get("value", f.get("data"))
            return self.go(exp["to"], to, (echo or {}).get("to") if isinstance(echo, dict) else None, path + ["*"], at)
        if k == "cell":
            if ak == "cell":
                return self.go(exp["inner"], act.get("inner"), (echo or {}).get("inner") if isinstance(echo, dict) else None,
                               path + ["cell"], at)
            if ak == "refcell":
                inner = self.unwrap(act.get("inner"))
                f = {n: v for n, v in (inner or {}).get("fields", [])} if isinstance(inner, dict) else {}
                if "value" not in f:
                    return self.diff("wrong_kind", path, at, exp, act)
                return self.go(exp["inner"], f["value"], (echo or {}).get("inner") if isinstance(echo, dict) else None,
                               path + ["refcell"], at)
            if ak in ("unspec", "struct"):
                return self.diff("unspecialized_collection", path, at, exp, act)
            return self.diff("wrong_kind", path, at, exp, act)
        raise vlib.ToolError(f"abstract value kind not understood: {exp}")

    def same(self, exp, act):
        c = Cmp()
        c.go(exp, act, None, [], "")
        return not [d for d in c.diffs if d["class"] != "wrong_address"]

    def bag(self, want, have, path, at, kw, kh):
        """set equality on keys: nothing missing, duplicated or invented.  Returns matched pairs."""
        rest = list(have)
        pairs, missing = [], []
        if len(want) > 64 and all(kw(w)["k"] in ("int", "str") for w in want):
            # large tables of plain keys: match through a dictionary (same relation, no quadratic scan)
            def ck(x):
                if isinstance(x, dict) and x.get("k") == "int":
                    return ("int", x.get("v"))
                if isinstance(x, dict) and x.get("k") == "str":
                    return ("str", str_of(x) if "j" in x else x.get("v"))
                return ("other", json.dumps(x, sort_keys=True))
            pool = {}
            for h in rest:
                pool.setdefault(ck(self.unwrap(kh(h))), []).append(h)
            for w in want:
                hs = pool.get(ck(kw(w)))
                if hs:
                    pairs.append((w, hs.pop()))
                else:
                    missing.append(w)
            rest = [h for hs in pool.values() for h in hs]
        else:
            for w in want:
                hit = [h for h in rest if self.same(kw(w), kh(h))]
                if hit:
                    rest.remove(hit[0])
                    pairs.append((w, hit[0]))
                else:
                    missing.append(w)
        if missing and len(missing) == len(rest) and len(missing) <= 3:
            # same cardinality: the unmatched elements are each other's counterparts shown wrongly --
            # descend to name the inner difference instead of reporting one missing + one invented
            import itertools
            best, best_n = None, None
            for perm in itertools.permutations(rest):
                n = 0
                for w, h in zip(missing, perm):
                    c = Cmp()
                    c.go(kw(w), kh(h), None, [], at)
                    n += len(c.diffs)
                if best_n is None or n < best_n:
                    best, best_n = perm, n
            for w, h in zip(missing, best):
                self.go(kw(w), kh(h), None, path + ["{}"], at)
            return pairs
        if missing:
            self.diff("missing_elements", path, at, f"{len(want)} elements; not shown: {brief([kw(m) for m in missing[:3]])}",
                      f"{len(have)} elements")
        if rest:
            dup = [h for h in rest if any(self.same_act(kh(h), kh(p[1])) for p in pairs)]
            self.diff("duplicated_elements" if dup else "invented_elements", path, at, f"{len(want)} elements",
                      f"{len(have)} elements; extra: {brief([kh(r) for r in rest[:3]])}")
        return pairs

    @staticmethod
    def same_act(a, b):
        strip = lambda x: json.dumps(x, sort_keys=True)
        return strip(a) == strip(b)


def brief(x):
    s = json.dumps(x, ensure_ascii=False, sort_keys=True) if not isinstance(x, str) else x
    return s if len(s) <= 400 else s[:400] + "…"


def ctor_of(case):
    if "special" in case:
        return "vdq"
    if "ops" in case:
        return "coll:" + case["kind"]
    return case["ty"]["c"]


def shape_of(case):
    """constructor chain of the type, outermost first (what known-finding entries match on)"""
    if "special" in case:
        return case["special"]
    if "ops" in case:
        return f"{case['kind']}<{case['elem']}>"
    t, out = case["ty"], []
    while True:
        out.append(t["c"])
        if not t["a"]:
            return ".".join(out)
        t = t["a"][0]


def case_key(case):
    """stable name of a case for narrow known-finding entries: type text + variant, or the operation sequence"""
    if "special" in case:
        return case["special"]
    if "ops" in case:
        return f"{case['kind']}<{case['elem']}>:" + ",".join(f"{o['op']}({o['k']})" for o in case["ops"])
    return f"{case['rust']}#{case['m']}"


def at_of(case, path):
    """the constructor at which a difference sits: walk the type along the path as far as it is unambiguous"""
    if "ty" not in case:
        return ctor_of(case)
    t = case["ty"]
    for step in path.split("/"):
        if not t["a"]:
            break
        if step in (".", "<variant>", "<fields>", "<addr>", "<indices>"):
            continue
        t = t["a"][0] if step not in ("b", "__1") or t["c"] not in ("sn", "ts") else t
    return t["c"]


# ------------------------------------------------------------------------------------------------
# judging one puppet run
# ------------------------------------------------------------------------------------------------
def parse_echo(text):
    out = {}
    for line in text.splitlines():
        if line.startswith("C06-ECHO ") and "\t" in line:
            name, tn, js = line[len("C06-ECHO "):].split("\t", 2)
            try:
                out[name] = (tn, json.loads(js))
            except json.JSONDecodeError as e:
                raise vlib.ToolError(f"puppet echo for {name} is not JSON: {e}: {js[:200]}")
    return out


def judge(rep, cases_by_id, plan, rows, crashes, tc, stats, samples):
    echo = parse_echo(rows[0]["echo"])
    by_name = {}
    locals_row = None
    for r in rows:
        if "locals" in r:
            locals_row = r["locals"]
        if "name" in r:
            by_name.setdefault(r["name"], []).append(r)
    crashed = {c["what"]: c for c in crashes}
    if locals_row and locals_row.get("r") == "panic":
        stats["locals_call_panics"] += 1
    for v in plan["vars"]:
        case = cases_by_id[v["id"]]
        name, kind = v["name"], v["kind"]
        exp = case.get("val")
        # ---- generator sanity: program's own report == TLC's abstract value, type_name == TypeName
        if not v.get("noecho"):
            if name not in echo:
                raise vlib.ToolError(f"puppet did not report {name} ({case.get('rust')})")
            tn, ev = echo[name]
            if not echo_eq(exp, ev):
                raise vlib.ToolError(f"generator/model mismatch for {name}: {case.get('rust')} = {case.get('init', case.get('ops'))}: "
                                     f"TLC {brief(exp)} vs program {brief(ev)}")
            if norm_type(tn) != norm_type(case["tyname"]):
                raise vlib.ToolError(f"generator/model mismatch for {name}: type_name {tn} vs TypeName {case['tyname']}")
            note_shape(case, ev, stats)
        else:
            ev = None
        script = [{"toolchain": tc, "case": {k: case[k] for k in case if k not in ("val", "id")}, "placement": kind}]
        if kind.startswith("tls"):
            # what a thread-local shows depends on its neighbours in the TLS block: they are part of the case
            script[0]["order"] = v["id"]
            script[0]["tls_context"] = [{"ty": cases_by_id[o["id"]]["ty"], "m": cases_by_id[o["id"]]["m"], "placement": o["kind"],
                                         "order": o["id"]}
                                        for o in plan["vars"] if o["kind"].startswith("tls") and o["id"] != v["id"]]
        base = dict(shape=shape_of(case), rust=case.get("rust", ""), toolchain=tc, placement=kind, script=script,
                    case_key=case_key(case))
        results = by_name.get(name, [])
        if name in crashed or ("*locals" in crashed and kind == "local" and not results):
            c = crashed.get(name) or crashed["*locals"]
            stats["evaluations"] += 1
            rep.mismatch("crash", f"read:{c['api']}", at=ctor_of(case), expected=brief(exp), actual=c, **base)
            continue
        want_apis = {"local": ["locals", "variable"], "arg": ["argument"], "static": ["variable"], "tls": ["variable"],
                     "tls_const": ["variable"]}[kind]
        for api in want_apis:
            rs = [r for r in results if r["api"] == api]
            stats["evaluations"] += 1
            if not rs:
                if "special" in case and api == "locals" and locals_row and locals_row.get("r") == "panic":
                    judge_one(rep, case, exp, ev, locals_row, api, kind, base, stats, samples)
                elif api == "locals" and locals_row and locals_row.get("r") != "ok":
                    rep.mismatch("decoder_panic" if locals_row.get("r") == "panic" else "no_value", "read:locals",
                                 at=ctor_of(case), expected=brief(exp), actual=locals_row, **base)
                else:
                    rep.mismatch("no_value", f"read:{api}", at=ctor_of(case), expected=brief(exp),
                                 actual="variable not returned", **base)
                continue
            res = rs[0]["res"]
            judge_one(rep, case, exp, ev, res, api, kind, base, stats, samples)


def judge_one(rep, case, exp, ev, res, api, kind, base, stats, samples):
    action = f"read:{api}"
    if "special" in case:
        # garbage header: any value is acceptable, a panic is the finding (C08 clause, reported here)
        stats["nontrivial"].add(("special", case["special"], vlib.stable_hash(res)[:8]))
        if res["r"] == "panic":
            rep.mismatch("decoder_out_of_bounds", action, at="vdq", expected="any value, no panic",
                         actual=res.get("msg"), header={k: case[k] for k in ("head", "len", "cap")}, **base)
        else:
            stats["model_drift"].append(f"Values_vdq_garbage predicts an out-of-bounds index for {case}, the real decoder returned {res['r']}")
        return
    if res["r"] == "panic":
        rep.mismatch("decoder_panic", action, at=ctor_of(case), expected=brief(exp), actual=res.get("msg"), **base)
        return
    if res["r"] == "none":
        rep.mismatch("no_value", action, at=ctor_of(case), expected=brief(exp), actual=res.get("why"), **base)
        return
    vals = res["vs"] if res["r"] == "multi" else [res]
    if res["r"] == "multi":
        stats["multi_results"] += 1
    verdicts = []
    for one in vals:
        if one.get("r") != "value":
            verdicts.append([{"class": "decoder_panic", "path": ".", "at": ctor_of(case), "expected": brief(exp), "actual": one}])
            continue
        act = one["v"]
        tyname = one.get("ty", "")
        if kind in ("tls", "tls_const") and isinstance(act, dict) and act.get("k") == "tls":
            tyname = act.get("inner_type", tyname)
            act = act.get("inner")
        c = Cmp()
        c.go(exp, act, ev, [], "")
        for d in c.diffs:
            d["at"] = d["at"] or ctor_of(case)
        if norm_type(tyname) != norm_type(case["tyname"]):
            c.diffs.append({"class": "type_name", "path": ".", "at": ctor_of(case), "expected": case["tyname"], "actual": tyname})
        verdicts.append(c.diffs)
    # several results for one name: every value shown for the variable must be the value it holds
    # (results that agree are merely redundant; one that disagrees is a wrong value on the screen)
    best = max(verdicts, key=len)
    if best and any(not v for v in verdicts):
        for d in best:
            d["class"] = "duplicate_result_" + d["class"]
    stats["nontrivial"].add((case["tyname"], vlib.stable_hash(exp)[:12]))
    stats["reads"].add((case["tyname"], vlib.stable_hash(exp)[:12], api))
    stats["by_api"][api] = stats["by_api"].get(api, 0) + 1
    stats["by_place"][kind] = stats["by_place"].get(kind, 0) + 1
    if not best:
        stats["agreed"] += 1
        hh = int(vlib.stable_hash([case["tyname"], case.get("m"), case.get("ops")])[:6], 16)
        if len(samples) < 6 and (hh % 97 == 0 or "ops" in case and len(case["ops"]) >= 3 and hh % 31 == 0):
            samples.append({"type": case["tyname"], "init": case.get("init", case.get("ops")), "abstract": json.loads(brief_json(exp)),
                            "debugger_render": vals[0].get("render", "")[:300], "api": api, "placement": kind})
        return
    seen = set()
    for d in best:
        key = (d["class"], d["at"])
        if key in seen:
            continue
        seen.add(key)
        rep.mismatch(d["class"], action, at=d["at"], path=d["path"], expected=d["expected"], actual=d["actual"],
                     render=vals[0].get("render", "")[:300], **base)


def brief_json(x):
    s = json.dumps(x)
    return s if len(s) < 1500 else json.dumps({"k": x.get("k"), "elided": len(s)})


def note_shape(case, ev, stats):
    """which memory shapes the replayed collections really reached (from the program's own report)"""
    if "ops" not in case:
        return
    kind = case["kind"]
    sh = stats["shapes"].setdefault(kind, {"cases": 0})
    sh["cases"] += 1
    n = len(ev.get("items", ev.get("kv", [])))
    sh.setdefault("sizes", set()).add(n)
    if kind == "vdq":
        a, b = ev.get("split", [0, 0])
        if b > 0:
            sh["wrapped_in_memory"] = sh.get("wrapped_in_memory", 0) + 1
            if not case["model"]["wrapped"] and case["model"]["ring_ok"]:
                stats["model_drift"].append(f"ring model says not wrapped, program says wrapped: {case['ops']}")
        elif case["model"]["wrapped"]:
            stats["model_drift"].append(f"ring model says wrapped, program says contiguous: {case['ops']}")
        sh.setdefault("capacities", set()).add(ev.get("cap"))
    if kind in ("hset", "hmap"):
        sh.setdefault("capacities", set()).add(ev.get("cap"))
        if case["model"]["dels"] > 0:
            sh["with_removals"] = sh.get("with_removals", 0) + 1
        if ev.get("cap", 0) >= 28:
            sh["multi_group_tables"] = sh.get("multi_group_tables", 0) + 1
    if kind in ("bset", "bmap"):
        if n > 11:
            sh["multi_level_trees"] = sh.get("multi_level_trees", 0) + 1
        if case["model"]["dels"] > 0:
            sh["with_removals"] = sh.get("with_removals", 0) + 1


# ------------------------------------------------------------------------------------------------
# the check
# ------------------------------------------------------------------------------------------------
def new_stats():
    return {"evaluations": 0, "agreed": 0, "nontrivial": set(), "by_api": {}, "by_place": {}, "shapes": {},
            "multi_results": 0, "locals_call_panics": 0, "model_drift": [], "reads": set()}


def number(cases, start=0):
    for i, c in enumerate(cases, start):
        c["id"] = i
    return cases


def run_set(rep, exe, cases, tc, tag, stats, samples, jobs_build, jobs_run):
    """generate, build, run and judge one set of cases under one toolchain"""
    chunks = gen.batches(cases)
    batches = [gen.gen_batch(ch, f"c06_{tag}_{i}") for i, ch in enumerate(chunks)]
    built = build_all(batches, tc, jobs_build)
    by_id = {c["id"]: c for c in cases}
    t0 = time.time()

    def one(i):
        puppet, src, plan = built[i]
        return i, run_driver(exe, puppet, src, plan, f"{tag}-{tc}-{i}")

    results = {}
    with cf.ThreadPoolExecutor(max_workers=jobs_run) as ex:
        for i, res in ex.map(one, range(len(built))):
            results[i] = res
    vlib.log(f"[c06] {tag}/{tc}: {len(cases)} variables in {len(built)} sessions, {time.time() - t0:.1f}s")
    for i in range(len(built)):
        rows, crashes = results[i]
        judge(rep, by_id, built[i][2], rows, crashes, tc, stats, samples)
    return len(built)


def run(rep, tier, replay):
    if replay:
        return run_replay(rep, tier, replay)
    t0 = time.time()
    thorough = tier == "thorough"
    exe = vlib.cargo_build("c06")
    stats, samples = new_stats(), []
    tlc_states = tlc_trans = 0

    # (c) decoder models: started now, collected after the replay legs
    pool = cf.ThreadPoolExecutor(max_workers=2)
    dec_futs = decoder_models_start(pool, coverage=thorough)
    r6_fut = pool.submit(coll_cases, "Values_colls_r6.cfg", workers=2)

    # (a) type grammar
    sets = []
    if not thorough:
        r, cases = type_cases("Values_types_d1.cfg")
        sets.append(("d1", cases, "1.89"))
    else:
        r, cases = type_cases("Values_types_d1r.cfg", coverage=True, timeout=1800)
        sets.append(("d1r", cases, "1.89"))
        r1, c1 = type_cases("Values_types_d1.cfg")
        tlc_states, tlc_trans = tlc_states + r1.distinct, tlc_trans + r1.generated
        sets.append(("d1", c1, "stable"))
        sets.append(("d1", [dict(c) for c in c1], "nightly"))
        r2, c2 = type_cases("Values_types_d2.cfg", timeout=1800)
        tlc_states, tlc_trans = tlc_states + r2.distinct, tlc_trans + r2.generated
        sets.append(("d2", [c for c in c2 if c["depth"] == 2], "1.89"))
        r3, c3 = type_cases("Values_types_d3.cfg", simulate=100, depth=4, timeout=900)
        c3 = [c for c in c3 if c["depth"] == 3]
        import random
        c3 = random.Random(vlib.seed()).sample(c3, min(len(c3), 1200))      # depth 3: seeded sample
        sets.append(("d3", c3, "1.89"))
    tlc_states, tlc_trans = tlc_states + r.distinct, tlc_trans + r.generated
    type_states = r.distinct

    # (b) collections
    # one worker: breadth-first order is then deterministic, so the operation sequence printed for a state (and with
    # it the generated puppet source and its cache key) is the same on every run
    rc, colls = coll_cases("Values_colls_t.cfg" if thorough else "Values_colls_q.cfg", workers=1, coverage=thorough, timeout=1800)
    tlc_states, tlc_trans = tlc_states + rc.distinct, tlc_trans + rc.generated
    coll_states = rc.distinct
    if thorough:
        vac = [a for a in vlib.vacuous_actions(rc) if a in ("CollsNext",)]
        if vac:
            raise vlib.ToolError(f"vacuous: {vac}")
        rh, ch = coll_cases("Values_colls_h.cfg")
        tlc_states, tlc_trans = tlc_states + rh.distinct, tlc_trans + rh.generated
        have = {(c["kind"], c["elem"], json.dumps(c["ops"])) for c in colls}
        colls += [c for c in ch if (c["kind"], c["elem"], json.dumps(c["ops"])) not in have]
    r6r, r6 = r6_fut.result()
    tlc_states, tlc_trans = tlc_states + r6r.distinct, tlc_trans + r6r.generated
    r6 = [c for c in r6 if c["src"] == "script"]
    per_kind = {}
    for c in colls:
        per_kind[c["kind"]] = per_kind.get(c["kind"], 0) + 1
    if any(per_kind.get(k, 0) < 12 for k in ("vec", "vdq", "hset", "hmap", "bset", "bmap")):
        raise vlib.ToolError(f"vacuous: fewer than 12 shapes for some collection: {per_kind}")

    jobs_build = 4
    jobs_run = 3
    sessions = 0
    n_vars = 0
    first = True
    for tag, cases, tc in sets:
        cases = number(cases)
        if first:
            # collections ride in the first set's puppets (interleaved at the end), R6 and garbage in their own
            extra = number([dict(c) for c in colls], len(cases))
            allc = cases + extra
            first = False
        else:
            allc = cases
        n_vars += len(allc)
        sessions += run_set(rep, exe, allc, tc, tag, stats, samples, jobs_build, jobs_run)
    r6 = number(r6)
    n_vars += len(r6)
    sessions += run_set(rep, exe, r6, "1.89", "r6", stats, samples, jobs_build, jobs_run)
    garbage = garbage_state(dec_futs["vdq_garbage"].result())
    if garbage:
        g = number([{"special": "vdq_garbage", **garbage}])
        n_vars += 1
        sessions += run_set(rep, exe, g, "1.89", "garbage", stats, samples, 1, 1)

    dec, s_, t_ = decoder_models_finish(dec_futs, coverage=thorough)
    pool.shutdown()
    tlc_states, tlc_trans = tlc_states + s_, tlc_trans + t_
    for name in ("vdq", "hb", "bt"):
        if dec[name]["violated"]:
            # the transcription disagrees with the abstraction.  That is a statement about the code only if the
            # real decoder shows it too; the replayed collections above are the real twins and decide.
            stats["model_drift"].append(f"decoder model {name} violates {dec[name]['violated']}")
    for msg in stats["model_drift"][:10]:
        print(f"MODEL-DRIFT: {msg}", file=sys.stderr)
    SCRATCH.mkdir(parents=True, exist_ok=True)
    vlib.ndjson_write(SCRATCH / "last_mismatches.ndjson", rep.records)
    by_class = {}
    for rec in rep.records:
        key = f"{rec['class']}@{rec.get('at')}"
        by_class[key] = by_class.get(key, 0) + 1
    shapes = {k: {a: (sorted(x for x in b if x is not None) if isinstance(b, set) else b) for a, b in v.items()}
              for k, v in stats["shapes"].items()}
    if stats["agreed"] == 0:
        raise vlib.ToolError("vacuous: no variable agreed with its abstract value")
    if shapes.get("vdq", {}).get("wrapped_in_memory", 0) == 0:
        raise vlib.ToolError("vacuous: no replayed VecDeque wrapped around in real memory")
    vlib.log(f"[c06] variables={n_vars} evaluations={stats['evaluations']} agreed={stats['agreed']} "
             f"mismatches={by_class} total={time.time() - t0:.0f}s")
    coverage = {
        "evaluations": stats["evaluations"],
        "distinct_nontrivial": len(stats["nontrivial"]),
        "rule": RULE,
        "samples": samples or [{"note": "no agreeing sample drawn"}],
        "variables": n_vars, "debugger_sessions": sessions,
        "reads_agreeing_with_the_abstract_value": stats["agreed"],
        "reads_by_api": stats["by_api"], "reads_by_placement": stats["by_place"],
        "type_grammar": {"tlc_states_types": type_states,
                         "sets": [{"set": tag, "toolchain": tc, "cases": len(cases)} for tag, cases, tc in sets]},
        "collections": {"tlc_states": coll_states, "cases_per_kind": per_kind, "r6_scripts": len(r6),
                        "shapes_reached_in_real_memory": shapes},
        "decoder_models": dec,
        "states": tlc_states, "transitions": tlc_trans,
        "traces_validated_against_impl": n_vars,
        "results_with_several_values_for_one_name": stats["multi_results"],
        "mismatch_records_by_class_and_constructor": by_class,
        "model_bound": not stats["model_drift"], "model_drift": stats["model_drift"][:10],
        "exhaustive": not thorough or None,
    }
    coverage = {k: v for k, v in coverage.items() if v is not None}
    return rep.finish("exploration", coverage, assumptions=[
        "puppets are compiled with rustc -g (opt-level 0); quick: 1.89; thorough adds stable and nightly for the depth<=1 set",
        "the grammar is the one of spec/Values.tla: 25 leaves x 30 unary constructors, companion positions fixed (u8/i64/u16/bool)",
        "the program's own report (trait Abs + type_name) must equal TLC's abstract value before a puppet is used",
        "decoder models abstract the group width to 4 and node fan-out to 3; parent links of B-tree nodes are as std maintains them",
        "niche layouts are whatever the installed compilers choose",
    ])


# ------------------------------------------------------------------------------------------------
# replay
# ------------------------------------------------------------------------------------------------
def tla_of(j):
    if isinstance(j, bool):
        return "TRUE" if j else "FALSE"
    if isinstance(j, int):
        return str(j)
    if isinstance(j, str):
        return '"' + j.replace("\\", "\\\\").replace('"', '\\"') + '"'
    if isinstance(j, list):
        return "<<" + ", ".join(tla_of(x) for x in j) + ">>"
    if isinstance(j, dict) and j:
        return "[" + ", ".join(f"{k} |-> {tla_of(v)}" for k, v in j.items()) + "]"
    raise vlib.ToolError(f"cannot render {j!r} as TLA+")


def run_replay(rep, tier, replay):
    """Re-run one stored case: TLC recomputes descriptor and abstract value of the stored type / operation
    sequence from Values.tla, the puppet is regenerated with the stored placement, same comparator."""
    rec = json.loads(Path(replay).read_text())
    step = rec["script"][0]
    case, tc = step["case"], step["toolchain"]
    exe = vlib.cargo_build("c06")
    wd = SCRATCH / f"replay-{os.getpid()}"
    wd.mkdir(parents=True, exist_ok=True)
    stats, samples = new_stats(), []
    if "special" in case:
        fresh = dict(case)
    else:
        if "ops" in case:
            body = (f'ASSUME PrintT(<<"RCASE", ToJson(CollDescriptor(RunOps([Coll0({tla_of(case["kind"])}, {tla_of(case["elem"])}) '
                    f'EXCEPT !.ring.ok = FALSE], {tla_of(case["ops"])}, 1), {tla_of(case["ops"])}, "script"))>>)\n')
        else:
            body = f'ASSUME PrintT(<<"RCASE", ToJson(Descriptor({tla_of(case["ty"])}, {case["m"]}))>>)\n'
        for n, o in enumerate(step.get("tls_context", [])):
            body += f'ASSUME PrintT(<<"RCTX", ToJson([n |-> {n}, d |-> Descriptor({tla_of(o["ty"])}, {o["m"]})])>>)\n'
        (wd / "ValuesReplay.tla").write_text("---- MODULE ValuesReplay ----\nEXTENDS Values\n" + body + "====\n")
        cfg = (vlib.SPEC / "Values_vdq.cfg").read_text().replace("MaxCap = 6", "MaxCap = 1")
        (wd / "ValuesReplay.cfg").write_text(cfg.replace("INVARIANTS Emit DecoderEqualsAbstraction", "INVARIANTS DecoderEqualsAbstraction"))
        r = vlib.tlc("ValuesReplay", "ValuesReplay.cfg", workers=1, timeout=300, cwd=wd, heap="2g",
                     jvm=[f"-DTLA-Library={vlib.SPEC}"], name="c06replay")
        vlib.tlc_expect_ok(r, "ValuesReplay")
        hit = [c for c in vlib.printed(r.out, "RCASE") if isinstance(c, dict)]
        if not hit:
            raise vlib.ToolError(f"replay: TLC did not evaluate the stored case\n{r.out[-1500:]}")
        fresh = hit[0]
        ctx = sorted([c for c in vlib.printed(r.out, "RCTX") if isinstance(c, dict)], key=lambda c: c["n"])
        for f in wd.iterdir():
            f.unlink()
        wd.rmdir()
    fresh["place"] = step.get("placement", "local")
    fresh["order"] = step.get("order", 0)
    batch = [fresh]
    for c, o in zip([c["d"] for c in ctx] if "special" not in case else [], step.get("tls_context", [])):
        c["place"], c["order"] = o["placement"], o.get("order", 0)
        batch.append(c)
    batch.sort(key=lambda c: c["order"])           # declaration order of the original puppet
    number(batch)
    keep = len(rep.records)                        # the neighbours are context: read, not judged
    run_set(rep, exe, batch, tc, "replay", stats, samples, 1, 1)
    rep.records = [r_ for r_ in rep.records[keep:] if r_.get("case_key") == case_key(fresh)]
    return rep.finish("exploration", {"evaluations": max(stats["evaluations"], 1),
                                      "distinct_nontrivial": len(stats["reads"]),   # distinct (case, API) reads
                                      "rule": RULE, "samples": samples or [{"replayed": step}], "replay_of": str(replay)})

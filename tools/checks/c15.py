"""C15 -- Memory and register access is exact.

spec/MemRW.tla is the reference (SpecRead / SpecWrite / register file / original text bytes) and also holds
transcriptions of the code's algorithms.  This module
  1. runs TLC exhaustively on the three machines (what must hold: MemRW_E/_F/_VE/_RegE/_DisE; what the
     as-written models are *predicted* to break: MemRW_R, MemRW_DisR, MemRW_DisD),
  2. lets TLC print every single call at the real word size and simulated histories as JSON cases that
     carry the *specification's* outcome,
  3. replays them on the real debugger (harness/src/bin/c15.rs: Debugger API and in-process DAP session,
     images through /proc/<pid>/mem, PTRACE_GETREGS on the tracer thread, capstone over the ELF file),
  4. compares the real observation with the specification's outcome, case by case.
A TLC violation of an Alg* model is never reported by itself: only the real observation decides.
"""
import json
import math
import os
import re
import struct
import subprocess
from concurrent.futures import ThreadPoolExecutor
from pathlib import Path

import vlib
import c15_puppet

W8 = 8
REGS16 = c15_puppet.REGS16
MODES = ("mem-api", "mem-dap", "vars-dap", "regs", "dis-api", "dis-dap")
ACTION = {("mem-api", "R"): "api.read_memory", ("mem-api", "WW"): "api.write_memory",
          ("mem-dap", "R"): "dap.readMemory", ("mem-dap", "WB"): "dap.writeMemory"}
ABS = {"0": 0, "1": 1, "2^63": 1 << 63, "2^64-1": (1 << 64) - 1}


# ------------------------------------------------------------------------------------------------
# TLC
# ------------------------------------------------------------------------------------------------
def _cov(out):
    """Per-action coverage (vlib's parser does not see actions with a bound variable)."""
    cov = {}
    for m in re.finditer(r"<(Do\w+) line \d+, col \d+ to line \d+, col \d+ of module MemRW(?: \([\d ]+\))?>: (\d+):(\d+)", out):
        a, b = cov.get(m.group(1), (0, 0))
        cov[m.group(1)] = (a + int(m.group(2)), b + int(m.group(3)))
    return cov


def _tlc(cfg, workers=2, **kw):
    r = vlib.tlc("MemRW", cfg, workers=workers, heap="3g", timeout=kw.pop("timeout", 900), **kw)
    vlib.tlc_expect_ok(r, cfg)
    return r


def run_tlc(tier):
    """Returns (results by cfg, emitted dict)."""
    thorough = tier == "thorough"
    seed = vlib.seed()
    nh = 300 if thorough else 40
    jobs = {
        # exhaustive: must hold
        "MemRW_E3.cfg" if thorough else "MemRW_E.cfg": dict(workers=8 if thorough else 4, timeout=1500),
        "MemRW_RegE.cfg": dict(workers=2),
        "MemRW_DisE.cfg": dict(workers=1),
        # generation (one worker: printed lines must not interleave); _G/_V/_DisG also check invariants
        "MemRW_G.cfg": dict(workers=1),
        "MemRW_V.cfg": dict(workers=1),
        "MemRW_RegC.cfg": dict(workers=1),
        "MemRW_DisG.cfg": dict(workers=1),
        "MemRW_HA.cfg": dict(workers=1, simulate=nh, depth=4, seed_arg=seed),
        "MemRW_HD.cfg": dict(workers=1, simulate=nh, depth=4, seed_arg=seed),
    }
    if thorough:
        jobs.update({
            "MemRW_F.cfg": dict(workers=2),           # candidate fix of the read loop: everything holds
            "MemRW_VE.cfg": dict(workers=2),
            # predictions about the code as written (expected to be violated; the binding decides)
            "MemRW_R.cfg": dict(workers=1),
            "MemRW_DisR.cfg": dict(workers=1),
            "MemRW_DisD.cfg": dict(workers=1),
            "MemRW_HV.cfg": dict(workers=1, simulate=nh // 2, depth=4, seed_arg=seed),
            "MemRW_RegG.cfg": dict(workers=1, simulate=nh, depth=5, seed_arg=seed),
        })
        # coverage statistics make TLC ~6x slower: separate runs of the small configurations
        for c in ("MemRW_E.cfg", "MemRW_RegE.cfg", "MemRW_DisE.cfg", "MemRW_VE.cfg"):
            jobs[c + "#cov"] = dict(workers=4, coverage=True, timeout=1500)
    res = {}
    # development only (mutant runs): C15_TLC_CACHE=<file> reuses TLC's outputs for an unchanged spec/seed/tier
    cache = os.environ.get("C15_TLC_CACHE")
    key = vlib.stable_hash([tier, seed, sorted(jobs), [(f.name, f.read_text()) for f in sorted(vlib.SPEC.glob("MemRW*"))]])
    if cache and Path(cache).exists() and json.loads(Path(cache).read_text()).get("key") == key:
        for k, v in json.loads(Path(cache).read_text())["res"].items():
            r = vlib.TlcResult()
            r.out, r.distinct, r.generated, r.violated, r.wall = v["out"], v["distinct"], v["generated"], v["violated"], v["wall"]
            res[k] = r
        vlib.log("[c15] TLC outputs taken from", cache)
    else:
        with ThreadPoolExecutor(max_workers=3 if thorough else 5) as ex:
            futs = {k: ex.submit(_tlc, k.split("#")[0], name=k.replace("#", "-").replace(".cfg", ""), **kw) for k, kw in jobs.items()}
            for k, f in futs.items():
                res[k] = f.result()
        if cache:
            Path(cache).write_text(json.dumps({"key": key, "res": {k: {"out": r.out, "distinct": r.distinct, "generated": r.generated,
                                                                      "violated": r.violated, "wall": r.wall} for k, r in res.items()}}))
    must_hold = [k for k in jobs if k.split("#")[0] not in ("MemRW_R.cfg", "MemRW_DisR.cfg", "MemRW_DisD.cfg")]
    for k in must_hold:
        if res[k].violated:
            raise vlib.ToolError(f"{k}: {res[k].violated} violated -- the specification and its own models disagree "
                                 f"(spec/cfg changed?)\n{res[k].out[-1500:]}")
    if thorough:
        need = {"MemRW_E.cfg#cov": ("DoRead", "DoWriteBytes", "DoWriteWord"), "MemRW_RegE.cfg#cov": ("DoSetReg", "DoGetReg", "DoResume"),
                "MemRW_DisE.cfg#cov": ("DoSetBp", "DoRemoveBp", "DoDisasm"), "MemRW_VE.cfg#cov": ("DoWriteVar",)}
        for k, acts in need.items():
            cov = _cov(res[k].out)
            for a in acts:
                if cov.get(a, (0, 0))[1] == 0:
                    raise vlib.ToolError(f"vacuous: action {a} never fired in {k}")
    return res


def emitted(res):
    def scripts(prefix, lists):
        return [{"id": f"{prefix}{i}", "ops": ops} for i, ops in enumerate(lists)]
    cases = vlib.printed(res["MemRW_G.cfg"].out, "CASE")
    vcases = vlib.printed(res["MemRW_V.cfg"].out, "CASE")
    ha = vlib.printed(res["MemRW_HA.cfg"].out, "HIST")
    hd = vlib.printed(res["MemRW_HD.cfg"].out, "HIST")
    hv = vlib.printed(res["MemRW_HV.cfg"].out, "HIST") if "MemRW_HV.cfg" in res else []
    # register probes: keep the longest printed history per (register, value)
    probes = {}
    for h in vlib.printed(res["MemRW_RegC.cfg"].out, "HIST"):
        k = (h[0]["reg"], json.dumps(h[0]["val"]))
        if k not in probes or len(h) > len(probes[k]):
            probes[k] = h
    rg = vlib.printed(res["MemRW_RegG.cfg"].out, "HIST") if "MemRW_RegG.cfg" in res else []
    dis = {}
    for c in vlib.printed(res["MemRW_DisG.cfg"].out, "CASE"):
        dis[tuple(sorted(c["bps"]))] = c
    for what, lst, least in (("single memory cases", cases, 1500), ("variable cases", vcases, 60), ("API histories", ha, 10),
                             ("DAP histories", hd, 10), ("variable histories", hv, 5 if hv else 0), ("register probes", probes, 60),
                             ("register histories", rg, 10 if rg else 0), ("breakpoint placements", dis, 26)):
        if len(lst) < least or any(isinstance(x, str) for x in (lst if isinstance(lst, list) else [])):
            raise vlib.ToolError(f"generation produced too few / malformed {what}: {len(lst)}")
    for op in ("R", "WB", "WW"):
        oks = {c["spec_ok"] for c in cases if c["op"] == op}
        if oks != {True, False}:
            raise vlib.ToolError(f"vacuous generation: {op} cases do not contain both accepted and refused accesses")
    return {
        "mem-api": scripts("c", [[c] for c in cases if c["op"] in ("R", "WW")]) + scripts("h", ha),
        "mem-dap": scripts("c", [[c] for c in cases if c["op"] in ("R", "WB")]) + scripts("h", hd),
        "vars-dap": scripts("v", [[c] for c in vcases]) + scripts("h", hv),
        "regs": scripts("p", [probes[k] for k in sorted(probes)]) + scripts("h", rg),
        "dis-api": [{"id": f"d{i}", "bps": list(k), "spec": c["spec"], "alg": c["algmasked"], "algfix": c["algfix"]}
                    for i, (k, c) in enumerate(sorted(dis.items()))],
        "dis-dap": [{"id": f"d{i}", "bps": list(k), "spec": c["spec"], "alg": c["algraw"], "algfix": c["algfix"]}
                    for i, (k, c) in enumerate(sorted(dis.items()))],
    }


# ------------------------------------------------------------------------------------------------
# harness
# ------------------------------------------------------------------------------------------------
def run_mode(exe, puppet, mode, scripts, tag, timeout=900):
    exe_p, rs, lines = puppet
    d = vlib.WORK / "c15" / f"run-{os.getpid()}"
    d.mkdir(parents=True, exist_ok=True)
    sp, cp, op = d / f"{mode}.{tag}.scripts", d / f"{mode}.{tag}.cfg.json", d / f"{mode}.{tag}.out"
    vlib.ndjson_write(sp, scripts)
    cp.write_text(json.dumps({"puppet": str(exe_p), "source": str(rs), "lines": lines, "scripts": str(sp),
                              "fields": c15_puppet.pack_layout(), "rounds": 6 * len(scripts) + 50}))
    try:
        p = subprocess.run([str(exe), mode, str(cp), str(op)], capture_output=True, text=True, timeout=timeout,
                           env=dict(os.environ, RUST_BACKTRACE="0"), start_new_session=True)
        rc, err = p.returncode, p.stderr
    except subprocess.TimeoutExpired:
        rc, err = -9, "watchdog timeout"
    recs = vlib.ndjson_read(op) if op.exists() else []
    return {"rc": rc, "stderr": err[-1500:], "records": recs}


# ------------------------------------------------------------------------------------------------
# comparison: real observation vs the specification's outcome
# ------------------------------------------------------------------------------------------------
class Cmp:
    def __init__(self, rep):
        self.rep = rep
        self.compared = 0
        self.samples = []
        self.drift = {"read_like_written": 0, "read_like_fixed": 0, "read_cases": 0}
        self.notes = []
        self.counts = {}

    def bad(self, cls, action, mode, script, **kw):
        self.rep.mismatch(cls, action, script={"mode": mode, "script": script}, **kw)

    def count(self, k):
        self.counts[k] = self.counts.get(k, 0) + 1

    # ---- memory ------------------------------------------------------------------------------
    def mem(self, mode, scripts, out):
        by = {s["id"]: s for s in scripts}
        stale = set()        # (script, placement) whose expectations no longer apply after a mismatch
        for r in out["records"]:
            if "meta" in r:
                continue
            sc = by[r["id"]]
            o = sc["ops"][r["i"]]
            key = (r["id"], r["placement"])
            if key in stale:
                continue
            action = ACTION[(mode, o["op"])]
            case = {k: o[k] for k in ("op", "a", "n", "data", "len")}
            case["placement"] = r["placement"]
            self.compared += 1
            self.count(f"{action}:{'ok' if o['spec_ok'] else 'refused'}:{r['placement']}")
            if len(self.samples) < 4 and r["i"] == 0 and o["spec_ok"] and o["a"] % 8:
                self.samples.append({"via": action, "case": case, "spec": {"ok": o["spec_ok"], "bytes": o["spec_bytes"], "after": o["spec_after"]},
                                     "real": {"ok": r["real_ok"], "bytes": r["real_bytes"], "after": r["win_after"]}})
            if r["win_before"] != o["before"]:
                raise vlib.ToolError(f"{mode} {r['id']}[{r['i']}]: arena not in the specification's pre-state (driver out of step)")
            n0 = len(self.rep.records)
            kw = dict(mode=mode, script=sc, case=case)
            if r["real_ok"] is None:
                self.bad("panic_or_no_answer", action, expected="an answer", actual=r["real_err"], **kw)
            elif o["op"] == "R":
                # which peek the word loop would issue last (classification only, for the finding's shape)
                tail_past_end = r["placement"] == "E" and o["a"] + 8 * math.ceil(o["n"] / 8) > o["len"]
                shape = "tail_peek_past_end_of_mapping" if tail_past_end else "other"
                if o["spec_ok"] and not r["real_ok"]:
                    self.bad("read_refused_mapped", action, shape=shape, expected={"ok": True, "bytes": o["spec_bytes"]},
                             actual={"ok": False, "err": r["real_err"]}, **kw)
                elif o["spec_ok"] and r["real_bytes"] != o["spec_bytes"]:
                    self.bad("read_wrong_bytes", action, shape=shape, expected=o["spec_bytes"], actual=r["real_bytes"], **kw)
                elif not o["spec_ok"] and r["real_ok"]:
                    self.bad("read_unmapped_succeeded", action, shape=shape, expected="error", actual=r["real_bytes"], **kw)
                if r["win_after"] != r["win_before"] or r["outside_changed"]:
                    self.bad("read_changed_memory", action, shape=shape, expected="memory unchanged", actual=r["outside_changed"], **kw)
                if r["placement"] == "E":
                    self.drift["read_cases"] += 1
                    self.drift["read_like_written"] += r["real_ok"] == o["alg_ok"]
                    self.drift["read_like_fixed"] += r["real_ok"] == o["algfix_ok"]
            else:
                if r["outside_changed"]:
                    self.bad("neighbour_changed", action, expected="only [a, a+n) changes",
                             actual={"offset_from_a, before, after": r["outside_changed"]}, **kw)
                if o["spec_ok"] and not r["real_ok"]:
                    self.bad("write_refused_mapped", action, expected="ok", actual=r["real_err"], **kw)
                elif o["spec_ok"] and r["win_after"] != o["spec_after"]:
                    self.bad("write_wrong_bytes", action, expected=o["spec_after"], actual=r["win_after"], **kw)
                elif not o["spec_ok"] and r["real_ok"]:
                    self.bad("write_unmapped_succeeded", action, expected="error", actual="ok", **kw)
            if len(self.rep.records) > n0:
                stale.add(key)

    # ---- variables ---------------------------------------------------------------------------
    @staticmethod
    def _same_value(ty, literal, shown):
        try:
            if not isinstance(shown, str):
                return False
            if ty in ("u8", "u16", "u32", "u64", "usize", "i8", "i16", "i32", "i64", "isize"):
                return int(shown) == int(literal)
            if ty == "bool":
                return shown == literal
            if ty == "char":
                if literal.startswith("'"):
                    return shown.strip("'") == literal.strip("'")
                return True          # rendering of control characters is not what C15 is about
            if ty == "f32":
                return struct.pack("<f", float(shown)) == struct.pack("<f", float(literal))
            if ty == "f64":
                return float(shown) == float(literal)
        except ValueError:
            return False
        return True

    def vars(self, mode, scripts, out):
        by = {s["id"]: s for s in scripts}
        meta = {r["meta"]: r for r in out["records"] if "meta" in r}
        first = scripts[0]["ops"][0]["before"]
        if meta.get("pack", {}).get("initial") != first:
            raise vlib.ToolError("puppet's packed struct does not start as spec PackImage0 (program/model correspondence broken)")
        lay = {(o, s) for _, _, o, s in c15_puppet.pack_layout()}
        model = {(c["ops"][0]["a"], c["ops"][0]["n"]) for c in scripts}
        if not model <= lay:
            raise vlib.ToolError(f"spec Fields {sorted(model - lay)} are not members of the puppet's struct")
        stale = set()
        for r in out["records"]:
            if "meta" in r:
                continue
            sc = by[r["id"]]
            o = sc["ops"][r["i"]]
            key = (r["id"], r["via"])
            if key in stale:
                continue
            action = "dap." + r["via"]
            case = {"member": r["member"], "type": r["type"], "literal": r["literal"], "a": o["a"], "n": o["n"], "data": o["data"]}
            self.compared += 1
            self.count(f"{action}:{r['type']}")
            if len(self.samples) < 6 and r["type"] in ("u64", "f64") and r["i"] == 0 and len([s for s in self.samples if "member" in s.get("case", {})]) < 2:
                self.samples.append({"via": action, "case": case, "spec_after": o["spec_after"], "real_after": r["win_after"], "readback": r["readback"]})
            if r["win_before"] != o["before"]:
                raise vlib.ToolError(f"{mode} {r['id']}[{r['i']}]: struct not in the specification's pre-state")
            n0 = len(self.rep.records)
            kw = dict(mode=mode, script=sc, case=case)
            if r["real_ok"] is None:
                self.bad("panic_or_no_answer", action, expected="an answer", actual=r["real_err"], **kw)
            elif not r["real_ok"]:
                self.bad("setvar_refused", action, expected="ok", actual=r["real_err"], **kw)
            else:
                if r["win_after"] != o["spec_after"]:
                    self.bad("setvar_wrong_bytes", action, expected=o["spec_after"], actual=r["win_after"], **kw)
                elif not self._same_value(r["type"], r["literal"], r["readback"]):
                    self.bad("setvar_readback_differs", action, expected=r["literal"], actual=r["readback"], **kw)
            if r["outside_changed"]:
                self.bad("setvar_neighbour_changed", action, expected="only the member changes", actual=r["outside_changed"], **kw)
            if len(self.rep.records) > n0:
                stale.add(key)

    # ---- registers ---------------------------------------------------------------------------
    @staticmethod
    def _val(v, init, alt):
        if v[0] == "v":
            return ABS[v[1]]
        if v[0] == "a":
            return alt
        return init[v[1]]

    def regs(self, mode, scripts, out):
        by = {s["id"]: s for s in scripts}
        stale = set()
        done = {r.get("meta"): r for r in out["records"] if "meta" in r}
        for r in out["records"]:
            if "meta" in r or r["id"] in stale:
                continue
            sc = by[r["id"]]
            o = sc["ops"][r["i"]]
            self.compared += 1
            n0 = len(self.rep.records)
            kw = dict(mode=mode, script=sc)
            if r["real_ok"] is None:
                self.bad("panic_or_no_answer", "api." + r["op"], expected="an answer", actual=r["real_err"], **kw)
            elif r["op"] == "set":
                action, case = "api.set_register_value", {"reg": r["reg"], "value": r["value"]}
                self.count(f"set:{r['reg']}")
                if not r["real_ok"]:
                    if r["kernel_refuses"]:
                        self.notes.append(f"kernel refuses {r['reg']}={r['value']:#x} from any tracer; history {r['id']} cut")
                    else:
                        self.bad("reg_write_refused", action, case=case, expected="ok", actual=r["real_err"], **kw)
                    stale.add(r["id"])
                    continue
                for reg, v in o["spec_regs"].items():
                    want = self._val(v, r["init"], r["alt"])
                    if r["regs"][reg] != want:
                        cls = "reg_write_not_visible" if reg == r["reg"] else "reg_write_changed_other_register"
                        self.bad(cls, action, case=case, expected={reg: want}, actual={reg: r["regs"][reg]}, **kw)
                for reg in set(r["regs"]) - set(o["spec_regs"]):       # eflags, segments, bases, orig_rax
                    if r["regs"][reg] != r["init"][reg]:
                        self.bad("reg_write_changed_other_register", action, case=case, expected={reg: r["init"][reg]},
                                 actual={reg: r["regs"][reg]}, **kw)
                if len(self.samples) < 8 and r["value"] == 1 << 63 and not any("reg" in s.get("case", {}) for s in self.samples):
                    self.samples.append({"via": action, "case": case, "getregs_after": {r["reg"]: r["regs"][r["reg"]]}})
            elif r["op"] == "get":
                action, case = "api.get_register_value", {"reg": r["reg"]}
                self.count(f"get:{r['reg']}")
                if not r["real_ok"]:
                    self.bad("reg_read_refused", action, case=case, expected="a value", actual=r["real_err"], **kw)
                else:
                    v = o["spec_get"]
                    want = self._val(v, r["init"], r["alt"])
                    if r["value"] != want:
                        self.bad("reg_read_wrong", action, case=case, expected=want, actual=r["value"], **kw)
            elif r["op"] == "resume":
                action = "api.continue_debugee"
                self.count("resume")
                if not r["real_ok"] or not r["stopped_again"] or r["round_after"] != r["round_before"] + 1:
                    self.bad("resume_failed_after_register_write", action, expected="next round of the puppet",
                             actual={"ok": r["real_ok"], "err": r["real_err"], "round": [r["round_before"], r["round_after"]]}, **kw)
                    stale.add(r["id"])
                    continue
                for reg, v in o["spec_seen"].items():
                    if reg == "rip":
                        want_path = 2 if v[0] == "a" else 1
                        if r["seen"]["path"] != want_path:
                            self.bad("reg_write_not_seen_by_program", action, case={"reg": "rip"}, expected={"path": want_path},
                                     actual={"path": r["seen"]["path"]}, **kw)
                        continue
                    want = self._val(v, r["init"], r["alt"])
                    if r["seen"][reg] != want:
                        self.bad("reg_write_not_seen_by_program", action, case={"reg": reg}, expected={reg: want},
                                 actual={reg: r["seen"][reg]}, **kw)
            if len(self.rep.records) > n0:
                stale.add(r["id"])
        if done.get("done", {}).get("dead") and not self.rep.records:
            raise vlib.ToolError(f"register session was lost without an explanation: {done.get('lost')}")

    # ---- disassembly -------------------------------------------------------------------------
    def dis(self, mode, scripts, out):
        by = {s["id"]: s for s in scripts}
        action = "api.disasm" if mode == "dis-api" else "dap.disassemble"
        agree = 0
        for r in out["records"]:
            if "meta" in r:
                continue
            sc = by[r["id"]]
            self.compared += 1
            case = {"bps": r["bps"], "function": r["func"]}
            if r.get("refused"):
                raise vlib.ToolError(f"{mode}: breakpoint sites refused: {r['refused']}")
            if mode == "dis-dap" and not all(v is True for v in r["verified"]):
                raise vlib.ToolError(f"{mode}: instruction breakpoints not verified: {r['verified']} for {r['bps']}")
            inside = [s for s in r["bps"] if s in ("first", "inner", "last")]
            shape = "bp_at_function_end" if "end" in r["bps"] else ("bp_in_range" if inside or r["patched_in_func"] else "no_bp_in_range")
            kw = dict(mode=mode, script=sc, case=case, shape=shape)
            if r["real_ok"] is None:
                outcome = "panic"
                self.bad("disasm_panic", action, expected="the original instructions", actual=r["real_err"], **kw)
            elif not r["real_ok"]:
                outcome = "error"
                self.bad("disasm_refused", action, expected="the original instructions", actual=r["real_err"], **kw)
            elif r["listing"] != r["file_listing"]:
                outcome = "patched"
                diff = next(([a, b] for a, b in zip(r["listing"], r["file_listing"]) if a != b), [r["listing"][-1:], r["file_listing"][-1:]])
                self.bad("disasm_shows_patch", action, expected={"file": diff[1]}, actual={"shown": diff[0]}, **kw)
            else:
                outcome = "original"
            agree += outcome == sc["alg"]
            self.count(f"{action}:{outcome}")
            if outcome != "original" and len([s for s in self.samples if s.get("via") == action]) < 1:
                self.samples.append({"via": action, "case": case, "spec": "original instructions", "real": outcome, "detail": r["real_err"][:120]})
        self.drift[action + "_like_model"] = [agree, len([r for r in out["records"] if "meta" not in r])]

    def run(self, mode, scripts, out):
        if out["rc"] != 0 or not any(r.get("meta") == "done" for r in out["records"]):
            raise vlib.ToolError(f"harness c15 {mode} failed rc={out['rc']}: {out['stderr']}")
        {"mem-api": self.mem, "mem-dap": self.mem, "vars-dap": self.vars, "regs": self.regs,
         "dis-api": self.dis, "dis-dap": self.dis}[mode](mode, scripts, out)


# ------------------------------------------------------------------------------------------------
def run(rep, tier, replay):
    puppet = c15_puppet.build()
    exe = vlib.cargo_build("c15")
    cmp = Cmp(rep)
    if replay:
        rec = json.loads(Path(replay).read_text())
        mode, sc = rec["script"]["mode"], rec["script"]["script"]
        out = run_mode(exe, puppet, mode, [sc], "replay")
        cmp.run(mode, [sc], out)
        return rep.finish("model_checking", {"states": 1, "transitions": max(1, len(sc.get("ops", [1]))),
                                             "traces_validated_against_impl": cmp.compared, "samples": [rec.get("case", sc.get("id"))],
                                             "replay_of": str(replay)})
    res = run_tlc(tier)
    scripts = emitted(res)
    t1 = __import__("time").time()
    vlib.log(f"[c15] TLC done {t1 - rep.t0:.0f}s")
    with ThreadPoolExecutor(max_workers=6) as ex:
        futs = {m: ex.submit(run_mode, exe, puppet, m, scripts[m], tier) for m in MODES}
        outs = {m: f.result() for m, f in futs.items()}
    vlib.log(f"[c15] harness done {__import__('time').time() - t1:.0f}s")
    for m in MODES:
        cmp.run(m, scripts[m], outs[m])

    # model predictions vs reality (diagnostics only)
    d = cmp.drift
    # what the as-written models predict (from the printed cases; the thorough tier also has TLC's own verdicts)
    pred = {"reads_refused_although_mapped": sum(1 for sc in scripts["mem-api"] for o in sc["ops"][:1] if o["op"] == "R" and o["spec_ok"] and not o["alg_ok"]),
            "disasm_placements_not_original": sum(1 for sc in scripts["dis-api"] if sc["alg"] != "original"),
            "dap_disassemble_placements_not_original": sum(1 for sc in scripts["dis-dap"] if sc["alg"] != "original")}
    for k in ("MemRW_R.cfg", "MemRW_DisR.cfg", "MemRW_DisD.cfg"):
        if k in res:
            pred[k] = res[k].violated
    bound = d["read_cases"] > 0 and d["read_like_written"] == d["read_cases"] and all(a == b for a, b in (d["api.disasm_like_model"], d["dap.disassemble_like_model"]))
    if not bound:
        vlib.log(f"MODEL-DRIFT: the Alg* transcriptions in MemRW.tla no longer predict the code: {d} "
                 f"(reads like the aligned variant: {d['read_like_fixed']}/{d['read_cases']}) -- verdicts use the Spec* outcomes only")
    for n in cmp.notes[:5]:
        vlib.log("note:", n)
    exh = [k for k in res if not k.startswith(("MemRW_H", "MemRW_RegG"))]
    cov = {
        "states": sum(res[k].distinct for k in exh if "#" not in k),
        "transitions": sum(res[k].generated for k in exh if "#" not in k),
        "traces_validated_against_impl": cmp.compared,
        "samples": cmp.samples or [scripts["mem-api"][0]],
        "tlc": {k: {"distinct": r.distinct, "generated": r.generated, "violated": r.violated, "wall_s": round(r.wall, 1)} for k, r in res.items()},
        "scripts": {m: len(scripts[m]) for m in MODES},
        "operations_compared_by_kind": cmp.counts,
        "model_predictions": pred,
        "model_bound": bool(bound),
        "drift": d,
        "exhaustive": True,
    }
    return rep.finish("model_checking", cov, assumptions=[
        "/proc/<pid>/mem and PTRACE_GETREGS (issued by the harness itself) show the debuggee's true state",
        "capstone decodes the ELF file bytes the same way on both sides; only the bytes differ",
        "unmapped = real holes (munmap); PROT_NONE pages are readable through ptrace and are not used",
        "a refused write may leave anything inside [a, a+n); outside is checked",
        "x86-64 Linux, word size 8, page size 4096",
    ])

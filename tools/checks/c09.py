"""C09 -- All-stop and exactly-once reporting hold for every thread interleaving.

  spec/Stalk.tla       Kernel || Tracer || Threads (PlusCal).  TLC explores every interleaving of tracer
                       syscalls with thread instructions within the constants of Stalk_Q*.cfg / Stalk_T*.cfg
                       (invariants AllStop BeliefSound ThreadListExact NoCorruption NoMissed NoSpurious
                       AllReportedAtExit, deadlock = debugger hang).
  spec/TraceKernel.tla mode (V): every trace recorded from the REAL debugger (ptrace/waitpid interposer +
                       prompt probes) is replayed against the kernel model; the property is judged on the
                       reconstructed kernel state at every step of the real run (verdict records).
  binding spec->impl   schedule skeletons of simulated Stalk behaviours (which thread reaches its next stop
                       while the tracer sits before which syscall) steer gated puppets deterministically;
  binding impl->spec   free-running puppets (N up to 64) with seeded yields / pinning / tracer delays.
Both kinds of runs are recorded and judged by TraceKernel.tla; a rejected trace on the unchanged tree is a
kernel-model error (exit 2), never a finding.
"""
import json
import os
import random
import re
import subprocess
import time
from concurrent.futures import ThreadPoolExecutor
from pathlib import Path

import vlib
from vlib import ToolError, VERIF, WORK, SPEC, log
import sesslib

PUPPET_SRC = VERIF / "puppets" / "c09" / "c09p.rs"
W = WORK / "c09"
INV = "AllStop BeliefSound ThreadListExact NoCorruption NoMissed NoSpurious AllReportedAtExit".split()
KEEP = {"cont", "step", "interrupt", "wait", "patch", "setregs", "cmd", "report"}
NOTE_PREFIX = ("NOTE_", "MODEL_")


# ------------------------------------------------------------------------------------------------
# puppet + harness
# ------------------------------------------------------------------------------------------------
def puppet():
    exe = sesslib.build_puppet(PUPPET_SRC, toolchain="1.89", opt=0, pie=True)
    lines = {}
    for i, l in enumerate(PUPPET_SRC.read_text().splitlines(), 1):
        if "// BP_A" in l:
            lines["a"] = i
        if "// BP_B" in l:
            lines["b"] = i
    if set(lines) != {"a", "b"}:
        raise ToolError("puppet source lost its BP_A/BP_B markers")
    return exe, lines


def native_check(exe):
    """generator/puppet self-check: the native run reports K passes per thread."""
    env = dict(os.environ, C09_N="3", C09_K="2", C09_K2="1", C09_SPAWN="1", C09_SITES="2", C09_YIELD="7")
    p = subprocess.run([str(exe)], env=env, capture_output=True, text=True, timeout=60)
    if p.returncode != 0 or p.stdout.strip() != "PASS 0=2 1=2 2=2 3=1 4=1 5=1":
        raise ToolError(f"puppet self-check failed: rc={p.returncode} out={p.stdout!r}")


def run_jobs(exe_h, exe_p, lines, jobs, tag, per_job_timeout=60.0, parallel=1):
    """Run harness workers over `jobs` (each worker = one process executing its jobs sequentially).
    A worker that dies or hangs is data: the job it was on is recorded as crashed/hung and the remaining
    jobs are given to a fresh worker.  Returns {id: result-json}."""
    W.mkdir(parents=True, exist_ok=True)
    results = {}

    def worker(chunk, wi):
        todo = list(chunk)
        rnd = 0
        while todo:
            rnd += 1
            jf = W / f"{tag}-jobs-{wi}-{rnd}.json"
            jf.write_text(json.dumps({"puppet": str(exe_p), "src": PUPPET_SRC.name, "lines": lines, "jobs": todo}))
            p = subprocess.Popen([str(exe_h), str(jf)], stdout=subprocess.PIPE, stderr=subprocess.PIPE, text=True,
                                 start_new_session=True)
            done = 0
            budget = sum(j.get("timeout", per_job_timeout) for j in todo) + 20
            try:
                so, se = p.communicate(timeout=budget)
            except subprocess.TimeoutExpired:
                try:
                    os.killpg(p.pid, 9)
                except ProcessLookupError:
                    pass
                so, se = p.communicate()
            last_hung = False
            for line in so.splitlines():
                try:
                    r = json.loads(line)
                except json.JSONDecodeError:
                    continue
                results[r["id"]] = r
                done += 1
                last_hung = bool(r.get("hung"))
            if done < len(todo) and last_hung:
                # the watchdog wrote the trace of the hung job and ended the worker on purpose: nothing is lost
                todo = todo[done:]
            elif done < len(todo):
                bad = todo[done]
                results[bad["id"]] = {"id": bad["id"], "ok": False, "worker_died": True, "rc": p.returncode,
                                      "stderr": se[-1500:], "out": bad["out"]}
                # the debuggee of a dead worker must not linger
                todo = todo[done + 1:]
            else:
                todo = []
            if p.returncode == 2 and done < len(chunk):
                raise ToolError(f"harness tool error: {se[-1500:]}")

    chunks = [jobs[i::parallel] for i in range(parallel)]
    with ThreadPoolExecutor(max_workers=parallel) as ex:
        futs = [ex.submit(worker, c, i) for i, c in enumerate(chunks) if c]
        for f in futs:
            f.result()
    return results


# ------------------------------------------------------------------------------------------------
# normalisation (purely syntactic) and validation by TraceKernel.tla
# ------------------------------------------------------------------------------------------------
def normalise(path):
    """recorded ndjson -> event list for TraceKernel (drops read-only / irrelevant requests, fixes field
    sets).  Returns (events, head) or (None, reason)."""
    rows = vlib.ndjson_read(path)
    if not rows or rows[0].get("ev") != "head":
        return None, "no head"
    head = rows[0]
    tids = {head["main"]}
    bps = []
    out = []
    for e in rows[1:]:
        ev = e.get("ev")
        if ev == "bps":
            bps = e["addrs"]
            continue
        if ev not in KEEP:
            continue
        if ev == "wait":
            if e.get("tid", -1) > 0:
                tids.add(e["tid"])
            if e.get("child"):
                tids.add(e["child"])
            out.append({"ev": "wait", "sel": e["sel"], "tid": e.get("tid", -1), "kind": e.get("kind", "error"),
                        "child": e.get("child") or 0, "n": e["n"]})
        elif ev in ("cont", "step", "interrupt"):
            tids.add(e["tid"])
            out.append({"ev": ev, "tid": e["tid"], "ret": 0 if e.get("ret", 0) == 0 else -1, "errno": e.get("errno", 0), "n": e["n"]})
        elif ev == "patch":
            out.append({"ev": "patch", "addr": e["addr"], "byte": e["byte"], "n": e["n"]})
        elif ev == "setregs":
            if e.get("ret", 0) != 0:
                continue
            tids.add(e["tid"])
            out.append({"ev": "setregs", "tid": e["tid"], "pc": e["pc"], "old": e["old"] if e.get("old") is not None else e["pc"], "n": e["n"]})
        elif ev == "cmd":
            c = {"ev": "cmd", "name": e.get("name", ""), "n": e["n"]}
            if e.get("tasks"):
                c["tasks"] = e["tasks"]
            out.append(c)
        elif ev == "report":
            th = e.get("threads")
            th = th if isinstance(th, list) else []
            out.append({"ev": "report", "kind": e["kind"], "tid": e.get("tid") or 0, "pc": e.get("pc") or 0,
                        "err": str(e.get("err") or "")[:300], "tasks": e.get("tasks") or {},
                        "threads": sorted(t["tid"] for t in th), "bstopped": sorted(t["tid"] for t in th if t["stopped"]),
                        "n": e["n"]})
    for t in head.get("tids", {}).values():
        tids.add(t)
    passes = [[head["tids"][k], v] for k, v in sorted(head.get("pass", {}).items(), key=lambda kv: int(kv[0])) if k in head.get("tids", {})]
    h = {"ev": "head", "id": str(head["job"]), "main": head["main"], "tids": sorted(tids), "bps": bps, "pass": passes,
         "complete": head.get("meta", {}).get("last") == "exit", "n": 0}
    return [h] + out, head


def validate(batches, tag, parallel=2):
    """batches: list of (name, [event lists...]).  One TLC run per batch.  Returns list of
    (name, verdict dict | None, rejected-info | None, TlcResult)."""
    W.mkdir(parents=True, exist_ok=True)

    def one(item):
        name, sessions = item
        tf = W / f"{tag}-{name}.trace.ndjson"
        rows = [e for s in sessions for e in s]
        vlib.ndjson_write(tf, rows, tla=True)
        r = vlib.tlc("TraceKernel", "TraceKernel.cfg", workers=1, dfs=True, env={"TRACE": str(tf)}, timeout=900,
                     heap="3g", name=f"tk-{tag}-{name}")
        verdicts = vlib.printed(r.out, "VERDICT")
        rej = vlib.printed(r.out, "REJECTED")
        if r.error and not rej:
            raise ToolError(f"TraceKernel could not run on {tf}: {r.error}\n{r.out[-2500:]}")
        if rej:
            return name, None, dict(rej[-1], file=str(tf)), r
        if not verdicts:
            raise ToolError(f"TraceKernel printed no verdict for {tf}:\n{r.out[-2500:]}")
        good = [v for v in verdicts if isinstance(v, dict) and v.get("n") == len(rows)]
        if not good:
            raise ToolError(f"TraceKernel consumed a different number of events for {tf}")
        # several consistent reconstructions (pending-interrupt cleared or not): report only what holds in
        # all of them -> take the reconstruction with the fewest verdicts
        best = min(good, key=lambda v: len([x for x in v["viol"] if not x["class"].startswith(NOTE_PREFIX)]))
        return name, best, None, r

    with ThreadPoolExecutor(max_workers=parallel) as ex:
        return list(ex.map(one, batches))


# ------------------------------------------------------------------------------------------------
# TLC on Stalk: exhaustive configurations, coverage, cover-generation of schedule skeletons
# ------------------------------------------------------------------------------------------------
# labels that cannot fire in the C09 configurations: signal paths (C10) and stepi (kept for StalkSig)
SIGNAL_LABELS = {"aps", "apt", "ss3", "ss4", "rsq_sig", "rsr", "e0", "Env"}
STEPI_LABELS = {"si0", "si1", "si2", "stepi"}
CORE_LABELS = {"gs0", "gs1", "gs1b", "gs2", "gsr", "gsl", "gsk", "gsj", "gsw", "gsc", "gsd", "gsw2", "gse", "gsn", "gsx",
               "ap0", "ap0b", "apc", "apw", "apx", "apd", "ap1", "apr", "ap2", "ap3", "ap4", "ap5",
               "ss0", "ss1", "ss2", "rs0", "rs1", "rs2", "rs3", "rs4", "sb0", "sb1", "sb2", "sb3", "sb4",
               "ce0", "ce1", "ce4", "ce5", "d0", "d1", "t0"}
# model thread -> logical puppet thread, per generation configuration
GEN = {
    "Stalk_G2.cfg": dict(job=dict(n=2, k=2, k2=1, sites=2, spawn=0), tmap={2: 0, 3: 1}),
    "Stalk_G3q.cfg": dict(job=dict(n=2, k=1, k2=1, sites=1, spawn=1), tmap={2: 0, 3: 1, 4: 2}),
    "Stalk_G1.cfg": dict(job=dict(n=3, k=2, k2=1, sites=1, spawn=0), tmap={2: 0, 3: 1, 4: 2}),
    "Stalk_G3.cfg": dict(job=dict(n=2, k=1, k2=1, sites=1, spawn=1), tmap={2: 0, 3: 1, 4: 2, 5: 3}),
}


def _stalk(cfg, **kw):
    kw.setdefault("heap", "4g")
    kw.setdefault("timeout", 1700)
    dl = kw.pop("deadlock", True)
    r = vlib.tlc("StalkMC", cfg, deadlock=dl, name="stalk-" + Path(cfg).stem + ("-cov" if kw.get("coverage") else ""), **kw)
    vlib.tlc_expect_ok(r, cfg)
    return r


def run_stalk(tier):
    thorough = tier == "thorough"
    jobs = {
        "Stalk_Q1.cfg": dict(workers=2),
        "Stalk_Q2.cfg": dict(workers=2),
        "Stalk_Q3.cfg": dict(workers=3),
        "Stalk_C3.cfg": dict(workers=1, coverage=True),
        "Stalk_G2.cfg": dict(workers=1, deadlock=False),
        "Stalk_G3q.cfg": dict(workers=1, deadlock=False),
    }
    if thorough:
        jobs.update({
            "Stalk_T1.cfg": dict(workers=4),
            "Stalk_T2.cfg": dict(workers=2, deadlock=False, simulate=3000, depth=1200, seed_arg=vlib.seed()),
            "Stalk_G1.cfg": dict(workers=1, deadlock=False),
            "Stalk_G3.cfg": dict(workers=1, deadlock=False),
        })
    res = {}
    # development only (mutant runs against a scratch worktree): C09_TLC_CACHE=<file> reuses TLC's outputs for an
    # unchanged specification / tier / seed
    cache = os.environ.get("C09_TLC_CACHE")
    key = vlib.stable_hash([tier, vlib.seed(), sorted(jobs), [(f.name, f.read_text()) for f in sorted(SPEC.glob("Stalk*"))
                                                             if not f.name.startswith("StalkSig")]])
    if cache and Path(cache).exists() and json.loads(Path(cache).read_text()).get("key") == key:
        for k, v in json.loads(Path(cache).read_text())["res"].items():
            r = vlib.TlcResult()
            r.out, r.distinct, r.generated, r.depth, r.violated, r.wall = v["out"], v["distinct"], v["generated"], v["depth"], v["violated"], v["wall"]
            r.coverage = {a: tuple(b) for a, b in v["coverage"].items()}
            res[k] = r
        log("[c09] TLC outputs taken from", cache)
    else:
        with ThreadPoolExecutor(max_workers=4 if thorough else 6) as ex:
            futs = {k: ex.submit(_stalk, k, **kw) for k, kw in jobs.items()}
            for k, f in futs.items():
                res[k] = f.result()
        if cache:
            Path(cache).write_text(json.dumps({"key": key, "res": {k: {"out": "\n".join(l for l in r.out.splitlines() if l.startswith('<<"SCHED"')),
                                   "distinct": r.distinct, "generated": r.generated, "depth": r.depth, "violated": r.violated,
                                   "wall": r.wall, "coverage": r.coverage} for k, r in res.items()}}))
    for k, r in res.items():
        if r.violated:
            # a violated invariant of the tracer MODEL is a prediction, not an observation of the code: the
            # binding decides.  On the unchanged specification none is expected: say so loudly.
            raise ToolError(f"{k}: {r.violated} violated in the model (spec/cfg changed? a model counterexample is "
                            f"not a statement about the code; reproduce it through the steered replay)\n{r.out[-3000:]}")
    fired = set()
    for k in ("Stalk_C3.cfg",):
        if k in res:
            cov = res[k].coverage
            if not cov:
                raise ToolError(f"{k}: no coverage statistics parsed")
            fired |= {n for n, (a, b) in cov.items() if b > 0}
    need = CORE_LABELS      # stepi/signal labels cannot fire in continue-only, signal-free configurations
    missing = sorted(need - fired)
    if missing:
        raise ToolError(f"vacuous model run: labels never reached: {missing}")
    return res


def skeletons(res, tier, rng):
    """schedule skeletons printed by the cover generation, mapped to puppet jobs"""
    out = []
    for cfg, g in GEN.items():
        if cfg not in res:
            continue
        sk = [s for s in vlib.printed(res[cfg].out, "SCHED") if isinstance(s, dict)]
        if len(sk) < 20:
            raise ToolError(f"{cfg}: cover generation printed only {len(sk)} skeletons")
        for i, s in enumerate(sk):
            items = []
            for it in s["h"]:
                if it["t"] not in g["tmap"]:
                    continue      # the main thread's exit is not gated
                items.append({"c": it["c"], "k": it["k"], "t": g["tmap"][it["t"]], "sys": it["sys"], "lb": it["lb"], "w": it["w"]})
            out.append({"cfg": cfg, "i": i, "key": s["key"], "job": g["job"], "script": items})
    return out


def pick(sk, budget, rng):
    """every (label, event) pair first, then the refined keys, up to the budget"""
    chosen, seen_pairs = [], set()
    pool = list(sk)
    rng.shuffle(pool)
    # prefer skeletons whose covering event lies inside the group stop / apply / cont_stopped loops
    def interesting(s):
        lb = s["key"][0]
        return 0 if lb.startswith(("gs", "ap")) or lb in ("rs1", "ss1", "sb1", "sb3", "ss0") else 1
    pool.sort(key=interesting)
    for s in pool:
        p = (s["cfg"], s["key"][0], s["key"][1])
        if p not in seen_pairs:
            seen_pairs.add(p)
            chosen.append(s)
    rest = [s for s in pool if s not in chosen]
    chosen = chosen[:budget] + rest[:max(0, budget - len(chosen))]
    return chosen[:budget], len(seen_pairs)


# ------------------------------------------------------------------------------------------------
# sessions
# ------------------------------------------------------------------------------------------------
def free_jobs(tier, rng):
    quick = tier == "quick"
    shapes = [(2, 3, 0, 1), (2, 2, 1, 2), (4, 2, 1, 1), (4, 2, 0, 2), (8, 2, 1, 1), (8, 1, 1, 2)]
    if not quick:
        shapes += [(16, 2, 1, 1), (16, 2, 0, 2), (32, 1, 1, 1), (32, 2, 0, 2), (64, 1, 1, 1), (64, 1, 0, 2), (3, 4, 1, 2)]
    reps = 2 if quick else 6
    jobs = []
    ncpu = os.cpu_count() or 4
    for r in range(reps):
        for (n, k, spawn, sites) in shapes:
            if not quick and n >= 32 and r >= 3:
                continue
            mode = rng.randrange(4)
            d = None
            if mode >= 1:
                d = {"after_wait": [rng.choice([100, 300, 600]), rng.choice([50, 400, 2000])],
                     "before_interrupt": [rng.choice([0, 300, 700]), rng.choice([50, 500])],
                     "before_wait_tid": [rng.choice([0, 300]), rng.choice([50, 300])],
                     "before_resume": [rng.choice([0, 200, 600]), rng.choice([30, 300])],
                     "yield_below_us": 40}
            jobs.append({"mode": "free", "n": n, "k": k, "k2": 1, "sites": sites, "spawn": spawn,
                         "seed": rng.randrange(1, 1 << 30), "yield": rng.randrange(1, 1 << 20) if mode != 3 else 0,
                         "pin": rng.randrange(ncpu) if rng.random() < 0.35 else -1, "delays": d,
                         "timeout": 60 + 3 * n, "cmd_timeout": 30})
    return jobs


def steer_jobs(sk):
    jobs = []
    for s in sk:
        j = dict(s["job"])
        j.update({"mode": "steer", "seed": 1, "script": s["script"], "skeleton": [s["cfg"], s["i"]], "key": s["key"],
                  "timeout": 60, "cmd_timeout": 25})
        jobs.append(j)
    return jobs


def suspect_jobs():
    """dedicated scenarios for suspected defects (DESIGN App. C): a sibling arrives at a user breakpoint while
    the focus thread performs `next`"""
    return [{"mode": "steer", "n": 2, "k": 2, "k2": 1, "sites": 1, "spawn": 0, "seed": 1, "scenario": "next_sibling",
             "cmds": ["next"], "timeout": 90, "cmd_timeout": 30,
             "script": [{"c": 0, "k": 0, "t": 0, "sys": "wait", "lb": "rs2", "w": "trap"},
                        {"c": 1, "k": 6, "t": 1, "sys": "wait", "lb": "rs2", "w": "trap"}]}]


def execute(exe_h, exe_p, lines, jobs, tag, parallel):
    for i, j in enumerate(jobs):
        j["id"] = f"{tag}{i}"
        j["out"] = str(W / f"{tag}{i}.ndjson")
        Path(j["out"]).unlink(missing_ok=True)
    res = run_jobs(exe_h, exe_p, lines, jobs, tag, parallel=parallel)
    # a worker that died without a trace: run the job once more alone before calling it data
    again = [j for j in jobs if res.get(j["id"], {}).get("worker_died")]
    if again:
        log(f"[c09] {len(again)} job(s) lost their worker; re-running them alone")
        res2 = run_jobs(exe_h, exe_p, lines, again, tag + "r", parallel=1)
        for j in again:
            r = res2.get(j["id"])
            if r is not None:
                r["second_attempt"] = True
                res[j["id"]] = r
    return res


def judge(rep, jobs, results, tag, parallel):
    """normalise + validate every recorded trace; turn verdicts into mismatch records.
    Returns (n validated, events, states, notes, samples)."""
    sessions = []
    lost = []
    for j in jobs:
        r = results.get(j["id"])
        if r is None or not Path(j["out"]).exists():
            lost.append((j, r))
            continue
        ev, head = normalise(j["out"])
        if ev is None:
            lost.append((j, r))
            continue
        sessions.append((j, ev, head))
    for j, r in lost:
        # no trace at all, twice: the worker process itself died (abort inside the library, OOM, ...)
        rep.mismatch("session_crashed", "session", expected="a recorded session", actual=(r or {}).get("stderr", "")[-600:],
                     job={k: v for k, v in j.items() if k != "out"}, script=j.get("script"))
    # batches of ~12k events
    batches, cur, cur_n = [], [], 0
    for s in sessions:
        if cur and cur_n + len(s[1]) > 12000:
            batches.append(cur)
            cur, cur_n = [], 0
        cur.append(s)
        cur_n += len(s[1])
    if cur:
        batches.append(cur)
    out = validate([(f"b{i}", [s[1] for s in b]) for i, b in enumerate(batches)], tag, parallel=parallel)
    nval, nev, nstates, notes, samples = 0, 0, 0, {}, []
    by_id = {j["id"]: (j, head) for j, _, head in sessions}
    for (name, verdict, rej, r), b in zip(out, batches):
        if rej is not None:
            # which session?  keep the evidence and stop: the kernel model must be fixed (or the harness)
            keep = vlib.REPLAYS / f"C09-rejected-{tag}-{name}.ndjson"
            vlib.REPLAYS.mkdir(exist_ok=True)
            keep.write_text(Path(rej["file"]).read_text())
            raise ToolError(f"TraceKernel REJECTED a recorded trace (kernel-model error, not a finding): prefix "
                            f"{rej.get('prefix')} of {rej.get('of')}, next event {json.dumps(rej.get('next'))[:400]}; trace kept at {keep}")
        nval += len(b)
        nev += verdict["n"]
        nstates += r.distinct
        per = {}
        for v in verdict["viol"]:
            per.setdefault(v["sid"], []).append(v)
        for sid, vs in per.items():
            j, head = by_id[sid]
            for v in vs:
                if v["class"].startswith("NOTE_"):
                    notes[v["class"]] = notes.get(v["class"], 0) + 1
                    continue
                if v["class"].startswith("MODEL_"):
                    raise ToolError(f"kernel model disagrees with /proc in session {sid} at event {v['k']}: {json.dumps(v)[:600]} "
                                    f"(trace {j['out']})")
                keep = vlib.REPLAYS / f"C09-trace-{vlib.stable_hash([sid, v['k'], v['class'], head.get('main')])[:10]}.ndjson"
                vlib.REPLAYS.mkdir(exist_ok=True)
                keep.write_text(Path(j["out"]).read_text())
                rep.mismatch(v["class"], v["action"], expected=v["expected"], actual=v["actual"], event=v["k"],
                             mode=j["mode"], shape=f"n={j['n']},k={j['k']},spawn={j['spawn']},sites={j['sites']}",
                             scenario=j.get("scenario", "continue_only"),
                             job={k: x for k, x in j.items() if k not in ("out", "id")}, trace=str(keep), script=j.get("script"))
        for st in verdict["stats"][:2]:
            if len(samples) < 6:
                j, head = by_id[st["sid"]]
                samples.append({"session": st["sid"], "mode": j["mode"], "n": j["n"], "reports_per_tid": st["nrep"],
                                "puppet_pass": head.get("pass"), "events": len([1 for s in b if s[0]["id"] == st["sid"] for _ in s[1]])})
    return nval, nev, nstates, notes, samples


# ------------------------------------------------------------------------------------------------
def run(rep, tier, replay):
    W.mkdir(parents=True, exist_ok=True)
    rng = random.Random(vlib.seed())
    thorough = tier == "thorough"
    exe_p, lines = puppet()
    native_check(exe_p)
    if replay:
        return run_replay(rep, tier, replay, exe_p, lines)
    t0 = time.time()
    with ThreadPoolExecutor(max_workers=2) as ex:
        f_tlc = ex.submit(run_stalk, tier)
        f_build = ex.submit(vlib.cargo_build, "c09")
        exe_h = f_build.result()
        # free-running sessions do not need TLC's output: start them while TLC runs
        fj = free_jobs(tier, rng)
        par = 4 if thorough else 3
        log(f"[c09] {len(fj)} free-running sessions")
        fres = execute(exe_h, exe_p, lines, fj, "f", par)
        res = f_tlc.result()
    log(f"[c09] TLC + free runs done after {time.time()-t0:.0f}s")
    sk = skeletons(res, tier, rng)
    chosen, npairs = pick(sk, 400 if thorough else 36, rng)
    sj = steer_jobs(chosen) + suspect_jobs()
    log(f"[c09] {len(sj)} steered sessions from {len(sk)} skeletons ({npairs} (label, event) pairs)")
    sres = execute(exe_h, exe_p, lines, sj, "s", 6 if thorough else 5)
    log(f"[c09] sessions done after {time.time()-t0:.0f}s")
    nval_f, nev_f, nst_f, notes_f, samples_f = judge(rep, fj, fres, "f", 3)
    nval_s, nev_s, nst_s, notes_s, samples_s = judge(rep, sj, sres, "s", 3)
    # binding statistics: how well did the steering follow the model?
    applied = forced = matched = unused = 0
    reached = set()
    for j in sj:
        try:
            rows = vlib.ndjson_read(j["out"])
        except OSError:
            continue
        m = rows[0].get("meta", {})
        applied += m.get("applied", 0)
        forced += m.get("forced", 0)
        matched += m.get("sys_match", 0)
        unused += m.get("unused", 0)
        for e in rows:
            if e.get("ev") == "release" and not e.get("forced"):
                reached.add((e["want"]["lb"], e["at"]))
    drift = applied > 0 and matched < 0.5 * applied
    if drift:
        print(f"MODEL-DRIFT: only {matched} of {applied} steered releases found the tracer before the syscall the model "
              f"predicted (Stalk.tla's label sequence no longer matches tracer.rs); verdicts still come from the recorded traces",
              file=__import__("sys").stderr)
    incomplete = [j["id"] for j, r in [(j, (fres | sres).get(j["id"], {})) for j in fj + sj] if not r.get("ok")]
    total_states = sum(r.distinct for r in res.values())
    total_trans = sum(r.generated for r in res.values())
    if nval_f + nval_s == 0:
        raise ToolError("no trace was validated")
    cov = {
        "states": total_states, "transitions": total_trans,
        "tlc": {k: {"distinct": r.distinct, "generated": r.generated, "depth": r.depth, "wall_s": round(r.wall, 1)} for k, r in res.items()},
        "invariants": INV + ["deadlock (tracer hang)"],
        "traces_validated_against_impl": nval_f + nval_s,
        "free_running_sessions": nval_f, "steered_sessions": nval_s,
        "trace_events_validated": nev_f + nev_s, "tracekernel_states": nst_f + nst_s,
        "max_threads": max((2 * j["n"] if j["spawn"] else j["n"]) + 1 for j in fj),
        "skeletons_generated": len(sk), "label_event_pairs": npairs,
        "steering": {"releases_applied": applied, "forced": forced, "at_predicted_syscall": matched, "unused_items": unused,
                     "distinct_label_call_points": len(reached)},
        "model_bound": not drift,
        "sessions_not_run_to_exit": incomplete[:20],
        "notes": {**notes_f, **{k: notes_s.get(k, 0) + notes_f.get(k, 0) for k in notes_s}},
        "samples": (samples_f[:3] + samples_s[:3]) or [{"note": "no session reached exit"}],
    }
    return rep.finish("model_checking", cov, assumptions=[
        "kernel semantics as in DESIGN App. A (validated against every recorded trace: a trace the kernel model cannot explain is exit 2)",
        "puppet threads loop through one or two breakpoint sites, may create one child and exit (puppets/c09/c09p.rs)",
        "steering is at statement granularity; the tracer's own choices (hash order, waitpid(-1) pick) are observed, not forced",
        "x86-64 Linux, rustc 1.89 puppet, continue-only sessions (next/step are C03's)"])


def run_replay(rep, tier, replay, exe_p, lines):
    rec = json.loads(Path(replay).read_text())
    cls, act = rec.get("class"), rec.get("action")
    n = 0
    # 1. the stored trace is judged again (deterministic)
    tr = rec.get("trace")
    if tr and Path(tr).exists():
        ev, head = normalise(tr)
        if ev is None:
            raise ToolError(f"stored trace {tr} is not readable")
        out = validate([("replay", [ev])], "replay", parallel=1)
        name, verdict, rej, r = out[0]
        if rej is not None:
            raise ToolError(f"TraceKernel rejects the stored trace: {json.dumps(rej)[:600]}")
        n += 1
        for v in verdict["viol"]:
            if v["class"].startswith(NOTE_PREFIX):
                continue
            rep.mismatch(v["class"], v["action"], expected=v["expected"], actual=v["actual"], event=v["k"],
                         mode=rec.get("mode"), shape=rec.get("shape"), job=rec.get("job"), trace=tr, script=rec.get("script"))
    # 2. the session is executed again a few times (schedules are not forced: it may or may not recur)
    job = rec.get("job")
    if job:
        exe_h = vlib.cargo_build("c09")
        jobs = [dict(job) for _ in range(3)]
        res = execute(exe_h, exe_p, lines, jobs, "rp", 1)
        nv, nev, nst, notes, samples = judge(rep, jobs, res, "rp", 1)
        n += nv
    return rep.finish("model_checking", {"states": 0, "transitions": 0, "traces_validated_against_impl": n,
                                         "samples": [{"replayed": replay, "class": cls, "action": act}]},
                      assumptions=["replay of one stored session"])

"""C07 -- data query expressions mean what the documentation says.

Oracle: spec/Dqe.tla.  TLC enumerates expression trees bounded-exhaustively (a state = expression +
set of outcomes the documentation allows) and prints (texts, AST, outcome set) per state.
Binding: harness/src/bin/c07.rs
  (i)  parses every printed text with the real `expression::parser()` and compares with the AST,
  (ii) evaluates every AST with the real `Debugger::read_variable` at the probe line of
       puppets/c07_universe.rs and reports the projected value.
This module only orchestrates and compares real outcome against TLC's outcome set (membership).
"""
import hashlib
import json
import os
import subprocess
import time
from pathlib import Path

import vlib

PUPPET_SRC = vlib.VERIF / "puppets" / "c07_universe.rs"
SCRATCH = vlib.WORK / "c07"

RULE = ("for every TLC-enumerated expression e: parser(Show(e)) == e for the canonical, fully parenthesised "
        "and blank-padded text (a padded text may be rejected, never parsed differently); "
        "read_variable(e) at the probe line, projected to the abstract value shape, must be a member of "
        "Eval(e) computed by TLC from spec/Dqe.tla (no result <=> empty/Err; 'any' only where the "
        "documentation cannot be checked); pointers are compared with the puppet's own address report")


# ------------------------------------------------------------------------------------------------
# puppet
# ------------------------------------------------------------------------------------------------
def build_puppet():
    src = PUPPET_SRC.read_bytes()
    h = hashlib.sha1(src + b"rustc+1.89 --edition 2021 -g").hexdigest()[:12]
    out = vlib.PUPPET_BUILD / f"c07_universe-{h}"
    if not out.exists():
        vlib.PUPPET_BUILD.mkdir(parents=True, exist_ok=True)
        tmp = vlib.PUPPET_BUILD / f"c07_universe-{h}.tmp{os.getpid()}"
        vlib.sh(["rustc", "+1.89", "--edition", "2021", "-g", "--crate-name", "c07_universe",
                 str(PUPPET_SRC), "-o", str(tmp)], timeout=300)
        os.replace(tmp, out)
    line = None
    for i, l in enumerate(PUPPET_SRC.read_text().splitlines(), 1):
        if "// PROBE" in l:
            line = i
    if line is None:
        raise vlib.ToolError("puppet has no PROBE line")
    return out, line


# ------------------------------------------------------------------------------------------------
# TLC
# ------------------------------------------------------------------------------------------------
def enumerate_cases(cfg, workers, timeout, coverage=False, simulate=None, depth=None):
    r = vlib.tlc("Dqe", cfg, workers=workers, timeout=timeout, coverage=coverage, heap="6g",
                 simulate=simulate, depth=depth, seed_arg=(vlib.seed() if simulate else None),
                 name=Path(cfg).stem + ("-sim" if simulate else ""))
    vlib.tlc_expect_ok(r, cfg)
    vlib.log(f"[c07] TLC {cfg}: {r.distinct} states in {r.wall:.1f}s")
    if r.violated:
        # the invariants of Dqe.tla are statements about the specification itself
        raise vlib.ToolError(f"Dqe.tla is inconsistent with itself ({cfg}: {r.violated})\n{r.out[-1500:]}")
    cases = vlib.printed(r.out, "CASE")
    env = vlib.printed(r.out, "ENV")
    if not cases or not env:
        raise vlib.ToolError(f"TLC printed no cases for {cfg}\n{r.out[-1500:]}")
    if coverage:
        vac = vlib.vacuous_actions(r)
        if vac:
            raise vlib.ToolError(f"vacuous TLC actions in {cfg}: {vac}")
    seen, uniq = set(), []
    for c in cases:
        if isinstance(c, dict) and c["texts"]["canon"] not in seen:
            seen.add(c["texts"]["canon"])
            uniq.append(c)
    for i, c in enumerate(uniq):
        c["id"] = i
    return r, uniq, env[0]


# ------------------------------------------------------------------------------------------------
# comparison of abstract values
# ------------------------------------------------------------------------------------------------
class Addrs:
    """Addresses of the places of the universe, from the puppet's self-report, keyed by spec paths."""

    def __init__(self, spec_env, puppet_env):
        self.tab = {}
        self.ptrs = []
        self.later = []
        self.spec = {n: v for n, v in spec_env}
        for name, val in spec_env:
            if name not in puppet_env:
                raise vlib.ToolError(f"puppet does not report {name}")
            self.bind(val, puppet_env[name], (name,))
        for s, p, path in self.later:       # maps keyed by pointers: entries are identified by address
            for i, (ka, va) in enumerate(s["kv"]):
                want = self.resolve(ka["path"], ())
                hit = [(kb, vb) for kb, vb in p["kv"] if kb.get("addr") == want]
                if want is None or len(hit) != 1:
                    self.fail(path, s, p)
                self.bind(va, hit[0][1], path + (f"#{i + 1}",))
        for name in puppet_env:
            if name not in self.spec:
                raise vlib.ToolError(f"puppet reports {name}, Dqe.tla Env does not have it")
        for path, addr in self.ptrs:
            want = self.resolve(path, ())
            if want is not None and want != addr:
                raise vlib.ToolError(f"puppet pointer at {path} = {addr:#x}, model says {want:#x}")

    def fail(self, path, s, p):
        raise vlib.ToolError(f"puppet and Dqe.tla Env disagree at {'/'.join(path)}: spec {json.dumps(s)[:200]} "
                             f"puppet {json.dumps(p)[:200]}")

    def bind(self, s, p, path):
        if s["k"] == "opaque":
            if "@" in p:
                self.tab[path] = p["@"]
            return
        if s["k"] != p.get("k"):
            self.fail(path, s, p)
        if "@" in p:
            self.tab[path] = p["@"]
        k = s["k"]
        if k == "int" and s["i"] != p["i"] or k == "bool" and s["b"] != p["b"] or k == "str" and s["s"] != p["s"] \
                or k == "cenum" and s["v"] != p["v"] or k == "float" and float(s["f"]) != float(p["f"]):
            self.fail(path, s, p)
        if k in ("array", "vec", "vecdeque"):
            if len(s["items"]) != len(p["items"]):
                self.fail(path, s, p)
            for i, (a, b) in enumerate(zip(s["items"], p["items"])):
                self.bind(a, b, path + (str(i),))
        elif k in ("struct", "refcell"):
            if [f[0] for f in s["fields"]] != [f[0] for f in p["fields"]]:
                self.fail(path, s, p)
            for (n, a), (_, b) in zip(s["fields"], p["fields"]):
                self.bind(a, b, path + (n,))
        elif k == "enum":
            if s["variant"] != p["variant"]:
                self.fail(path, s, p)
            self.bind(s["payload"], p["payload"], path)
        elif k == "set":
            if len(s["items"]) != len(p["items"]):
                self.fail(path, s, p)
            rest = list(p["items"])
            for a in s["items"]:
                hit = [b for b in rest if plain_eq(a, b)]
                if not hit:
                    self.fail(path, s, p)
                rest.remove(hit[0])
        elif k == "map":
            if len(s["kv"]) != len(p["kv"]):
                self.fail(path, s, p)
            if any(ka["k"] in ("ptr", "rc") for ka, _ in s["kv"]):
                self.later.append((s, p, path))
                return
            for i, (ka, va) in enumerate(s["kv"]):
                hit = [(kb, vb) for kb, vb in p["kv"] if plain_eq(ka, kb)]
                if len(hit) != 1:
                    self.fail(path, s, p)
                if ka["k"] in ("ptr", "rc"):
                    self.ptrs.append((tuple(ka["path"]), hit[0][0]["addr"]))
                self.bind(va, hit[0][1], path + (f"#{i + 1}",))
        elif k in ("ptr", "rc"):
            self.ptrs.append((tuple(s["path"]), p["addr"]))

    def resolve(self, path, view):
        p = tuple(path)
        if view:
            p = p + (str(view[0]),)
        return self.tab.get(p)


def plain_eq(s, p):
    """structural equality of a spec value and a puppet-reported value (no addresses); pointers equal
    (their targets are checked separately)"""
    if s["k"] != p.get("k"):
        return False
    k = s["k"]
    if k == "int":
        return s["i"] == p["i"]
    if k == "float":
        return float(s["f"]) == float(p["f"])
    if k == "bool":
        return s["b"] == p["b"]
    if k == "str":
        return s["s"] == p["s"]
    if k == "cenum":
        return s["v"] == p["v"]
    if k in ("array", "vec", "vecdeque"):
        return len(s["items"]) == len(p["items"]) and all(plain_eq(a, b) for a, b in zip(s["items"], p["items"]))
    if k == "set":
        rest = list(p["items"])
        for a in s["items"]:
            hit = [b for b in rest if plain_eq(a, b)]
            if not hit:
                return False
            rest.remove(hit[0])
        return not rest
    if k in ("struct", "refcell"):
        return [f[0] for f in s["fields"]] == [f[0] for f in p["fields"]] and \
            all(plain_eq(a[1], b[1]) for a, b in zip(s["fields"], p["fields"]))
    if k == "enum":
        return s["variant"] == p["variant"] and plain_eq(s["payload"], p["payload"])
    if k in ("ptr", "rc"):
        return True  # bound through Addrs.ptrs where it matters
    return False


def veq(exp, act, addrs, stats):
    """does the debugger's projected value `act` equal the specification's value `exp`?"""
    if exp["k"] == "opaque":
        return True
    if not isinstance(act, dict) or exp["k"] != act.get("k"):
        return False
    k = exp["k"]
    if k == "int":
        return exp["i"] == act.get("i")
    if k == "float":
        try:
            return float(exp["f"]) == float(act.get("f"))
        except (TypeError, ValueError):
            return False
    if k == "bool":
        return exp["b"] == act.get("b")
    if k == "str":
        return exp["s"] == act.get("s")
    if k == "cenum":
        return exp["v"] == act.get("v")
    if k in ("array", "vec", "vecdeque"):
        a = act.get("items")
        return isinstance(a, list) and len(a) == len(exp["items"]) and \
            all(veq(x, y, addrs, stats) for x, y in zip(exp["items"], a))
    if k == "set":
        rest = list(act.get("items") or [])
        if len(rest) != len(exp["items"]):
            return False
        for x in exp["items"]:
            hit = [y for y in rest if veq(x, y, addrs, stats)]
            if not hit:
                return False
            rest.remove(hit[0])
        return True
    if k == "map":
        rest = list(act.get("kv") or [])
        if len(rest) != len(exp["kv"]):
            return False
        for kx, vx in exp["kv"]:
            hit = [p for p in rest if veq(kx, p[0], addrs, stats) and veq(vx, p[1], addrs, stats)]
            if not hit:
                return False
            rest.remove(hit[0])
        return True
    if k in ("struct", "refcell"):
        have = {}
        for n, v in act.get("fields") or []:
            have[n] = v
        want = {n: v for n, v in exp["fields"]}
        if not exp.get("open") and set(have) != set(want):
            return False
        return all(n in have and veq(v, have[n], addrs, stats) for n, v in want.items())
    if k == "enum":
        return exp["variant"] == act.get("variant") and veq(exp["payload"], act.get("payload"), addrs, stats)
    if k in ("ptr", "rc"):
        want = addrs.resolve(exp["path"], exp.get("view") or ())
        if want is None:
            stats["ptr_unresolved"] = stats.get("ptr_unresolved", 0) + 1
            return act.get("addr") is not None
        stats["ptr_checked"] = stats.get("ptr_checked", 0) + 1
        return act.get("addr") == want
    return False


def judge_eval(case, res, addrs, stats):
    """-> None if the real outcome is allowed by the specification, else a mismatch class"""
    exp = case["exp"]
    kinds = {o["r"] for o in exp}
    r = res["r"]
    if r == "panic":
        return "panic"
    if r == "crash":
        return "crash"
    if r == "multi":
        return "ambiguous_result"
    if r == "none":
        if "none" in kinds or "any" in kinds:
            return None
        return "missing_result"
    if r == "value":
        if "any" in kinds:
            return None
        if any(o["r"] == "val" and veq(o["v"], res["v"], addrs, stats) for o in exp):
            return None
        return "wrong_value" if "val" in kinds else "value_where_none"
    raise vlib.ToolError(f"driver outcome not understood: {res}")


def top_op(ast):
    return ast["op"]


def ops_of(ast):
    out = []
    while True:
        out.append(ast["op"])
        if "e" not in ast:
            return out
        ast = ast["e"]


# ------------------------------------------------------------------------------------------------
# running the driver
# ------------------------------------------------------------------------------------------------
def run_parse(exe, cases, tag):
    SCRATCH.mkdir(parents=True, exist_ok=True)
    cin, cout = SCRATCH / f"parse-{tag}-{os.getpid()}.in", SCRATCH / f"parse-{tag}-{os.getpid()}.out"
    vlib.ndjson_write(cin, [{"id": c["id"], "ast": c["ast"], "texts": c["texts"]} for c in cases])
    rc, so, se = vlib.sh([str(exe), "parse", str(cin), str(cout)], timeout=900, check=False)
    rows = vlib.ndjson_read(cout) if cout.exists() else []
    if rc != 0 or len(rows) != len(cases):
        raise vlib.ToolError(f"parse driver failed rc={rc} rows={len(rows)}/{len(cases)}\n{se[-1500:]}")
    cin.unlink()
    cout.unlink()
    return {r["id"]: r["res"] for r in rows}


def run_eval(exe, puppet, line, cases, tag, budget):
    """Evaluate all cases in child processes with a watchdog; a driver that dies mid-way is data
    (class crash for the case in flight) and the run resumes after it."""
    SCRATCH.mkdir(parents=True, exist_ok=True)
    cin = SCRATCH / f"eval-{tag}-{os.getpid()}.in"
    vlib.ndjson_write(cin, [{"id": c["id"], "ast": c["ast"]} for c in cases])
    results, env, skip, rounds = {}, None, 0, 0
    t_end = time.time() + budget
    while skip < len(cases):
        rounds += 1
        if rounds > 40:
            raise vlib.ToolError("eval driver keeps dying")
        cout = SCRATCH / f"eval-{tag}-{os.getpid()}-{rounds}.out"
        left = t_end - time.time()
        if left <= 0:
            raise vlib.ToolError("eval leg out of time budget")
        try:
            p = subprocess.run([str(exe), "eval", str(puppet), PUPPET_SRC.name, str(line), str(cin), str(cout),
                                str(skip)], stdout=subprocess.PIPE, stderr=subprocess.PIPE, text=True,
                               timeout=left, start_new_session=True)
            rc, se = p.returncode, p.stderr
        except subprocess.TimeoutExpired:
            rc, se = -9, "watchdog"
        rows = vlib.ndjson_read(cout) if cout.exists() else []
        if cout.exists():
            cout.unlink()
        if rc == 2 or not rows or "env" not in rows[0]:
            raise vlib.ToolError(f"eval driver: rc={rc}\n{se[-2000:]}")
        env = rows[0]["env"]
        begun = None
        for r in rows[1:]:
            if "begin" in r:
                begun = r["begin"]
            elif "id" in r:
                results[r["id"]] = (r["res"], env)
                begun = None
        done_upto = max([i for i, c in enumerate(cases) if c["id"] in results], default=-1)
        if begun is not None:
            results[begun] = ({"r": "crash", "msg": f"driver exit {rc}: {se[-300:]}"}, env)
            done_upto = max(done_upto, [i for i, c in enumerate(cases) if c["id"] == begun][0])
        elif rc != 0 and done_upto + 1 < len(cases):
            raise vlib.ToolError(f"eval driver died between cases rc={rc}\n{se[-1500:]}")
        if done_upto + 1 <= skip:
            raise vlib.ToolError(f"eval driver made no progress rc={rc}\n{se[-1500:]}")
        skip = done_upto + 1
    cin.unlink()
    return results


# ------------------------------------------------------------------------------------------------
# the check
# ------------------------------------------------------------------------------------------------
PAREN_STYLES = ("canon", "full")


def check_parse(rep, exe, cases, tag, stats, samples):
    t0 = time.time()
    res = run_parse(exe, cases, tag)
    vlib.log(f"[c07] parse leg {tag}: {len(cases)} trees x3 texts in {time.time() - t0:.1f}s")
    for c in cases:
        for style, r in res[c["id"]].items():
            stats["parsed"] += 1
            if r["r"] == "same":
                stats["parse_same"] += 1
                stats["nontrivial"].add(("p", c["texts"][style]))
                continue
            if r["r"] == "error" and style == "spaced":
                # blanks are not documented: a rejected text is not a wrong parse
                stats["spaced_rejected"] += 1
                continue
            cls = {"different": "roundtrip_different_ast" if style == "canon" else "variant_different_ast",
                   "error": "roundtrip_parse_error" if style == "canon" else "variant_parse_error",
                   "panic": "parser_panic"}[r["r"]]
            rep.mismatch(cls, "parse:" + top_op(c["ast"]), text=c["texts"][style], style=style,
                         expected=c["ast"], actual=r,
                         script=[{"leg": "parse", "cfg": tag, "text": c["texts"]["canon"], "ast": c["ast"]}])
    if cases and len(samples) < 4:
        c = cases[len(cases) // 2]
        samples.append({"leg": "parse", "text": c["texts"]["canon"], "ast": c["ast"], "result": res[c["id"]]})


def check_eval(rep, exe, puppet, line, cases, spec_env, tag, stats, samples, budget):
    t0 = time.time()
    res = run_eval(exe, puppet, line, cases, tag, budget)
    vlib.log(f"[c07] eval leg {tag}: {len(cases)} expressions in {time.time() - t0:.1f}s")
    addr_cache = {}
    for c in cases:
        r, penv = res[c["id"]]
        key = id(penv)
        if key not in addr_cache:
            addr_cache[key] = Addrs(spec_env, penv)
        addrs = addr_cache[key]
        stats["evaluated"] += 1
        ops = ops_of(c["ast"])
        cls = judge_eval(c, r, addrs, stats)
        kinds = {o["r"] for o in c["exp"]}
        # vacuity is judged on what the specification demanded, independent of the implementation
        if "any" not in kinds:
            if "val" in kinds:
                stats["value_expected"][ops[0]] = stats["value_expected"].get(ops[0], 0) + 1
                identity(c, ops, stats)
                lit = c["ast"].get("lit")
                if lit and c["ast"]["e"]["op"] == "var" and kinds == {"val"}:
                    stats["key_forms"].add(lit["t"])
            else:
                stats["none_expected"][ops[0]] = stats["none_expected"].get(ops[0], 0) + 1
        if cls is None:
            if r["r"] == "value":
                stats["nontrivial"].add(("e", c["texts"]["canon"], vlib.stable_hash(r["v"])))
                if "any" not in kinds:
                    stats["value_agreed"][ops[0]] = stats["value_agreed"].get(ops[0], 0) + 1
            elif "val" not in kinds and "any" not in kinds:
                stats["none_agreed"][ops[0]] = stats["none_agreed"].get(ops[0], 0) + 1
            continue
        rep.mismatch(cls, "eval:" + ops[0], text=c["texts"]["canon"], shape=".".join(reversed(ops)),
                     panic_msg=r.get("msg", ""), expected=c["exp"], actual=r,
                     script=[{"leg": "eval", "cfg": tag, "text": c["texts"]["canon"], "ast": c["ast"]}])
    picks = [c for c in cases if res[c["id"]][0]["r"] == "value" and c["d"] >= 2][:: max(1, len(cases) // 40)]
    for c in picks[:3]:
        samples.append({"leg": "eval", "text": c["texts"]["canon"], "expected": c["exp"],
                        "actual": res[c["id"]][0]})


def identity(c, ops, stats):
    """instances of the identities named in the statement that were checked with a value"""
    a = c["ast"]
    if ops[:2] == ["deref", "addr"]:
        stats["identities"]["*&x = x"] += 1
    if a["op"] == "field" and a.get("name") == "len" and ops[1:2] == ["canonic"]:
        stats["identities"]["(~v).len = |v|"] += 1
    if ops[0] == "deref" and ops[-1] == "ptrcast":
        stats["identities"]["*(T)addr reads T at addr"] += 1
    if ops[0] == "index":
        stats["identities"]["a[i] / a[key]"] += 1
    if ops[0] == "slice":
        stats["identities"]["a[l..r]"] += 1


def new_stats():
    return {"parsed": 0, "parse_same": 0, "spaced_rejected": 0, "evaluated": 0, "nontrivial": set(),
            "value_agreed": {}, "none_agreed": {}, "value_expected": {}, "none_expected": {},
            "key_forms": set(),
            "identities": {"*&x = x": 0, "(~v).len = |v|": 0, "*(T)addr reads T at addr": 0,
                           "a[i] / a[key]": 0, "a[l..r]": 0}}


def vacuity(stats, legs):
    if "eval" in legs:
        for op in ("field", "index", "slice", "deref", "addr", "canonic"):
            if not stats["value_expected"].get(op):
                raise vlib.ToolError(f"vacuous: the specification never demands a value for operator {op}")
            if op != "canonic" and not stats["none_expected"].get(op):     # canonic applies to everything
                raise vlib.ToolError(f"vacuous: the specification never demands 'no result' for operator {op}")
        need = {"int", "float", "str", "bool", "addr", "variant", "arr", "assoc"}
        if "float" not in stats["key_forms"]:
            # a float can only be a key inside a wrapper: {1.5}; covered by the arr form on hm_f
            need.discard("float")
        if not need <= stats["key_forms"]:
            raise vlib.ToolError(f"vacuous: literal key forms never matched: {sorted(need - stats['key_forms'])}")
        for k, n in stats["identities"].items():
            if n == 0:
                raise vlib.ToolError(f"vacuous: identity never instantiated: {k}")
    if "parse" in legs and stats["parse_same"] == 0:
        raise vlib.ToolError("vacuous: nothing parsed")


def run(rep, tier, replay):
    if replay:
        return run_replay(rep, tier, replay)
    t0 = time.time()
    exe = vlib.cargo_build("c07")
    puppet, line = build_puppet()
    stats, samples = new_stats(), []
    states = transitions = 0
    tlc_wall = 0.0
    if tier == "quick":
        parse_cfgs = [("Dqe_parse_lean_d3.cfg", None), ("Dqe_parse_rich_d2.cfg", None)]
        eval_cfgs = [("Dqe_eval_lean_d2.cfg", None)]
        budget = 110
    else:
        parse_cfgs = [("Dqe_parse_rich_d3.cfg", None), ("Dqe_parse_rich_d4.cfg", 4000)]
        eval_cfgs = [("Dqe_eval_d3.cfg", None), ("Dqe_eval_d4.cfg", 3000)]
        budget = 1200
    cov = tier == "thorough"
    per_cfg = {}
    for cfg, sim in parse_cfgs:
        r, cases, _ = enumerate_cases(cfg, 4, 900, coverage=cov and not sim, simulate=sim, depth=(6 if sim else None))
        states, transitions, tlc_wall = states + r.distinct, transitions + r.generated, tlc_wall + r.wall
        per_cfg[cfg] = {"trees": len(cases), "simulated": bool(sim)}
        check_parse(rep, exe, cases, cfg, stats, samples)
    for cfg, sim in eval_cfgs:
        r, cases, env = enumerate_cases(cfg, 4, 1200, coverage=cov and not sim, simulate=sim, depth=(6 if sim else None))
        states, transitions, tlc_wall = states + r.distinct, transitions + r.generated, tlc_wall + r.wall
        per_cfg[cfg] = {"trees": len(cases), "simulated": bool(sim)}
        check_eval(rep, exe, puppet, line, cases, env, cfg, stats, samples, budget)
    vacuity(stats, {"parse", "eval"})
    vlib.ndjson_write(SCRATCH / "last_mismatches.ndjson", rep.records)      # scratch, for people
    by_class = {}
    for rec in rep.records:
        by_class[rec["class"]] = by_class.get(rec["class"], 0) + 1
    vlib.log(f"[c07] parsed={stats['parsed']} evaluated={stats['evaluated']} mismatches={by_class} "
             f"tlc={tlc_wall:.0f}s total={time.time() - t0:.0f}s")
    coverage = {
        "evaluations": stats["parsed"] + stats["evaluated"],
        "distinct_nontrivial": len(stats["nontrivial"]),
        "rule": RULE,
        "samples": samples,
        "texts_parsed": stats["parsed"],
        "texts_parsed_to_same_ast": stats["parse_same"],
        "padded_texts_rejected_by_parser": stats["spaced_rejected"],
        "expressions_evaluated": stats["evaluated"],
        "tlc_states": states, "tlc_transitions": transitions, "tlc_wall_s": round(tlc_wall, 1),
        "per_cfg": per_cfg,
        "values_agreed_by_top_operator": stats["value_agreed"],
        "no_result_agreed_by_top_operator": stats["none_agreed"],
        "values_demanded_by_top_operator": stats["value_expected"],
        "no_result_demanded_by_top_operator": stats["none_expected"],
        "literal_key_forms_matched": sorted(stats["key_forms"]),
        "identity_instances": stats["identities"],
        "pointer_results_checked_against_puppet_addresses": stats.get("ptr_checked", 0),
        "pointer_results_without_ground_truth": stats.get("ptr_unresolved", 0),
        "mismatch_records_by_class": by_class,
        "exhaustive": all(not v["simulated"] for v in per_cfg.values()),
    }
    return rep.finish("exploration", coverage, assumptions=[
        "puppet compiled with rustc 1.89 -g; its self-report (values + addresses) is checked against Dqe.tla Env",
        "depth = number of operators over a variable or pointer cast; alphabets are the constants of Dqe.tla",
        "where the user documentation is silent the allowed set contains 'no result' and the natural value",
    ])


def tla_of(j):
    """a JSON value (as printed by ToJson) back as a TLA+ expression"""
    if isinstance(j, bool):
        return "TRUE" if j else "FALSE"
    if isinstance(j, int):
        return str(j)
    if isinstance(j, str):
        return '"' + j.replace("\\", "\\\\").replace('"', '\\"') + '"'
    if isinstance(j, list):
        return "<<" + ", ".join(tla_of(x) for x in j) + ">>"
    if isinstance(j, dict) and j:
        return "[" + ", ".join(f"{k} |-> {tla_of(v)}" for k, v in j.items()) + "]"
    raise vlib.ToolError(f"cannot render {j!r} as TLA+")


def run_replay(rep, tier, replay):
    """Re-run one stored case: TLC recomputes texts and the outcome set of the stored AST from Dqe.tla
    (module DqeReplay generated in work/), the driver re-executes it, same comparator."""
    rec = json.loads(Path(replay).read_text())
    step = rec["script"][0]
    exe = vlib.cargo_build("c07")
    wd = SCRATCH / f"replay-{os.getpid()}"
    wd.mkdir(parents=True, exist_ok=True)
    mode = "eval" if step["leg"] == "eval" else "parse"
    (wd / "DqeReplay.tla").write_text(
        "---- MODULE DqeReplay ----\nEXTENDS Dqe\nX == " + tla_of(step["ast"]) + "\n"
        'ASSUME PrintT(<<"RCASE", ToJson([d |-> 0, ast |-> X, exp |-> IF Mode = "eval" THEN Eval(X) ELSE {},\n'
        '   texts |-> [canon |-> ShowS(X, "canon"), full |-> ShowS(X, "full"), spaced |-> ShowS(X, "spaced")]])>>)\n'
        "====\n")
    (wd / "DqeReplay.cfg").write_text(
        f'SPECIFICATION Spec\nCONSTANTS\n  Mode = "{mode}"\n  MaxDepth = 0\n  Rich = TRUE\n')
    r = vlib.tlc("DqeReplay", "DqeReplay.cfg", workers=1, timeout=300, cwd=wd, heap="2g",
                 jvm=[f"-DTLA-Library={vlib.SPEC}"], name=f"c07replay")
    vlib.tlc_expect_ok(r, "DqeReplay")
    hit = [c for c in vlib.printed(r.out, "RCASE") if isinstance(c, dict)][:1]
    env = vlib.printed(r.out, "ENV")
    if not hit or not env:
        raise vlib.ToolError(f"replay: TLC did not evaluate the stored expression\n{r.out[-1500:]}")
    hit[0]["id"] = 0
    for f in wd.iterdir():
        f.unlink()
    wd.rmdir()
    stats, samples = new_stats(), []
    if step["leg"] == "parse":
        check_parse(rep, exe, hit, step["cfg"], stats, samples)
    else:
        puppet, line = build_puppet()
        check_eval(rep, exe, puppet, line, hit, env[0], step["cfg"], stats, samples, 120)
    return rep.finish("exploration", {"evaluations": stats["parsed"] + stats["evaluated"],
                                      "distinct_nontrivial": len(stats["nontrivial"]), "rule": RULE,
                                      "samples": samples or [{"replayed": step}], "replay_of": str(replay)})

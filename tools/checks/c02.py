"""C02 - debugging never changes what the program computes or leaves patches behind."""
from checks import c03


def run(rep, tier, replay):
    return c03.run_family(rep, tier, replay, "C02", mix="all", probes=["text"], by_kinds=True, run_out=True,
                          quick=dict(maxcmd=14, maxbps=3, ncands=4, nhist=8, maxbk=5, signals=True, extras=True),
                          thorough=dict(maxcmd=20, maxbps=4, ncands=6, nhist=60, maxbk=8, signals=True, extras=True))

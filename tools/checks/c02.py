"""C02 - debugging never changes what the program computes or leaves patches behind."""
import json
import subprocess

import vlib
import sesslib
from checks import c03


def mt_leg(rep, tier):
    """Multi-threaded leg (no recorded execution): breakpoints created while a worker thread is in focus,
    removed after that thread has exited; text must equal the file at every prompt (spec/TracePatch.tla),
    output and exit status must equal the native run's."""
    src = vlib.VERIF / "puppets" / "mt" / "mt7.rs"
    exe = sesslib.build_puppet(src)
    lines = src.read_text().splitlines()
    work_line = next(n + 1 for n, l in enumerate(lines) if "COUNT.fetch_add" in l)
    print_line = next(n + 1 for n, l in enumerate(lines) if l.strip().startswith("println!(\"COUNT="))
    entry = sesslib.nm_symbols(exe).get("_start", (0, 0))[0]
    bl = lambda line: {"cmd": "break_line", "file": "mt7.rs", "line": line}
    rl = lambda line: {"cmd": "remove_line", "file": "mt7.rs", "line": line}
    shapes = [
        # the second breakpoint is created while a worker is in focus and removed after all workers are gone
        [bl(work_line), {"cmd": "start"}, bl(print_line), rl(work_line), {"cmd": "continue"}, rl(print_line), {"cmd": "run_to_exit"}],
        [bl(work_line), bl(print_line), {"cmd": "start"}, rl(work_line), {"cmd": "continue"}, rl(print_line), {"cmd": "run_to_exit"}],
        [{"cmd": "break_fn", "name": "work"}, {"cmd": "start"}, {"cmd": "continue"}, bl(print_line),
         {"cmd": "remove_fn", "name": "work"}, {"cmd": "continue"}, {"cmd": "next"}, rl(print_line), {"cmd": "run_to_exit"}],
        [bl(work_line), {"cmd": "start"}, {"cmd": "stepi"}, bl(print_line), {"cmd": "continue"}, rl(work_line),
         {"cmd": "continue"}, rl(print_line), {"cmd": "run_to_exit"}],
    ]
    n = 0
    d = vlib.WORK / "c02mt"
    d.mkdir(parents=True, exist_ok=True)
    (d / "TracePatch.cfg").write_text("SPECIFICATION Spec\nINVARIANT Done\nCONSTANT Entry = {%d}\n" % entry)
    for nt in ([2, 4] if tier == "quick" else [1, 2, 4, 8, 16]):
        nat = subprocess.run([str(exe), str(nt)], stdout=subprocess.PIPE, text=True, timeout=60)
        for k, cmds in enumerate(shapes):
            scr = {"tick": 0, "src": "mt7.rs", "probes": ["text", "tasks"], "cmds": cmds, "args": [str(nt)]}
            rc, err, obs = sesslib.run_session(exe, scr, f"C02-mt-{nt}-{k}")
            n += 1
            end = [o for o in obs if o.get("ev") == "end"]
            if not end:
                rep.mismatch("session_died", "session", actual=err[-300:], script=scr, puppet="mt7", threads=nt)
                continue
            panics = [o["res"] for o in obs if o.get("ev") == "obs" and o["res"].get("panic")]
            for pm in panics:
                rep.mismatch("panic", "session", actual=str(pm)[:300], script=scr, puppet="mt7", threads=nt)
            evs = []
            for o in obs:
                if o.get("ev") != "obs":
                    continue
                c, res, after = o["cmd"]["cmd"], o["res"], o.get("after") or {}
                kinds = [h["hook"] for h in o.get("hooks", [])]
                ret = res.get("ret") if isinstance(res.get("ret"), (dict, list)) else None
                e = {"cmd": c, "ok": bool(res.get("ok")), "err": str(res.get("err") or "")[:200], "addrs": [],
                     "patched": sorted(after["patched"]) if after.get("patched") is not None else [-1], "said": "none", "k": o["k"]}
                if c.startswith("break_"):
                    e["cmd"] = "break"
                    e["addrs"] = sorted({v["link"] for v in (ret or [])}) if e["ok"] else []
                elif c.startswith("remove_"):
                    e["cmd"] = "remove"
                    e["addrs"] = sorted({v["link"] for v in (ret or [])}) if isinstance(ret, list) else []
                elif c in ("start", "continue", "stepi", "step", "next", "finish"):
                    e["said"] = "exit" if ("exit" in kinds or (isinstance(ret, dict) and ret.get("kind") == "exit")) else "stop"
                evs.append(e)
            tf = d / f"t-{nt}-{k}.ndjson"
            vlib.ndjson_write(tf, evs, tla=True)
            r = vlib.tlc("TracePatch", str(d / "TracePatch.cfg"), workers=1, env={"TRACE": str(tf)}, timeout=120, heap="2g",
                         name=f"c02mt-{nt}-{k}")
            v = vlib.printed(r.out, "VERDICT")
            if r.error or not v:
                raise vlib.ToolError(f"TracePatch could not judge: {r.error}\n{r.out[-1500:]}")
            for x in v[-1]["viol"]:
                rep.mismatch(x["class"], x["action"], expected=x["expected"], actual=x["actual"], at_event=evs[x["k"] - 1]["k"],
                             script=scr, puppet="mt7", threads=nt)
            # the command that reported the program's exit (with one worker thread an earlier `continue` of
            # the script already runs to the end; the commands after it are refused, which is as it should be)
            exits = [o["res"] for o in obs if o.get("ev") == "obs" and o["res"].get("ok")
                     and isinstance(o["res"].get("ret"), dict) and o["res"]["ret"].get("kind") == "exit"]
            last = exits[0] if exits else [o for o in obs if o.get("ev") == "obs"][-1]["res"]
            if exits:
                if end[-1]["stdout"] != nat.stdout:
                    rep.mismatch("output_differs", "session", expected=nat.stdout, actual=end[-1]["stdout"], script=scr, puppet="mt7", threads=nt)
                if last["ret"].get("code") != nat.returncode:
                    rep.mismatch("exit_status_differs", "session", expected=nat.returncode, actual=last["ret"].get("code"), script=scr, puppet="mt7", threads=nt)
            else:
                rep.mismatch("run_to_exit_failed", "session", actual=str(last)[:300], script=scr, puppet="mt7", threads=nt)
    return n


def run(rep, tier, replay):
    extra = {}
    if not replay:
        extra["mt_sessions"] = mt_leg(rep, tier)
    return c03.run_family(rep, tier, replay, "C02", mix="all", probes=["text"], by_kinds=True, run_out=True, extra_cov=extra,
                          quick=dict(maxcmd=14, maxbps=3, ncands=4, nhist=8, maxbk=5, signals=True, extras=True, also_adjacent=2),
                          thorough=dict(maxcmd=20, maxbps=4, ncands=6, nhist=40, maxbk=8, signals=True, extras=True, also_adjacent=6, nopie=True))

"""C05 - the backtrace is the real call stack."""
from checks import c03


def run(rep, tier, replay):
    return c03.run_family(rep, tier, replay, "C05", mix="steps", probes=["bt"],
                          quick=dict(maxcmd=14, maxbps=2, ncands=4, nhist=8, mixed=True, frames=True),
                          thorough=dict(maxcmd=20, maxbps=3, ncands=6, nhist=40, mixed=True, frames=True, nopie=True))

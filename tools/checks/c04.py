"""C04 - address <-> source answers agree with the binary's DWARF, independently decoded.

Legs (design/C04.md):
  E  spec/LineTableSmall.tla   TLC enumerates ALL small line tables and compares the transcribed lookup
                               algorithms with the declarative operators (design-level corner cases)
  O  spec/LineTableEval.tla    for every puppet binary of the tier's build matrix TLC evaluates the declarative
                               operators over the independently decoded table (tools/c04_oracle.py) and emits
                               the expected answers; harness bin c04 asks the real debugger the same questions
  S  synthesised ELF objects   the corner-case tables of leg E as real DWARF (tools/c04_synth.py), same pipeline as O
Python parses, orchestrates and compares sets; every expected answer is computed by TLC.
"""
import hashlib
import json
import os
import re
import subprocess
import time
from concurrent.futures import ThreadPoolExecutor
from pathlib import Path

import vlib
import c04_oracle as oracle

PUPPETS = ["c04_straight", "c04_control", "c04_generic", "c04_many", "c04_twocrate"]
# binary crate -> library crate (rlib).  The QUERIED source file of such a puppet is the library's: its code is
# spread over two compilation units (non-generic functions in the rlib's unit, generics in the binary's unit).
PUPPET_LIBS = {"c04_twocrate": "c04_shapes"}
SRC = vlib.VERIF / "puppets" / "c04"
WORK = vlib.WORK / "c04"


# ---------------------------------------------------------------------------------------------
# build matrix
# ---------------------------------------------------------------------------------------------
def matrix(tier):
    if tier == "quick":
        return [{"tc": "1.89", "opt": 0, "dwarf": 0, "pie": True}]
    cfgs = []
    for tc in ("1.89", "stable", "nightly"):
        for opt in (0, 1):
            for dwarf in (0, 5):
                for pie in (True, False):
                    cfgs.append({"tc": tc, "opt": opt, "dwarf": dwarf, "pie": pie})
    return cfgs


def source_of(puppet):
    return SRC / f"{PUPPET_LIBS.get(puppet, puppet)}.rs"


def roots_of(puppet):
    return [SRC / f"{puppet}.rs"] + ([SRC / f"{PUPPET_LIBS[puppet]}.rs"] if puppet in PUPPET_LIBS else [])


def cfg_key(c):
    return f"{c['tc']}-O{c['opt']}-{'dw5' if c['dwarf'] else 'dwdef'}-{'pie' if c['pie'] else 'nopie'}"


_rustc_v = {}


def build(puppet, c):
    """rustc build cached under puppets/build/ by hash of (source, flags, rustc -vV)."""
    src = SRC / f"{puppet}.rs"
    if c["tc"] not in _rustc_v:
        _rustc_v[c["tc"]] = vlib.sh(["rustc", f"+{c['tc']}", "-vV"], timeout=60)[1]
    flags = ["--edition", "2021", "-g", "-C", f"opt-level={c['opt']}"]
    if c["dwarf"]:
        flags += ["-C", f"dwarf-version={c['dwarf']}"]
    if not c["pie"]:
        flags += ["-C", "relocation-model=static", "-C", "link-arg=-no-pie"]
    lib = PUPPET_LIBS.get(puppet)
    libsrc = (SRC / f"{lib}.rs").read_text() if lib else ""
    h = hashlib.sha1((src.read_text() + libsrc + " ".join(flags) + _rustc_v[c["tc"]]).encode()).hexdigest()[:16]
    outdir = vlib.PUPPET_BUILD / f"c04-{h}"
    exe = outdir / puppet
    if not exe.exists():
        outdir.mkdir(parents=True, exist_ok=True)
        # cwd = source dir and a relative source name: DW_AT_comp_dir / DW_AT_name are then stable
        ext = []
        if lib:
            vlib.sh(["rustc", f"+{c['tc']}"] + flags + ["--crate-type", "rlib", "--crate-name", lib,
                                                       "--out-dir", str(outdir), f"{lib}.rs"], cwd=SRC, timeout=300)
            ext = ["--extern", f"{lib}={outdir}/lib{lib}.rlib"]
        vlib.sh(["rustc", f"+{c['tc']}"] + flags + ext + ["-o", str(exe) + ".tmp", f"{puppet}.rs"], cwd=SRC, timeout=300)
        os.replace(str(exe) + ".tmp", exe)
        native = subprocess.run([str(exe)], stdout=subprocess.PIPE, stderr=subprocess.PIPE, timeout=30)
        if native.returncode != 0:
            raise vlib.ToolError(f"puppet {puppet} [{cfg_key(c)}] does not run natively: rc={native.returncode}")
    return exe


# ---------------------------------------------------------------------------------------------
# comparison
# ---------------------------------------------------------------------------------------------
def same_file(expected_path, actual_path):
    """Path equality up to the remapping of /rustc/<hash>/ to the local rust-src (Environment)."""
    e, a = os.path.normpath(expected_path), os.path.normpath(actual_path)
    if e == a:
        return True
    m = re.match(r"^/rustc/[0-9a-f]+/(.*)$", e)
    if m:
        return a.endswith("/" + m.group(1))
    return False


class Case:
    """One binary: decoded table, TLC's expected answers, the debugger's answers."""

    def __init__(self, rep, program, config, binary, source, dec, expected, actual, stats):
        self.rep, self.program, self.config = rep, program, config
        self.binary, self.source, self.dec = str(binary), str(source), dec
        self.expected, self.actual, self.stats = expected, actual, stats
        self.files = dec["files"]
        self.hashes = set()

    def mm(self, cls, action, inp, expected, actual, query):
        self.stats["mismatches"] = self.stats.get("mismatches", 0) + 1
        self.rep.mismatch(cls, action, program=self.program, config=self.config, input=inp,
                          expected=expected, actual=actual,
                          script={"program": self.program, "config": self.config, "synth": self.dec.get("synth"),
                                  "query": query})

    def note(self, key, n=1):
        self.stats[key] = self.stats.get(key, 0) + n

    def func_of_addr(self, a):
        for i, f in enumerate(self.dec["funcs"]):
            if any(lo <= a < hi for lo, hi in f["ranges"]):
                return i + 1          # TLA+ index
        return None

    # -- pc -> function / place ----------------------------------------------------------------
    def check_place(self, cls_prefix, action, pc, exp, place, query):
        P = [(self.files[f], l) for f, l in exp["place"]]
        C = [(self.files[f], l) for f, l in exp["cand"]]
        if place is None:
            if P:
                self.mm(cls_prefix + "_place_missing", action, pc, P, None, query)
            return
        hit = lambda S: any(same_file(f, place["file"]) and l == place["line"] for f, l in S)
        if not C:
            self.mm(cls_prefix + "_place_for_uncovered_pc", action, pc, [], place, query)
        elif not hit(C):
            SH = [(self.files[f], l) for f, l in exp.get("shadow", [])]
            # the line of an end_sequence row that sits between the covering row and pc (known defect
            # class) is told apart from any other wrong row
            self.mm(cls_prefix + ("_place_from_end_sequence_row" if hit(SH) else "_place_wrong"),
                    action, pc, P, place, query)
        elif not hit(P):
            self.note("pc_place_zero_length_row_shown")     # weaker reading accepts, recorded

    def check_pcs(self, only=None):
        exp = {a["pc"]: a for a in self.expected if a["q"] == "pc"}
        act = {a["pc"]: a for a in self.actual if a["q"] == "pc"}
        for pc, e in exp.items():
            if only is not None and only != pc:
                continue
            query = {"q": "pc", "pc": pc}
            a = act.get(pc)
            action = "pc:resolve_function_at_pc"
            if a is None:
                raise vlib.ToolError(f"harness gave no answer for pc {pc:#x} ({self.program} {self.config})")
            self.note("pc_queries")
            if "panic" in a or "err" in a:
                self.mm("pc_query_failed", action, pc, e, a.get("panic") or a.get("err"), query)
                continue
            names = [self.dec["funcs"][f - 1]["name"] for f in e["func"]]
            res = a["res"]
            if res is None:
                if names:
                    self.mm("pc_function_missing", action, pc, names, None, query)
                continue
            if not names:
                self.mm("pc_function_for_uncovered_pc", action, pc, [], res["name"], query)
            elif not any(res["name"] == n or res["name"].endswith("::" + n) for n in names):
                self.mm("pc_function_wrong", action, pc, names, res["name"], query)
            self.check_place("pc", action, pc, e, res["place"], query)
        # place attached to an address breakpoint
        for a in self.actual:
            if a["q"] != "addr" or (only is not None and only != a["pc"]):
                continue
            e = exp.get(a["pc"])
            if e is None:
                continue
            self.note("addr_bp_queries")
            query = {"q": "addr", "pc": a["pc"]}
            action = "addr:set_breakpoint_at_addr"
            if "panic" in a or "err" in a.get("res", {}):
                self.mm("addr_bp_failed", action, a["pc"], e, a.get("panic") or a["res"].get("err"), query)
                continue
            v = a["res"]["ok"]
            if v["addr"] != a["pc"]:
                self.mm("addr_bp_moved", action, a["pc"], a["pc"], v["addr"], query)
            self.check_place("addr_bp", action, a["pc"], e, v["place"], query)
        # what is reported on a real stop
        for a in self.actual:
            if a["q"] != "stop" or only is not None:
                continue
            for h in a.get("hooks", []):
                if h.get("hook") != "breakpoint":
                    continue
                pc = h["pc"] - a.get("bias", 0)
                e = exp.get(pc)
                if e is None:
                    self.note("stops_outside_user_functions")
                    continue
                self.note("stop_reports")
                query = {"q": "stop", "pc": pc}
                pl = h.get("place")
                self.check_place("stop", "stop:on_breakpoint", pc, e, pl, query)
                names = [self.dec["funcs"][f - 1]["name"] for f in e["func"]]
                fn = (h.get("func") or {}).get("name")
                if names and fn not in names:
                    self.mm("stop_function_wrong", "stop:on_breakpoint", pc, names, fn, query)

    # -- file:line -> breakpoints --------------------------------------------------------------
    def check_lines(self, only=None):
        exp = {a["line"]: a for a in self.expected if a["q"] == "line"}
        for a in self.actual:
            if a["q"] != "line" or (only is not None and only != a["line"]):
                continue
            e = exp.get(a["line"])
            if e is None:
                continue
            action = f"line:set_breakpoint_at_line/{a['phase']}"
            query = {"q": "line", "line": a["line"], "phase": a["phase"]}
            self.note("line_queries")
            kind, tline = e["target"]
            if kind == "unspec":
                self.note("line_unspecified")
                continue
            if "panic" in a:
                self.mm("line_query_panicked", action, a["line"], e["addrs"], a["panic"], query)
                continue
            res = a["res"]
            if "err" in res:
                if "no suitable place" not in res["err"]:
                    self.mm("line_query_failed", action, a["line"], e["addrs"], res["err"], query)
                    continue
                views = []
            else:
                views = res["ok"]
            A = sorted({v["addr"] for v in views})
            allowed = set(e["addrs"])
            per_func = {f: set(x) for f, x in e["funcs"]}
            expd = {"target": e["target"], "allowed": sorted(allowed),
                    "functions": {self.dec["funcs"][f - 1]["name"] + f"@{min(x):#x}": sorted(x) for f, x in per_func.items()}}
            if allowed:
                self.note("line_with_code" if kind == "line" else "line_fallback_next")
            if len(per_func) > 1:
                self.note("line_in_several_functions")
            extra = [x for x in A if x not in allowed]
            if extra:
                self.mm("line_bp_wrong_address", action, a["line"], expd, A, query)
                continue
            missed = [f for f, x in per_func.items() if not (x & set(A))]
            if allowed and not A:
                self.mm("line_no_breakpoint", action, a["line"], expd, A, query)
            elif missed:
                # classification from facts of the table (not an expectation): does the missed function have
                # a statement row of the line with the same (column, prologue_end, epilogue_begin) as the
                # lowest-address row the debugger chose?  If not, the miss is the known "only rows equal to
                # the first one are collected" defect; otherwise it is something else.
                shape = lambda r: (r["col"], r["pe"], r["eb"])
                rows = [r for r in self.dec["rows"] if not r["es"] and r["stmt"] and r["line"] == tline
                        and self.files[r["file"]] == self.source]
                first = [shape(r) for r in rows if r["addr"] == A[0]]
                differs = all(not any(shape(r) in first for r in rows if r["addr"] in per_func[f]) for f in missed)
                self.mm("line_instantiation_missed_row_shape_differs" if differs else "line_instantiation_missed",
                        action, a["line"], expd,
                        {"addrs": A, "missed": [self.dec["funcs"][f - 1]["name"] for f in missed]}, query)
            for v in views:
                p = v.get("place")
                if p and (p["addr"] != v["addr"] or (v["addr"] in allowed and p["line"] != tline)):
                    self.mm("line_bp_place_inconsistent", action, a["line"], {"addr": v["addr"], "line": tline}, p, query)
            if a.get("removed") not in (None, len(views)):
                self.note("line_remove_count_differs")

    # -- function -> breakpoint ----------------------------------------------------------------
    def check_fns(self, only=None):
        exp = {a["name"]: a for a in self.expected if a["q"] == "fn"}
        for a in self.actual:
            if a["q"] != "fn" or (only is not None and only != a["name"]):
                continue
            e = exp.get(a["name"])
            if e is None:
                continue
            action = f"fn:set_breakpoint_at_fn/{a['phase']}"
            query = {"q": "fn", "name": a["name"], "phase": a["phase"]}
            self.note("fn_queries")
            if "panic" in a:
                self.mm("fn_query_panicked", action, a["name"], e["funcs"], a["panic"], query)
                continue
            res = a["res"]
            if "err" in res:
                if "no suitable place" not in res["err"]:
                    self.mm("fn_query_failed", action, a["name"], e["funcs"], res["err"], query)
                    continue
                A = []
            else:
                A = sorted({v["addr"] for v in res["ok"]})
            want = {x["f"]: x for x in e["funcs"]}
            all_allowed = set()
            for x in want.values():
                all_allowed |= set(x["allowed"])
            # addresses the debugger chose that are no correct answer for any function of that name
            stray = [y for y in A if y not in all_allowed]
            for f, x in want.items():
                fn = self.dec["funcs"][f - 1]
                self.note("fn_with_prologue_end" if x["haspe"] else "fn_without_prologue_end")
                inside = [y for y in A if any(lo <= y < hi for lo, hi in fn["ranges"])]
                ok = [y for y in inside if y in set(x["allowed"])]
                expd = {"function": fn["name"], "ranges": fn["ranges"], "has_prologue_end": x["haspe"],
                        "allowed": x["allowed"] if x["haspe"] else f"{len(x['allowed'])} instruction addresses"}
                if ok:
                    continue
                if inside:
                    self.mm("fn_bp_not_at_prologue_end" if x["haspe"] else "fn_bp_not_on_instruction",
                            action, a["name"], expd, A, query)
                elif stray:
                    # a breakpoint was created for the name but lies in no function of that name
                    self.mm("fn_bp_outside_function_despite_prologue_end" if x["haspe"]
                            else "fn_bp_outside_function_no_prologue_end", action, a["name"], expd, A, query)
                else:
                    # the name did not select this function at all (every address returned is a correct answer
                    # for a sibling): which functions a name denotes is C17's subject, C04 judges the address
                    # chosen for a selected function
                    self.note("fn_not_selected_by_name_c17")
            for y in A:
                g = self.func_of_addr(y)
                if g is None:
                    self.note("fn_bp_outside_decoded_units")
                elif g not in want and self.dec["funcs"][g - 1]["q"] != a["name"]:
                    # an address inside a decoded function that does not carry the queried name;
                    # reported once per expected function above if that one was left without a breakpoint
                    self.note("fn_bp_in_differently_named_function")

    # -- breakpoint_places_for_file_range ----------------------------------------------------------
    def check_range(self, only=None):
        exp = [a for a in self.expected if a["q"] == "range"]
        act = [a for a in self.actual if a["q"] == "range"]
        if not exp or not act or only is not None:
            return
        e, a = exp[0], act[0]
        action = "range:breakpoint_places_for_file_range"
        query = {"q": "range"}
        if "panic" in a or "err" in a.get("res", {}):
            self.mm("range_query_failed", action, "all", len(e["places"]), a.get("panic") or a["res"]["err"], query)
            return
        self.note("range_queries")
        E = {tuple(x) for x in e["places"]}
        ES = {tuple(x) for x in e["endseq"]}
        S = {(p["addr"], p["line"], p["col"]) for p in a["res"]["ok"] if same_file(self.source, p["file"])}
        self.note("range_places_compared", len(E))
        es_hits = sorted((S - E) & ES)
        other = sorted((S - E) - ES)
        missing = sorted(E - S)
        if es_hits:
            self.mm("range_place_is_end_sequence_row", action, "all", "no place for an end_sequence row",
                    [{"addr": x[0], "line": x[1]} for x in es_hits][:20], query)
        if other:
            self.mm("range_place_not_a_statement_row", action, "all", None,
                    [{"addr": x[0], "line": x[1], "col": x[2]} for x in other][:20], query)
        if missing:
            self.mm("range_place_missing", action, "all",
                    [{"addr": x[0], "line": x[1], "col": x[2]} for x in missing][:20], None, query)

    def check_all(self, only=None):
        oq = only or {}
        kind = oq.get("q")
        if kind in (None, "pc", "addr", "stop"):
            self.check_pcs(oq.get("pc") if kind in ("pc", "addr") else None)
        if kind in (None, "line"):
            self.check_lines(oq.get("line"))
        if kind in (None, "fn"):
            self.check_fns(oq.get("name"))
        if kind in (None, "range"):
            self.check_range(None)


# ---------------------------------------------------------------------------------------------
# one binary through oracle + harness
# ---------------------------------------------------------------------------------------------
def ask_debugger(exe_harness, binary, dec, tag, run=True, timeout=240):
    WORK.mkdir(parents=True, exist_ok=True)
    qf, of = WORK / f"q-{tag}.json", WORK / f"a-{tag}.ndjson"
    pcs = dec["pcs"]
    step = max(1, len(pcs) // 60)
    q = {"binary": str(binary), "file": os.path.basename(dec["source"]), "pcs": pcs,
         "lines": [l for _, l in dec["line_qs"]], "fns": dec["fn_qs"], "addr_bps": pcs[::step],
         "range": [1, dec["nlines"] + 1], "run": run}
    qf.write_text(json.dumps(q))
    if of.exists():
        of.unlink()
    try:
        p = subprocess.run([str(exe_harness), str(qf), str(of)], stdout=subprocess.PIPE, stderr=subprocess.PIPE,
                           text=True, timeout=timeout, start_new_session=True)
        rc, err = p.returncode, p.stderr
    except subprocess.TimeoutExpired:
        rc, err = "timeout", ""
    ans = vlib.ndjson_read(of) if of.exists() else []
    return rc, err, ans


def oracle_for(binary, source, tag, roots=None):
    dec = oracle.decode(str(binary), str(source), crate_roots=roots)
    if not dec["rows"] or not dec["pcs"]:
        raise vlib.ToolError(f"vacuous decode of {binary}: {len(dec['rows'])} rows, {len(dec['pcs'])} pcs")
    expected, r = oracle.evaluate(dec, WORK / f"eval-{tag}", workers=1)
    return dec, expected, r


def run_binary(rep, exe_harness, program, config, binary, source, dec, expected, totals, only=None, synth=None):
    tag = f"{program}-{config}"
    if synth:
        dec["synth"] = synth
    rc, err, actual = ask_debugger(exe_harness, binary, dec, tag, run=True)
    stats = totals.setdefault(tag, {})
    started = [a for a in actual if a["q"] == "start"]
    done = any(a["q"] == "done" for a in actual)
    if rc == 2:
        raise vlib.ToolError(f"harness tool error on {tag}: {err[-800:]}")
    if not started or "reason" not in started[0]:
        why = (started[0].get("err") or started[0].get("panic")) if started else f"rc={rc} {err[-300:]}"
        if not config.endswith("-pie") and not synth:
            # a non-PIE executable that cannot be started under the debugger is C18's subject
            stats["skipped"] = f"debuggee did not start ({str(why)[:160]}): non-PIE start-up is C18's subject"
            vlib.log(f"[C04] skip {tag}: {stats['skipped']}")
            # the pre-start answers (uninitialised breakpoints: global addresses) are still compared
        else:
            rep.mismatch("session_did_not_start", "start", program=program, config=config, input=None,
                         expected="stop at main", actual=str(why)[:400],
                         script={"program": program, "config": config, "synth": synth, "query": {"q": "start"}})
    elif not done:
        rep.mismatch("session_aborted", "session", program=program, config=config, input=None,
                     expected="all queries answered", actual=f"rc={rc} {err[-400:]}",
                     script={"program": program, "config": config, "synth": synth, "query": {"q": "session"}})
    case = Case(rep, program, config, binary, source, dec, expected, actual, stats)
    if started and "reason" in started[0]:
        case.check_all(only)
    else:
        oq = only or {}
        if oq.get("q") in (None, "line"):
            case.check_lines(oq.get("line"))
        if oq.get("q") in (None, "fn"):
            case.check_fns(oq.get("name"))
        if oq.get("q") in (None, "range"):
            case.check_range(None)
    stats["rows"], stats["funcs"], stats["pcs"] = len(dec["rows"]), len(dec["funcs"]), len(dec["pcs"])
    stats["dwarf"] = dec["dwarf_versions"]
    return case


# ---------------------------------------------------------------------------------------------
def run(rep, tier, replay):
    t0 = time.time()
    WORK.mkdir(parents=True, exist_ok=True)
    oracle.tools()
    exe = vlib.cargo_build("c04")
    totals, tlc_states, tlc_trans, samples = {}, 0, 0, []
    assumptions = [
        "llvm-dwarfdump (LLVM 14) and objdump decode the binary correctly; they are the independent reader",
        "instruction boundaries come from a linear objdump -d sweep of the user functions",
        "user function = subprogram with code whose DW_AT_decl_file is the puppet source; the tables decoded are "
        "those of the puppet's own compilation unit(s)",
        "a pc that only a zero-length row and its successor share may be shown with either row's line (recorded, "
        "not raised)",
        "function names are queried by DW_AT_name without generic arguments; closures are not queried by name (C17)",
    ]

    if replay:
        rec = json.loads(Path(replay).read_text())
        sc = rec["script"]
        if sc.get("synth"):
            import c04_synth
            n = c04_synth.replay(rep, exe, sc, totals)
        else:
            c = next((x for x in matrix("thorough") if cfg_key(x) == sc["config"]), None)
            if c is None or sc["program"] not in PUPPETS:
                raise vlib.ToolError(f"replay: unknown program/config {sc['program']} {sc['config']}")
            binary = build(sc["program"], c)
            source = source_of(sc["program"])
            dec, expected, r = oracle_for(binary, source, f"{sc['program']}-{sc['config']}", roots_of(sc["program"]))
            tlc_states += r.distinct
            tlc_trans += r.generated
            q = sc["query"] if sc["query"].get("q") not in ("start", "session") else None
            run_binary(rep, exe, sc["program"], sc["config"], binary, source, dec, expected, totals, only=q)
            n = 1
        return rep.finish("model_checking", {"states": max(tlc_states, 1), "transitions": max(tlc_trans, 1),
                                             "traces_validated_against_impl": n, "samples": [sc], "replay": True,
                                             "per_binary": totals}, assumptions=assumptions)

    # ---- leg E runs in the background while the puppets are built and their tables evaluated
    import c04_small
    pool = ThreadPoolExecutor(max_workers=1)
    small_job = pool.submit(c04_small.run_models, tier, 4)

    # ---- leg O
    cfgs = matrix(tier)
    jobs = []
    for c in cfgs:
        for p in PUPPETS:
            jobs.append((p, c))
    # thorough: every configuration for two puppets, the remaining puppets on a covering subset
    if tier == "thorough":
        keep = []
        for p, c in jobs:
            full = p in ("c04_generic", "c04_straight", "c04_twocrate")
            if full or (c["dwarf"] == 0 and c["pie"]) or (c["tc"] == "1.89" and c["opt"] == 0):
                keep.append((p, c))
        jobs = keep
    builds = {}
    with ThreadPoolExecutor(max_workers=6) as ex:
        for (p, c), b in zip(jobs, ex.map(lambda j: build(*j), jobs)):
            builds[(p, cfg_key(c))] = b
    vlib.log(f"[C04] {len(builds)} binaries built/cached {time.time()-t0:.0f}s")

    def orc(job):
        p, c = job
        return oracle_for(builds[(p, cfg_key(c))], source_of(p), f"{p}-{cfg_key(c)}", roots_of(p))

    with ThreadPoolExecutor(max_workers=4) as ex:
        oracles = list(ex.map(orc, jobs))
    vlib.log(f"[C04] {len(oracles)} tables evaluated by TLC {time.time()-t0:.0f}s")
    # vacuity of the multi-unit case: the queried file of the two-crate puppet must have code in >= 2 units and
    # lines N with code in one unit while another unit has no row for N but a statement row for N+1
    split_lines = 0
    for (p, c), (dec, expected, r) in zip(jobs, oracles):
        if p not in PUPPET_LIBS:
            continue
        per_unit = {}
        for row in dec["rows"]:
            if row["file"] == dec["src_id"] and not row["es"]:
                per_unit.setdefault(row["unit"], {}).setdefault(row["line"], []).append(row["stmt"])
        n = sum(1 for u, lines in per_unit.items() for l in lines
                for v, other in per_unit.items() if v != u and l not in other and any(other.get(l + 1, [])))
        if dec["units_with_rows_of_source"] < 2 or n == 0:
            raise vlib.ToolError(f"vacuous: {p} [{cfg_key(c)}] does not spread {dec['source']} over two units "
                                 f"(units={dec['units_with_rows_of_source']}, split lines={n})")
        split_lines += n
    nbin = 0
    for (p, c), (dec, expected, r) in zip(jobs, oracles):
        tlc_states += r.distinct
        tlc_trans += r.generated
        run_binary(rep, exe, p, cfg_key(c), builds[(p, cfg_key(c))], source_of(p), dec, expected, totals)
        nbin += 1
        if len(samples) < 6:
            multi = [a for a in expected if a["q"] == "line" and len(a["funcs"]) > 1]
            samples.append({"program": p, "config": cfg_key(c), "expected_by_tlc": (multi or expected)[0]})
    vlib.log(f"[C04] {nbin} binaries asked {time.time()-t0:.0f}s")

    small = small_job.result()
    pool.shutdown()
    tlc_states += small["states"]
    tlc_trans += small["transitions"]
    # ---- leg S
    synth = c04_small.run_synth(rep, exe, totals)
    tlc_states += synth["states"]
    tlc_trans += synth["transitions"]
    small["summary"]["synth_objects"] = synth["synth_objects"]
    agg = {}
    for st in totals.values():
        for k, v in st.items():
            if isinstance(v, int) and not isinstance(v, bool):
                agg[k] = agg.get(k, 0) + v
    queries = sum(agg.get(k, 0) for k in ("pc_queries", "line_queries", "fn_queries", "addr_bp_queries",
                                           "stop_reports", "range_queries"))
    if agg.get("pc_queries", 0) == 0 or agg.get("line_in_several_functions", 0) == 0 or agg.get("line_fallback_next", 0) == 0:
        raise vlib.ToolError(f"vacuous run: {agg}")
    cov = {"states": tlc_states, "transitions": tlc_trans,
           "traces_validated_against_impl": nbin + synth["synth_objects"],
           "samples": samples + synth["samples"],
           "queries_compared": queries, "binaries": nbin, "lines_split_over_units": split_lines, "totals": agg, "small_tables": small["summary"],
           "per_binary": totals, "skipped": {k: v["skipped"] for k, v in totals.items() if "skipped" in v}}
    return rep.finish("model_checking", cov, assumptions=assumptions)

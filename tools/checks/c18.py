"""C18 -- Code is found wherever it is loaded.

spec/Reloc.tla holds the REFERENCE (what a request denotes under the true load biases, where a resumed
program must stop, SharedLibs = mapped objects) and a model of the implementation with four rules that can
be "as written" or repaired.  This module
  1. runs TLC exhaustively: Reloc_F (all rules repaired: the model must meet the reference) and, in the
     thorough tier, the four Reloc_W_* predictions (one rule as written each: TLC must find the violation),
  2. lets TLC print every complete session (Reloc_G: launched; Reloc_GA: attached) as JSON with the
     reference's expectations at every prompt (stop location, active requests, mapped objects),
  3. picks a feature-covering subset (link mode x library mode x session x kind x target object x timing),
     turns each into a concrete script for the real puppets (addresses from nm / llvm-dwarfdump, load
     biases measured in /proc/<pid>/maps by the driver) and replays it on the real Debugger
     (harness/src/bin/c18.rs), one child process per session, with a watchdog,
  4. compares, prompt by prompt, the real observations with the reference's expectations.
A violated Reloc_W_* invariant is never reported by itself: only the real observation decides.
"""
import ctypes
import hashlib
import json
import os
import random
import re
import subprocess
import time
from concurrent.futures import ThreadPoolExecutor
from pathlib import Path

import vlib

SRC = vlib.VERIF / "puppets" / "c18"
SCRATCH = vlib.WORK / "c18"
RUSTC = ["rustc", "+1.89", "--edition", "2021", "-g"]
INVS = ("RefSane", "InstalledAtTrueAddress", "ActiveWhenMapped", "SharedLibsAreMapped", "StopsWhereRequested", "NeverLost")


# ------------------------------------------------------------------------------------------------
# puppets and their static facts (independent decode: nm, llvm-dwarfdump)
# ------------------------------------------------------------------------------------------------
def _marker_lines(path):
    out = {}
    for i, l in enumerate(Path(path).read_text().splitlines(), 1):
        m = re.search(r"// LINE (\w+)", l)
        if m:
            out[m.group(1)] = i
    return out


def _rows(obj):
    _, so, _ = vlib.sh(["llvm-dwarfdump", "--debug-line", str(obj)], timeout=120)
    rows, files, cur = [], {}, None
    for line in so.splitlines():
        if line.startswith("debug_line["):
            files, cur = {}, None
            continue
        m = re.match(r"^file_names\[\s*(\d+)\]:", line)
        if m:
            cur = int(m.group(1))
            continue
        m = re.match(r'^\s+name: "(.*)"', line)
        if m and cur is not None:
            files[cur] = m.group(1)
            cur = None
            continue
        m = re.match(r"^0x([0-9a-f]+)\s+(\d+)\s+(\d+)\s+(\d+)\s+\d+\s+\d+\s*(.*)$", line)
        if m:
            rows.append({"addr": int(m.group(1), 16), "line": int(m.group(2)), "file": files.get(int(m.group(4)), ""),
                         "is_stmt": "is_stmt" in m.group(5), "prologue_end": "prologue_end" in m.group(5),
                         "end": "end_sequence" in m.group(5)})
    return rows


def _symbols(obj):
    _, so, _ = vlib.sh(["nm", "-S", "-C", "--defined-only", str(obj)])
    out = {}
    for line in so.splitlines():
        p = line.split(None, 3)
        if len(p) == 4 and re.fullmatch(r"[0-9a-f]+", p[0]) and re.fullmatch(r"[0-9a-f]+", p[1]):
            out.setdefault(p[3], (int(p[0], 16), int(p[1], 16)))
    return out


def _facts(obj, srcfile, fns, crate):
    """fn -> {"fn": link address a function breakpoint belongs to (first prologue_end row inside the symbol),
              "ln": lowest is_stmt row of the marked line, "ln_all": all of them, lines}"""
    syms, rows, marks = _symbols(obj), _rows(obj), _marker_lines(srcfile)
    res = {}
    for f in fns:
        lo, sz = syms.get(f) or syms.get(f"{crate}::{f}") or (None, None)
        if lo is None or not sz:
            raise vlib.ToolError(f"{obj}: no symbol for {f}")
        mine = [r for r in rows if lo <= r["addr"] < lo + sz and not r["end"] and r["file"].endswith(Path(srcfile).name)]
        pe = sorted(r["addr"] for r in mine if r["prologue_end"])
        ln = sorted({r["addr"] for r in mine if r["line"] == marks[f] and r["is_stmt"]})
        if not pe or not ln:
            raise vlib.ToolError(f"{obj}: line table has no prologue_end / marked line for {f}")
        fn_line = next(r["line"] for r in mine if r["addr"] == pe[0] and r["prologue_end"])
        if not pe[0] < ln[0]:
            raise vlib.ToolError(f"{obj}:{f}: function-breakpoint address {pe[0]:#x} is not before the marked line {ln[0]:#x} "
                                 "(the model visits fn then ln)")
        res[f] = {"fn": pe[0], "ln": ln[0], "ln_all": ln, "fn_line": fn_line, "ln_line": marks[f], "lo": lo, "hi": lo + sz}
    return res


LIB_BASE = {0: None, 60: 0x20000000}      # model link base of lib -> -Ttext-segment of the real cdylib (None: default, 0)


def build_puppets():
    """{model link base of the library: {"lib", "exes", "facts"}}: the library exists as an ordinary shared object
    and as one linked at a non-zero base; the start-up executables are linked against (rpath) each of them."""
    ver = vlib.sh(["rustc", "+1.89", "-vV"])[1]
    h = hashlib.sha1(b"".join((SRC / n).read_bytes() for n in ("lib1.rs", "c18s.rs", "c18d.rs")) + ver.encode()
                     + " ".join(RUSTC).encode() + repr(sorted(LIB_BASE.items())).encode() + b"v3").hexdigest()[:12]
    d = vlib.PUPPET_BUILD / f"c18-{h}"
    np = ["-C", "relocation-model=static", "-C", "link-arg=-no-pie"]
    if not (d / "ok").exists():
        tmp = vlib.PUPPET_BUILD / f"c18-{h}.tmp{os.getpid()}"
        for mb, seg in LIB_BASE.items():
            t, fin = tmp / f"b{mb}", d / f"b{mb}"
            t.mkdir(parents=True, exist_ok=True)
            # the rpath must name the final directory
            link = ["-L", str(t), "-C", f"link-arg=-Wl,-rpath,{fin}"]
            base = ["-C", f"link-arg=-Wl,-Ttext-segment={seg:#x}"] if seg else []
            vlib.sh(RUSTC + base + ["--crate-type", "cdylib", "--crate-name", "lib1", "-o", str(t / "liblib1.so"), str(SRC / "lib1.rs")], timeout=300)
            vlib.sh(RUSTC + link + ["-o", str(t / "c18s"), str(SRC / "c18s.rs")], timeout=300)
            vlib.sh(RUSTC + np + link + ["--crate-name", "c18s", "-o", str(t / "c18s_np"), str(SRC / "c18s.rs")], timeout=300)
            vlib.sh(RUSTC + ["-o", str(t / "c18d"), str(SRC / "c18d.rs")], timeout=300)
            vlib.sh(RUSTC + np + ["--crate-name", "c18d", "-o", str(t / "c18d_np"), str(SRC / "c18d.rs")], timeout=300)
        (tmp / "ok").write_text("ok")
        try:
            os.rename(tmp, d)
        except OSError:
            vlib.sh(["rm", "-rf", str(tmp)])
    exefns = ["stage_pre", "stage_mid", "stage_closed", "stage_reopened"]
    PP = {}
    for mb, seg in LIB_BASE.items():
        dd = d / f"b{mb}"
        lib = dd / "liblib1.so"
        P = {"dir": str(dd), "lib": str(lib), "exes": {}, "facts": {}, "link_base": seg or 0}
        P["facts"]["lib"] = _facts(lib, SRC / "lib1.rs", ["lib_add", "lib_inner"], "lib1")
        lo = min(int(l.split()[2], 16) for l in vlib.sh(["readelf", "-lW", str(lib)])[1].splitlines() if l.strip().startswith("LOAD"))
        if lo != (seg or 0) or not all(lo <= f["lo"] < lo + 0x1000000 for f in P["facts"]["lib"].values()):
            raise vlib.ToolError(f"{lib}: lowest PT_LOAD vaddr {lo:#x}, wanted {seg or 0:#x} (the linker ignored -Ttext-segment?)")
        for lm, stem in (("startup", "c18s"), ("dlopen", "c18d")):
            for em, suf in (("pie", ""), ("nopie", "_np")):
                exe = dd / (stem + suf)
                P["exes"][(em, lm)] = str(exe)
                P["facts"][(em, lm)] = _facts(exe, SRC / f"{stem}.rs", exefns, stem)
                kind = vlib.sh(["readelf", "-h", str(exe)])[1]
                if ("DYN" in kind) != (em == "pie"):
                    raise vlib.ToolError(f"{exe}: link mode is not {em}")
        PP[mb] = P
    return PP


def probe_lib_bias(P, em, lm):
    """Load bias of lib1 in a natively started puppet with ADDR_NO_RANDOMIZE (what a launched session will
    see); used only as the user's *guess* for address requests made before the load -- the guess is verified
    against /proc/<pid>/maps at every later prompt of the session."""
    libc = ctypes.CDLL(None, use_errno=True)

    def pre():
        libc.personality(0x0040000)
    p = subprocess.Popen([P["exes"][(em, lm)], P["lib"]], stdin=subprocess.PIPE, stdout=subprocess.DEVNULL,
                         env=dict(os.environ, C18_GATE="mid"), preexec_fn=pre)
    try:
        for _ in range(300):
            time.sleep(0.01)
            try:
                maps = Path(f"/proc/{p.pid}/maps").read_text()
            except OSError:
                break
            starts = [int(l.split("-")[0], 16) for l in maps.splitlines() if l.rstrip().endswith("liblib1.so")]
            parked = Path(f"/proc/{p.pid}/syscall").read_text().startswith("0 ")
            if starts and parked:
                return min(starts) - P["link_base"]       # bias = mapping start - lowest PT_LOAD vaddr
    finally:
        p.kill()
        p.wait()
    raise vlib.ToolError("probe: puppet did not map lib1")


# ------------------------------------------------------------------------------------------------
# TLC
# ------------------------------------------------------------------------------------------------
def _tlc(cfg, workers, timeout=1500, coverage=False, name=None, **kw):
    r = vlib.tlc("Reloc", cfg, workers=workers, heap="3g", timeout=timeout, coverage=coverage, name=name, **kw)
    vlib.tlc_expect_ok(r, cfg)
    return r


def run_tlc(tier):
    thorough = tier == "thorough"
    if not thorough:
        # launched sessions exhaustively; sessions to replay: two small exhaustive generation runs (every session with
        # one request; every session with a line anchor in the executable + one library request at any prompt)
        jobs = {"Reloc_Fq.cfg": dict(workers=4), "Reloc_G1.cfg": dict(workers=1), "Reloc_G2.cfg": dict(workers=1)}
    else:
        jobs = {"Reloc_F.cfg": dict(workers=4), "Reloc_G.cfg": dict(workers=1)}
        jobs.update({"Reloc_GA.cfg": dict(workers=1),
                     "Reloc_W_offset.cfg": dict(workers=2), "Reloc_W_libbase.cfg": dict(workers=2), "Reloc_W_reload.cfg": dict(workers=2),
                     "Reloc_W_early.cfg": dict(workers=2), "Reloc_W_attach.cfg": dict(workers=2),
                     "Reloc_Fcov.cfg#cov": dict(workers=4, coverage=True)})
    res = {}
    # development only (mutant runs): C18_TLC_CACHE=<file> reuses TLC's outputs for an unchanged spec/seed/tier
    cache = os.environ.get("C18_TLC_CACHE")
    key = vlib.stable_hash([tier, vlib.seed(), sorted(jobs), [(f.name, f.read_text()) for f in sorted(vlib.SPEC.glob("Reloc*"))]])
    if cache and Path(cache).exists() and json.loads(Path(cache).read_text()).get("key") == key:
        for k, v in json.loads(Path(cache).read_text())["res"].items():
            r = vlib.TlcResult()
            r.out, r.distinct, r.generated, r.violated, r.wall, r.coverage = v["out"], v["distinct"], v["generated"], v["violated"], v["wall"], \
                {a: tuple(b) for a, b in v["coverage"].items()}
            res[k] = r
        vlib.log("[c18] TLC outputs taken from", cache)
    else:
        with ThreadPoolExecutor(max_workers=3) as ex:
            futs = {k: ex.submit(_tlc, k.split("#")[0], name=k.replace("#", "-").replace(".cfg", ""), **kw) for k, kw in jobs.items()}
            for k, f in futs.items():
                res[k] = f.result()
                vlib.log(f"[c18] TLC {k}: {res[k].distinct} distinct / {res[k].generated} generated, violated={res[k].violated}, {res[k].wall:.0f}s")
        if cache:
            Path(cache).write_text(json.dumps({"key": key, "res": {k: {"out": r.out, "distinct": r.distinct, "generated": r.generated,
                                   "violated": r.violated, "wall": r.wall, "coverage": r.coverage} for k, r in res.items()}}))
    for k, r in res.items():
        if k.startswith("Reloc_W_"):
            continue
        if r.violated:
            raise vlib.ToolError(f"{k}: {r.violated} violated -- the reference and the repaired implementation model disagree "
                                 f"(spec or cfg changed?)\n{r.out[-2500:]}")
    if thorough:
        cov = res["Reloc_Fcov.cfg#cov"].coverage
        for a in ("UserReq", "UserCont", "Exec", "Visit", "Gate", "Open", "CloseLib", "Exit"):
            if cov.get(a, (0, 0))[1] == 0:
                raise vlib.ToolError(f"vacuous: action {a} never fired in Reloc_Fcov ({cov})")
    return res


def scenarios(res):
    out = []
    for k in ("Reloc_G.cfg", "Reloc_G1.cfg", "Reloc_G2.cfg", "Reloc_GA.cfg"):
        if k in res:
            s = vlib.printed(res[k].out, "SCN")
            if not s or any(not isinstance(x, dict) for x in s):
                raise vlib.ToolError(f"{k} printed no / malformed sessions")
            out += s
    uniq = {}
    for s in out:
        s["id"] = hashlib.sha1(json.dumps(s, sort_keys=True).encode()).hexdigest()[:10]
        uniq.setdefault(s["id"], s)
    return [uniq[k] for k in sorted(uniq)]


STAGE_TIMING = {"stage_pre": "before_load", "stage_mid": "after_load", "stage_closed": "after_close",
                "stage_reopened": "after_reload"}


def annotate(scn):
    """timing label of every request (derived from the last stop the reference reached before it)."""
    lm, sess = scn["cfg"]["lib"], scn["cfg"]["sess"]
    where = "before_start" if sess == "launch" else ("before_load" if sess == "attach_pre" else "after_load")
    feats = []
    for st in scn["steps"]:
        if st["op"] == "req":
            t = where
            if t != "before_start" and st["obj"] == "exe":
                t = "running"
            elif t != "before_start" and lm == "startup":
                t = "after_load"
            st["timing"] = t
            feats.append((scn["cfg"]["exe"], lm, sess, st["kind"], st["obj"], t, scn["cfg"]["lbase"] if st["obj"] == "lib" else 0))
        else:
            stop = st["stop"]
            if stop and stop[0] != "exit":
                s = stop[0]
                if s["fn"] in STAGE_TIMING:
                    where = STAGE_TIMING[s["fn"]]
                else:
                    where = "after_load" if s["call"] == 1 else "after_reload"
    scn["features"] = sorted(set(feats))
    return scn


def select(scns, tier, seed):
    """Greedy cover of the request features (+ every distinct stop location after a reload)."""
    rnd = random.Random(seed)
    pool = [annotate(s) for s in scns]
    rnd.shuffle(pool)
    if tier == "quick":
        # full kind x timing product only for the ordinary library under the PIE executable; the executable's own
        # requests, the library linked at a non-zero base and the non-PIE twin are covered per kind and per timing
        def proj(f):
            em, lm, sess, kind, obj, t, lb = f
            if em != "pie":
                return [(em, lm, kind)]
            if obj == "lib" and lb == 0:
                return [f]
            return [(em, obj, lm if obj == "lib" else "*", lb, "kind", kind), (em, obj, lm if obj == "lib" else "*", lb, "timing", t)]
    else:
        def proj(f):
            return [f]
    def fs(sc):
        return {x for f in sc["features"] for x in proj(f)}
    need = set()
    for s in pool:
        need |= fs(s)
    chosen = []
    # longest sessions first: they see more prompts
    pool.sort(key=lambda s: -len(s["steps"]))
    while need:
        best, gain = None, 0
        for s in pool:
            g = len(fs(s) & need)
            if g > gain:
                best, gain = s, g
        if best is None:
            break
        chosen.append(best)
        need -= fs(best)
    return chosen


# ------------------------------------------------------------------------------------------------
# concretisation + replay
# ------------------------------------------------------------------------------------------------
def concretize(scn, PP, guess):
    em, lm, sess = scn["cfg"]["exe"], scn["cfg"]["lib"], scn["cfg"]["sess"]
    P = PP[scn["cfg"]["lbase"]]
    exe = P["exes"][(em, lm)]
    stem = Path(exe).name.replace("_np", "")
    steps = []
    for st in scn["steps"]:
        if st["op"] != "req":
            steps.append({"op": st["op"]})
            continue
        o, f = st["obj"], st["fn"]
        facts = P["facts"]["lib" if o == "lib" else (em, lm)][f]
        c = {"op": "req", "rid": st["rid"], "kind": st["kind"]}
        if st["kind"] == "fn":
            c["name"] = f
        elif st["kind"] == "line":
            c["file"] = "lib1.rs" if o == "lib" else f"{stem}.rs"
            c["line"] = facts["ln_line"]
        else:
            path = P["lib"] if o == "lib" else exe
            if st["mapped"]:
                c.update(obj=path, link=facts["ln"])           # the user reads the load address from the maps now
            else:
                g = guess[(scn["cfg"]["lbase"], em, lm, o)]
                c["addr"] = g + facts["ln"]                     # the user's guess (verified at every later prompt)
                c["guess_bias"], c["guess_obj"] = g, o
        steps.append(c)
    return {"exe": exe, "args": [P["lib"]] if lm == "dlopen" else [], "mode": "attach" if sess != "launch" else "launch",
            "gate": "mid" if sess == "attach_mid" else "pre", "steps": steps}


def run_scn(drv, scn, P, guess, tag, timeout=90):
    d = SCRATCH / f"run-{os.getpid()}"
    d.mkdir(parents=True, exist_ok=True)
    sp, op = d / f"{tag}.json", d / f"{tag}.out"
    conc = concretize(scn, P, guess)
    sp.write_text(json.dumps(conc))
    if op.exists():
        op.unlink()
    try:
        p = subprocess.run([str(drv), str(sp), str(op)], capture_output=True, text=True, timeout=timeout,
                           env=dict(os.environ, RUST_BACKTRACE="0"), start_new_session=True)
        rc, err = p.returncode, p.stderr
    except subprocess.TimeoutExpired:
        rc, err = -9, "watchdog timeout"
        subprocess.run(f"pkill -9 -f '^{re.escape(conc['exe'])}' || true", shell=True)
    recs = vlib.ndjson_read(op) if op.exists() else []
    return {"rc": rc, "stderr": err[-800:], "records": recs, "script": conc}


# ------------------------------------------------------------------------------------------------
# comparison: real observations vs the reference's expectations
# ------------------------------------------------------------------------------------------------
class Cmp:
    def __init__(self, rep, PP):
        self.rep, self.PP, self.P = rep, PP, None
        self.compared = 0          # prompts compared
        self.sessions = 0
        self.inconclusive = 0
        self.counts = {}
        self.samples = []
        self.biases = {}           # object -> set of real load biases seen (ASLR evidence)
        self.model_like = {"as_written": 0, "total": 0}

    def count(self, k):
        self.counts[k] = self.counts.get(k, 0) + 1

    def bad(self, scn, seen, cls, action, **kw):
        if (cls, action) in seen:
            return
        seen.add((cls, action))
        c = scn["cfg"]
        self.rep.mismatch(cls, action, exe=c["exe"], lib=c["lib"], sess=c["sess"], lib_link_base=self.P["link_base"],
                          script={k: scn[k] for k in ("cfg", "steps", "id")}, **kw)

    def facts(self, scn, obj, fn):
        c = scn["cfg"]
        return self.P["facts"]["lib" if obj == "lib" else (c["exe"], c["lib"])][fn]

    def run(self, scn, out):
        c = scn["cfg"]
        self.P = self.PP[c["lbase"]]
        exe_path = self.P["exes"][(c["exe"], c["lib"])]
        paths = {"exe": exe_path, "lib": self.P["lib"]}
        recs = [r for r in out["records"] if r.get("ev") == "obs" and r["k"] >= 0]
        meta = next((r for r in out["records"] if r.get("ev") == "meta"), None)
        end = next((r for r in out["records"] if r.get("ev") == "end"), None)
        if meta is None or (out["rc"] not in (0,) and not recs):
            raise vlib.ToolError(f"driver failed on {scn['id']}: rc={out['rc']} {out['stderr']}")
        self.sessions += 1
        seen = set()
        reqs = [s for s in scn["steps"] if s["op"] == "req"]
        if "build_err" in meta or "build_panic" in meta:
            self.bad(scn, seen, "session_lost", "attach", expected="an attached session",
                     error=str(meta.get("build_err") or meta.get("build_panic")),
                     actual=meta.get("build_err") or meta.get("build_panic"))
            return
        guess_ok = True
        for k, st in enumerate(scn["steps"]):
            if k >= len(recs):
                if out["rc"] != 0:
                    self.bad(scn, seen, "session_lost", scn["steps"][k]["op"], expected="an answer", actual=f"driver rc={out['rc']} {out['stderr'][-200:]}")
                break
            r, res, a = recs[k], recs[k]["res"], recs[k]["after"]
            if res.get("tool"):
                raise vlib.ToolError(f"{scn['id']} step {k}: {res.get('err')}")
            objs = {o["path"]: o for o in a.get("objects", [])}
            bias = {n: objs[p]["bias"] for n, p in paths.items() if p in objs}
            for n, b in bias.items():
                self.biases.setdefault((c["exe"], c["sess"] != "launch", n if n == "exe" or not c["lbase"] else "lib@base"), set()).add(b)
            action = st["op"] if st["op"] != "req" else f"break_{st['kind']}"
            kw = dict(step=k)

            def addr_of(obj, fn, v):
                return bias[obj] + self.facts(scn, obj, fn)[v]

            if st["op"] == "req":
                self.count(f"req:{st['kind']}:{st['obj']}:{st['timing']}")
                if res.get("panic"):
                    self.bad(scn, seen, "panic", action, kind=st["kind"], timing=st["timing"], target=st["obj"], expected="an answer", actual=res["panic"], **kw)
                    break
                if not st["started"]:
                    # before start only the link address can be judged
                    for v in (res.get("ret") or []):
                        if v["kind"] == "global":
                            f = self.facts(scn, st["obj"], st["fn"])
                            want = f["fn"] if st["kind"] == "fn" else f["ln"]
                            if v["addr"] != want and v["addr"] not in f["ln_all"]:
                                self.bad(scn, seen, "link_address_wrong", action, kind=st["kind"], timing=st["timing"], target=st["obj"],
                                         expected=want, actual=v["addr"], **kw)
                    continue
                if st["mapped"]:
                    if st["obj"] not in bias:
                        raise vlib.ToolError(f"{scn['id']} step {k}: model says {st['obj']} is mapped, /proc/maps does not (puppet and Prog out of step)")
                    want = addr_of(st["obj"], st["fn"], "fn" if st["kind"] == "fn" else "ln")
                    got = [v for v in a.get("snapshot", []) if v["kind"] == "reloc" and v["addr"] == want]
                    self.compared += 1
                    if not got or got[0]["byte"] != 0xCC:
                        self.bad(scn, seen, "request_not_active", action, kind=st["kind"], timing=st["timing"], target=st["obj"],
                                 expected={"addr": want, "int3": True}, actual={"refusal": res.get("refusal"), "snapshot": a.get("snapshot")}, **kw)
                continue

            # ---- start / cont ----------------------------------------------------------------
            stop = st["stop"][0]
            self.count(f"{st['op']}:{'exit' if stop == 'exit' else stop['obj'] + ':' + stop['fn'] + ':' + stop['v']}")
            self.compared += 1
            lost = None
            if res.get("panic"):
                lost = {"panic": res["panic"]}
            elif not res.get("ok"):
                lost = {"err": res.get("err")}
            if lost:
                td = next((x for x in out["records"] if x.get("ev") == "teardown"), {})
                self.bad(scn, seen, "session_lost", action, expected=stop, error=str(lost.get("err") or lost.get("panic")), **kw,
                         actual=dict(lost, process_after=a.get("proc_state"), tasks=a.get("tasks"), drop_panic=td.get("panic"),
                                     ran_unsupervised=bool(end and "C18 done" in end.get("stdout", ""))))
                break
            ret = res["ret"]
            # which expected stops are still ahead (to tell a missed stop from a wrong place)
            if stop == "exit":
                if ret["kind"] != "exit":
                    self.bad(scn, seen, "spurious_stop", action, expected="exit", actual={"ret": ret, "rip": a.get("rip"), "hooks": r["hooks"]}, **kw)
                break
            reload_ = stop["obj"] == "lib" and stop["call"] == 2 and c["lib"] == "dlopen"
            req_of = [q for q in reqs if q["obj"] == stop["obj"] and q["fn"] == stop["fn"]
                      and ("fn" if q["kind"] == "fn" else "ln") == stop["v"]]
            rk = dict(kind="+".join(sorted({q["kind"] for q in req_of})), timing="+".join(sorted({q["timing"] for q in req_of})),
                      target=stop["obj"])
            if ret["kind"] != "breakpoint" or stop["obj"] not in bias or a.get("rip") != addr_of(stop["obj"], stop["fn"], stop["v"]):
                where = None
                if ret["kind"] == "breakpoint" and a.get("rip") is not None:
                    for n in bias:
                        fs = self.P["facts"]["lib" if n == "lib" else (c["exe"], c["lib"])]
                        for fn, f in fs.items():
                            if f["lo"] <= a["rip"] - bias[n] < f["hi"]:
                                where = {"obj": n, "fn": fn, "off": a["rip"] - bias[n] - f["lo"]}
                cls = "missed_stop_after_reload" if reload_ else "missed_stop"
                # guessed address requests: the guess must have been right for the expectation to apply
                if any(q["kind"] == "addr" and not q["mapped"] for q in req_of) and not self._guess_right(scn, out, bias):
                    self.inconclusive += 1
                    return
                self.bad(scn, seen, cls, action, expected=stop, actual={"ret": ret, "at": where, "rip": a.get("rip")}, **rk, **kw)
                break
            # the stop is where it must be: what the debugger says about it
            hk = [h for h in r["hooks"] if h["hook"] == "breakpoint"]
            f = self.facts(scn, stop["obj"], stop["fn"])
            want_line = f["fn_line"] if stop["v"] == "fn" else f["ln_line"]
            if not hk or hk[-1]["pc"] != a["rip"] or ret["pc"] != a["rip"]:
                self.bad(scn, seen, "reported_pc_wrong", action, expected=a["rip"], actual={"hook": hk[-1]["pc"] if hk else None, "ret": ret["pc"]}, **rk, **kw)
            else:
                pl, fu = hk[-1].get("place"), hk[-1].get("func")
                if not pl or pl["line"] != want_line or not pl["file"].endswith(("lib1.rs" if stop["obj"] == "lib" else ".rs")):
                    self.bad(scn, seen, "stop_place_wrong", action, expected={"line": want_line}, actual=pl, **rk, **kw)
                if pl and pl["addr"] != a["rip"] - bias[stop["obj"]]:
                    self.bad(scn, seen, "global_address_wrong", action, expected=a["rip"] - bias[stop["obj"]], actual=pl["addr"], **rk, **kw)
                if not fu or fu["name"] != stop["fn"]:
                    self.bad(scn, seen, "stop_function_wrong", action, expected=stop["fn"], actual=fu, **rk, **kw)
            if a.get("ecx_global_pc") != a["rip"] - bias[stop["obj"]]:
                self.bad(scn, seen, "global_address_wrong", action, expected=a["rip"] - bias[stop["obj"]], actual=a.get("ecx_global_pc"), **rk, **kw)
            names = [(fr["fn"] or "").split("::")[-1] for fr in a.get("bt", [])][:len(stop["stack"])]
            if names != stop["stack"]:
                self.bad(scn, seen, "backtrace_wrong", action, expected=stop["stack"],
                         actual={"names": [fr["fn"] for fr in a.get("bt", [])][:6], "err": a.get("bt_err") or a.get("bt_panic")}, **rk, **kw)
            if stop["args"]:
                got = a.get("args")
                gl = [[x["name"], x["value"]] for x in got] if isinstance(got, list) else got
                if gl != stop["args"]:
                    self.bad(scn, seen, "argument_wrong", action, expected=stop["args"], actual=gl, **rk, **kw)
            # active requests at this prompt
            wanted = {}
            for v in st["views"]:
                q = reqs[v["rid"] - 1]
                if v["obj"] not in bias:
                    raise vlib.ToolError(f"{scn['id']} step {k}: model says {v['obj']} is mapped, /proc/maps does not")
                if q["kind"] == "addr" and not q["mapped"] and not self._guess_right(scn, out, bias):
                    guess_ok = False
                    continue
                wanted.setdefault(addr_of(v["obj"], v["fn"], v["v"]), []).append(q)
            snap = {v["addr"]: v for v in a.get("snapshot", []) if v["kind"] == "reloc"}
            second_load = c["lib"] == "dlopen" and (stop["fn"] == "stage_reopened" or stop["call"] == 2)
            for ad, qs in sorted(wanted.items()):
                if ad not in snap or snap[ad]["byte"] != 0xCC:
                    q = qs[0]
                    reloaded = second_load and q["obj"] == "lib" and q["timing"] != "after_reload"
                    self.bad(scn, seen, "request_not_active_after_reload" if reloaded else "request_not_active", action, kind=q["kind"], timing=q["timing"], target=q["obj"],
                             expected={"addr": ad, "int3": True, "request": {x: q[x] for x in ("rid", "kind", "obj", "fn", "timing")}},
                             actual={"snapshot": a.get("snapshot")}, **kw)
            # a listed breakpoint inside a mapped object must be at the true address of a requested location
            legal = set()
            for q in reqs:
                if q["obj"] in bias:
                    ff = self.facts(scn, q["obj"], q["fn"])
                    legal |= {bias[q["obj"]] + x for x in ([ff["fn"]] if q["kind"] == "fn" else ff["ln_all"])}
            for ad, v in snap.items():
                inside = [o for o in objs.values() if o["start"] <= ad < o["end"]]
                if inside and ad not in legal and guess_ok:
                    self.bad(scn, seen, "breakpoint_at_wrong_address", action, expected=sorted(legal), actual=v, **kw)
            # shared_libs() vs the kernel's view
            if "lib" in st["libs"] and "lib" not in bias or ("lib" not in st["libs"] and "lib" in bias):
                raise vlib.ToolError(f"{scn['id']} step {k}: model libs {st['libs']} vs real {sorted(bias)} (puppet and Prog out of step)")
            listed = {l["canon"]: l for l in a.get("shared_libs", [])}
            mapped = {os.path.realpath(p): o for p, o in objs.items()}
            if set(listed) != set(mapped):
                self.bad(scn, seen, "shared_libs_mismatch", action, expected=sorted(mapped),
                         actual={"missing": sorted(set(mapped) - set(listed)), "extra": sorted(set(listed) - set(mapped))},
                         lib_listed=os.path.realpath(self.P["lib"]) in listed, lib_mapped="lib" in bias,
                         diff="lib_only" if set(listed) ^ set(mapped) == {os.path.realpath(self.P["lib"])} else "other", **kw)
            else:
                for p, l in listed.items():
                    if l["from"] != mapped[p]["start"]:
                        self.bad(scn, seen, "shared_libs_range_wrong", action, expected=mapped[p]["start"], actual=l, **kw)
            if stop["obj"] == "lib" and not seen and (len(self.samples) < 3 or (c["lbase"] and len([x for x in self.samples if x["cfg"]["lbase"]]) < 3)):
                self.samples.append({"cfg": c, "step": k, "expected_stop": {x: stop[x] for x in ("obj", "fn", "v", "call")},
                                     "real_rip": a["rip"], "lib_bias": bias.get("lib"), "exe_bias": bias.get("exe"), "lib_link_base": self.P["link_base"],
                                     "backtrace": [fr["fn"] for fr in a.get("bt", [])][:3], "args": a.get("args"),
                                     "shared_libs": sorted(Path(p).name for p in listed)})
        if not guess_ok:
            self.inconclusive += 1

    @staticmethod
    def _guess_right(scn, out, bias):
        """were the load addresses the user guessed for early address requests the ones the loader chose?"""
        return all(bias.get(c["guess_obj"], c["guess_bias"]) == c["guess_bias"] for c in out["script"]["steps"] if "guess_bias" in c)


# ------------------------------------------------------------------------------------------------
def run(rep, tier, replay):
    P = build_puppets()
    drv = vlib.cargo_build("c18")
    cmp = Cmp(rep, P)
    guess = {}
    for em in ("pie", "nopie"):
        for lm in ("startup", "dlopen"):
            for mb in P:
                guess[(mb, em, lm, "exe")] = 0x555555554000 if em == "pie" else 0
                guess[(mb, em, lm, "lib")] = probe_lib_bias(P[mb], em, lm)
    if replay:
        rec = json.loads(Path(replay).read_text())
        scn = annotate(rec["script"])
        out = run_scn(drv, scn, P, guess, "replay")
        cmp.run(scn, out)
        return rep.finish("model_checking", {"states": 1, "transitions": len(scn["steps"]), "traces_validated_against_impl": cmp.sessions,
                                             "samples": [scn["cfg"]], "replay_of": str(replay)})
    res = run_tlc(tier)
    scns = scenarios(res)
    chosen = select(scns, tier, vlib.seed())
    if tier == "quick":
        chosen = [s for s in chosen if s["cfg"]["sess"] == "launch"]
    # vacuity of the replayed set: deferred activation and a stop after a reload must be among the expectations
    def has(pred):
        return any(pred(s, st) for s in chosen for st in s["steps"])
    if not has(lambda s, st: st["op"] == "req" and st["obj"] == "lib" and s["cfg"]["lib"] == "dlopen" and st["timing"] in ("before_start", "before_load")) \
            or not has(lambda s, st: st["op"] != "req" and st["stop"] and st["stop"][0] != "exit" and st["stop"][0]["obj"] == "lib"
                       and st["stop"][0]["call"] == 2 and s["cfg"]["lib"] == "dlopen") \
            or not has(lambda s, st: s["cfg"]["exe"] == "nopie") or not has(lambda s, st: s["cfg"]["lib"] == "startup"):
        raise vlib.ToolError("vacuous selection: no deferred request / no stop after a reload / no non-PIE / no start-up library session")
    # ... and the same for the library linked at a non-zero base: start-up linked + dlopen, requested before the load
    # (deferred) and after it, with a stop inside the library owed
    def based(lm, timings):
        return any(s["cfg"]["lbase"] != 0 and s["cfg"]["exe"] == "pie" and s["cfg"]["lib"] == lm
                   and any(st["op"] == "req" and st["obj"] == "lib" and st["timing"] in timings for st in s["steps"])
                   and any(st["op"] != "req" and st["stop"] and st["stop"][0] != "exit" and st["stop"][0]["obj"] == "lib" for st in s["steps"])
                   for s in chosen)
    if not (based("startup", ("before_start",)) and based("startup", ("after_load",))
            and based("dlopen", ("before_start", "before_load")) and based("dlopen", ("after_load",))):
        raise vlib.ToolError("vacuous selection: the library linked at a non-zero base is not covered (start-up/dlopen x before/after load)")
    t1 = time.time()
    vlib.log(f"[c18] TLC done {t1 - rep.t0:.0f}s; {len(scns)} sessions printed, {len(chosen)} selected")
    # attached sessions use the real ASLR: run them twice in thorough so that different biases are seen
    jobs = [(s, f"{s['id']}") for s in chosen]
    if tier == "thorough":
        jobs += [(s, f"{s['id']}-b") for s in chosen if s["cfg"]["sess"] != "launch"]
    with ThreadPoolExecutor(max_workers=8) as ex:
        outs = list(ex.map(lambda j: run_scn(drv, j[0], P, guess, j[1]), jobs))
    vlib.log(f"[c18] replay done {time.time() - t1:.0f}s")
    for (s, _), o in zip(jobs, outs):
        cmp.run(s, o)
    if cmp.inconclusive > len(jobs) // 3:
        raise vlib.ToolError(f"{cmp.inconclusive} of {len(jobs)} sessions inconclusive (guessed load address was wrong)")
    aslr = {f"{k[0]}:{'attach' if k[1] else 'launch'}:{k[2]}": sorted(hex(b) for b in v)[:6] for k, v in cmp.biases.items()}
    # Reloc_W_offset / _libbase are model mutants (mapping-offset slips the code does not contain any more / never
    # contained): TLC must still tell them from the reference; the other Reloc_W_* are predictions about the code
    MUT = ("Reloc_W_offset.cfg", "Reloc_W_libbase.cfg")
    pred = {k: r.violated for k, r in res.items() if k.startswith("Reloc_W_") and k not in MUT}
    mmut = {k: r.violated for k, r in res.items() if k in MUT}
    if tier == "thorough":
        if not all(mmut.values()):
            raise vlib.ToolError(f"the model does not distinguish the mapping-offset slips from the reference: {mmut}")
        missing = [k for k, v in pred.items() if not v]
        if missing:
            vlib.log(f"MODEL-DRIFT: the as-written rules {missing} no longer produce a counterexample in Reloc.tla")
    exh = [k for k in res if "#" not in k]
    cov = {
        "states": sum(res[k].distinct for k in exh),           # exhaustive runs only (simulation reports 0)
        "transitions": sum(res[k].generated for k in exh),
        "traces_validated_against_impl": cmp.sessions,
        "prompts_compared": cmp.compared,
        "samples": cmp.samples or [chosen[0]["cfg"]],
        "tlc": {k: {"distinct": r.distinct, "generated": r.generated, "violated": r.violated, "wall_s": round(r.wall, 1)} for k, r in res.items()},
        "sessions_printed_by_tlc": len(scns),
        "sessions_replayed": len(jobs),
        "sessions_inconclusive": cmp.inconclusive,
        "compared_by_kind": cmp.counts,
        "load_biases_seen": aslr,
        "model_predictions": pred,
        "model_mutants_detected": mmut,
        "exhaustive": True,
    }
    return rep.finish("model_checking", cov, assumptions=[
        "/proc/<pid>/maps, /proc/<pid>/task/<tid>/syscall and /proc/<pid>/mem show the debuggee's true state",
        "nm and llvm-dwarfdump decode the puppets' symbols and line tables correctly (function breakpoint = first prologue_end row "
        "inside the symbol; line breakpoint = lowest is_stmt row of the line)",
        "true load bias = lowest mapping start - lowest PT_LOAD vaddr (page aligned)",
        "requests follow the console protocol: set_breakpoint_at_*, and add_deferred_at_* when refused",
        "a request on a library location is owed a stop at every load of the library (dlclose/dlopen re-arms it)",
        "launched sessions run with ADDR_NO_RANDOMIZE (the debugger sets it); attached sessions (thorough) use real ASLR",
    ])

"""C01 - breakpoint stops are exactly the projection of the real execution."""
from checks import c03


def run(rep, tier, replay):
    return c03.run_family(rep, tier, replay, "C01", mix="bps", probes=["text"], by_kinds=True,
                          quick=dict(maxcmd=14, maxbps=3, ncands=5, nhist=8, maxbk=7, also_mixed=4, also_adjacent=3, signals=True, nopie=True),
                          thorough=dict(maxcmd=20, maxbps=4, ncands=8, nhist=30, maxbk=10, also_mixed=12, also_adjacent=5, signals=True, nopie=True))

"""C16 -- Injected calls run once and leave no trace.

spec/CallInject.tla is the reference: (1) for every (callee, literals) whether the call must be made / must be
refused and what the callee must see (64-bit arithmetic on byte sequences, sign/zero extension per parameter type),
(2) the post-conditions of every exit path of a call (registers, text, mappings, INT3 patches, the stopped frame's
stack incl. the red zone, the callee log) together with the code's step order and a failure branch at every step.
This module
  1. runs TLC: _G prints the call cases with the specification's outcome, _E/_Eq checks the candidate repair
     against the reference exhaustively (must hold), _A/_Aq explores the code's step order and prints for every
     terminal state which post-conditions it breaks (predictions);
  2. replays the cases through the real console `call` command / `Debugger::call` in sessions stopped at function
     entry, after a prologue, mid-body, in a red-zone leaf, with an xmm register live, with and without a
     breakpoint at pc, with breakpoints inside the callee and later in the program (harness/src/bin/c16.rs), and
     injects a failing ptrace request at chosen steps;
  3. compares every observation with the specification's outcome; the program's output after `continue` with a
     native run plus the injected calls' own log entries; `vard`/`argd` with the program's own `{:?}` text.
Predictions of the as-written model are never reported by themselves: only the real observation decides.
"""
import ctypes
import json
import os
import re
import subprocess
from concurrent.futures import ThreadPoolExecutor
from pathlib import Path

import vlib
import c16_puppet

ASSUMPTIONS = [
    "PTRACE_GETREGS/GETFPREGS issued by the harness on the tracer thread, /proc/<pid>/mem and /proc/<pid>/maps show the debuggee's true state",
    "x86-64 SysV: integer/bool/pointer parameters in rdi,rsi,rdx,rcx,r8,r9; 128-byte red zone; (rsp+8) % 16 == 0 at a callee's entry",
    "a callee that widens its parameter to 64 bit (as iN/uN as i64/u64) reports exactly the value it received",
    "literals not representable in the parameter type or of another kind than the parameter are left open by the property (error or call; state restored either way)",
    "machine explored for arities {0,6} and three breakpoint sets in the quick tier, arities 0..6 and all eight sets in the thorough tier; one fault per call",
    "an injected ptrace fault (one request of a call fails with ESRCH, nothing else changes) is a call that cannot be made: error and restored state are required; the comparison with the as-written machine is diagnostic",
]


# ------------------------------------------------------------------------------------------------
# TLC
# ------------------------------------------------------------------------------------------------
def _tlc(cfg, workers, **kw):
    r = vlib.tlc("CallInject", cfg, workers=workers, heap="3g", timeout=kw.pop("timeout", 1500), **kw)
    vlib.tlc_expect_ok(r, cfg)
    return r


def tlc_jobs(tier):
    thorough = tier == "thorough"
    jobs = {"CallInject_G.cfg": dict(workers=1),
            ("CallInject_E.cfg" if thorough else "CallInject_Eq.cfg"): dict(workers=4 if thorough else 2),
            ("CallInject_A.cfg" if thorough else "CallInject_Aq.cfg"): dict(workers=1)}
    if thorough:
        jobs["CallInject_AR.cfg"] = dict(workers=1)
        jobs["CallInject_Eq.cfg#cov"] = dict(workers=2, coverage=True)
        jobs["CallInject_Aq.cfg#cov"] = dict(workers=1, coverage=True)
    return jobs


class TlcRuns:
    """TLC jobs in the background; G is needed first (it prints the cases), the machines may finish while the
    harness sessions run.  C16_TLC_CACHE=<file> (development only, mutant runs) reuses the outputs."""

    def __init__(self, tier):
        self.jobs = tlc_jobs(tier)
        self.cache = os.environ.get("C16_TLC_CACHE")
        self.key = vlib.stable_hash([tier, sorted(self.jobs), [(f.name, f.read_text()) for f in sorted(vlib.SPEC.glob("CallInject*"))]])
        self.res, self.futs, self.ex = {}, {}, None
        if self.cache and Path(self.cache).exists() and json.loads(Path(self.cache).read_text()).get("key") == self.key:
            for k, v in json.loads(Path(self.cache).read_text())["res"].items():
                r = vlib.TlcResult()
                r.out, r.distinct, r.generated, r.violated, r.wall, r.coverage = v["out"], v["distinct"], v["generated"], v["violated"], v["wall"], v.get("coverage", {})
                self.res[k] = r
            vlib.log("[c16] TLC outputs taken from", self.cache)
        else:
            self.ex = ThreadPoolExecutor(max_workers=3)
            order = sorted(self.jobs, key=lambda k: k != "CallInject_G.cfg")
            self.futs = {k: self.ex.submit(_tlc, k.split("#")[0], name=k.replace("#", "-").replace(".cfg", ""), **self.jobs[k]) for k in order}

    def get(self, k):
        if k not in self.res:
            self.res[k] = self.futs[k].result()
        return self.res[k]

    def all(self):
        for k in self.jobs:
            self.get(k)
        if self.ex:
            self.ex.shutdown()
            if self.cache:
                Path(self.cache).write_text(json.dumps({"key": self.key, "res": {k: {"out": r.out, "distinct": r.distinct, "generated": r.generated,
                                            "violated": r.violated, "wall": r.wall, "coverage": r.coverage} for k, r in self.res.items()}}))
        for k, r in self.res.items():
            if r.violated:
                raise vlib.ToolError(f"{k}: {r.violated} violated -- the specification and its own models disagree\n{r.out[-1500:]}")
        for k, r in self.res.items():
            if k.endswith("#cov"):
                # StepRet exists only in the code's step order, StepXU only in the repair
                ignore = ("StepRet",) if k.startswith("CallInject_E") else ("StepXU",)
                vac = [a for a in vlib.vacuous_actions(r, ignore=ignore) if a.startswith("Step") or a == "Terminal"]
                if vac or not r.coverage:
                    raise vlib.ToolError(f"vacuous: actions never fired in {k}: {vac or 'no coverage parsed'}")
        return self.res


def bits_hex(b):
    return "%x" % sum(v << (8 * i) for i, v in enumerate(b))


def emitted_cases(g):
    if g.violated:
        raise vlib.ToolError(f"CallInject_G: {g.violated} violated\n{g.out[-1500:]}")
    out = g.out
    fns = vlib.printed(out, "FNS")
    cases = vlib.printed(out, "CASE")
    if len(fns) != 1 or len(cases) < 500 or any(isinstance(c, str) for c in cases):
        raise vlib.ToolError(f"generation produced too few / malformed cases: {len(cases)}")
    table = [(f["name"], list(f["types"])) for f in fns[0]]
    if table != [(n, list(t)) for n, t in c16_puppet.FNS]:
        raise vlib.ToolError("spec Fns and the puppet's FNS differ (program/model correspondence broken)")
    if {c["cls"] for c in cases} != {"ok", "fail", "open"}:
        raise vlib.ToolError("vacuous generation: not all three outcome classes present")
    cases.sort(key=lambda c: (c["kind"], c["fid"], json.dumps(c["args"])))
    for i, c in enumerate(cases):
        c["id"] = f"{c['kind'][0]}{i}"
    return cases


def emitted_terms(res):
    akey = "CallInject_A.cfg" if "CallInject_A.cfg" in res else "CallInject_Aq.cfg"
    terms = vlib.printed(res[akey].out, "TERM")
    if len(terms) < 1000:
        raise vlib.ToolError(f"as-written machine printed too few terminal states: {len(terms)}")
    return terms


def harness_case(c, route="console"):
    return {"id": c["id"], "route": route, "fn": c["fn"], "faulty": bool(c.get("faulty")),
            "args": [{"k": a["k"], "txt": a["txt"], "bits": bits_hex(a["bits"])} for a in c["args"]]}


# ------------------------------------------------------------------------------------------------
# sessions
# ------------------------------------------------------------------------------------------------
def extra_case(cid, fn, args, cls="ok"):
    """A hand-written case outside the TLC enumeration (unknown function, special callees)."""
    return {"id": cid, "kind": "extra", "fn": fn, "fid": c16_puppet.FN_ID.get(fn, -1), "types": dict(c16_puppet.FNS).get(fn, []),
            "args": [{"k": "int", "txt": str(a), "bits": [(a >> (8 * i)) & 255 for i in range(8)]} for a in args],
            "cls": cls, "expect": [{"cls": "ok", "bits": [(a >> (8 * i)) & 255 for i in range(8)], "sym": ""} for a in args],
            "alg_ok": cls == "ok", "alg": []}


def plan(tier, cases, seed):
    thorough = tier == "thorough"
    byk = lambda k: [c for c in cases if c["kind"] == k]
    distinct = byk("distinct")
    small = distinct + [c for c in byk("single") if c["args"][0]["txt"] in ("-1", "18446744073709551615", "true", "KNOWN", "-9223372036854775808", "1.5")] \
        + byk("arity")[:6] + byk("toomany")
    unknown = extra_case("x_unknown", "no_such_function", [1], "fail")
    sse = extra_case("x_sse", "f_sse", [5])
    deep = extra_case("x_deep", "f_deep", [5])
    fp = extra_case("x_fp", "f_fp", [3])
    sig = extra_case("x_sig", "f_sig", [9])
    full = cases + [unknown]
    api = [dict(c, id=c["id"] + "a", route="api") for c in (cases if thorough else small)
           if all(a["k"] != "str" for a in c["args"])]
    S = []

    def add(name, pos, cs, keep_bp=True, extra_bps=(), heal=False, finish=True, fault=None):
        S.append({"name": name, "pos": pos, "keep_bp": keep_bp, "extra_bps": list(extra_bps), "heal": heal, "finish": finish,
                  "fault": fault, "cases": cs})
    # everything, mid-body, stopped at a breakpoint, a breakpoint inside a callee and one the program reaches later
    add("mid-all", "mid", full + api + [deep, sse], extra_bps=("f0", "f1_i64", "f6"))
    add("mid-nobp", "mid", small + [deep], keep_bp=False)
    add("body", "body", full if thorough else small, keep_bp=False, extra_bps=("f0",))
    add("entry", "entry", (full if thorough else small) + [deep], extra_bps=("f2",))
    add("entry-go", "entry", [distinct[-1]], keep_bp=False)
    add("entry-sse", "entry", [sse], finish=False)
    add("leaf", "leaf", (full if thorough else small) + [deep], heal=True, finish=False)
    add("leaf-go", "leaf", [c for c in distinct if c["fn"] == "f2"], keep_bp=False)
    add("leaf-sse", "leaf", [sse], finish=False)
    add("fp", "fp", small, extra_bps=("f0",), heal=True, finish=False)
    add("fp-go", "fp", [fp], keep_bp=False)
    add("mid-sig", "mid", [sig], finish=False)
    # stopped inside the function that is then called (and, for comparison, calling another one from there)
    add("callee-other", "callee", [c for c in distinct if c["fn"] in ("f3", "f6")])
    add("callee-self", "callee", [c for c in distinct if c["fn"] == "f2"], finish=False)
    # one failing ptrace request inside one call (diagnostic: binds the failure branches of the machine)
    probe = [c for c in distinct if c["fn"] == "f3"]
    ks = range(0, 40) if thorough else (2, 9, 14, 17, 20, 22, 26)
    for k in ks:
        add(f"fault-{k}", "mid", probe + [dict(probe[0], id="faulty", faulty=True)], finish=False, fault={"nth": k, "errno": 3})
    return S


def run_session(exe, pup, s, tag):
    d = vlib.WORK / "c16" / f"run-{os.getpid()}"
    d.mkdir(parents=True, exist_ok=True)
    cp, sp, op = d / f"{s['name']}.{tag}.cfg.json", d / f"{s['name']}.{tag}.cases", d / f"{s['name']}.{tag}.out"
    vlib.ndjson_write(sp, [harness_case(c, c.get("route", "console")) for c in s["cases"]])
    cp.write_text(json.dumps({"puppet": pup["exe"], "source": pup["src"], "lines": pup["lines"], "entry_addr": pup["entry_addr"],
                              "fp_addr": pup["fp_addr"], "pos": s["pos"], "keep_bp": s["keep_bp"], "extra_bps": s["extra_bps"],
                              "heal": s["heal"], "finish": s["finish"], "fault": s["fault"], "cases": str(sp)}))
    if op.exists():
        op.unlink()
    try:
        p = subprocess.run([str(exe), "call", str(cp), str(op)], capture_output=True, text=True,
                           timeout=400 + len(s["cases"]) // 2, env=dict(os.environ, RUST_BACKTRACE="0"), start_new_session=True)
        rc, err = p.returncode, p.stderr
    except subprocess.TimeoutExpired:
        rc, err = -9, "watchdog timeout"
    recs = vlib.ndjson_read(op) if op.exists() else []
    return {"rc": rc, "stderr": err[-1500:], "records": recs}


def run_dbg(exe, meta, tag):
    d = vlib.WORK / "c16" / f"run-{os.getpid()}"
    d.mkdir(parents=True, exist_ok=True)
    cp, op = d / f"dbg.{tag}.cfg.json", d / f"dbg.{tag}.out"
    cp.write_text(json.dumps({"puppet": meta["exe"], "source": meta["src"], "lines": meta["lines"], "vars": meta["vars"], "args": meta["args"]}))
    if op.exists():
        op.unlink()
    try:
        p = subprocess.run([str(exe), "dbg", str(cp), str(op)], capture_output=True, text=True, timeout=240,
                           env=dict(os.environ, RUST_BACKTRACE="0"), start_new_session=True)
        rc, err = p.returncode, p.stderr
    except subprocess.TimeoutExpired:
        rc, err = -9, "watchdog timeout"
    return {"rc": rc, "stderr": err[-1500:], "records": vlib.ndjson_read(op) if op.exists() else []}


def native(exe):
    """The program on its own, with the address layout the debugger gives it (ADDR_NO_RANDOMIZE)."""
    libc = ctypes.CDLL(None, use_errno=True)
    p = subprocess.run([str(exe)], capture_output=True, text=True, timeout=60, preexec_fn=lambda: libc.personality(0x0040000))
    return p.stdout, p.returncode


# ------------------------------------------------------------------------------------------------
# comparison: real observation vs the specification's outcome
# ------------------------------------------------------------------------------------------------
MODEL_STEPS = ["S1", "S2", "M1", "M2", "M3", "M5", "J1", "J2", "J3", "J5", "C1", "C2", "C3", "R1", "U1", "U2", "U3", "U5", "U6", "X1", "X2"]


class Cmp:
    def __init__(self, rep, pup, terms):
        self.rep, self.pup, self.terms = rep, pup, terms
        self.compared = 0
        self.samples = []
        self.counts = {}
        self.drift = {"arg_cases": 0, "arg_like_model": 0, "state_cases": 0, "state_like_model": 0, "fault_cases": 0, "fault_like_model": 0}
        self.fault_table = []
        self.calib = {}
        self.native_lines = pup["native_stdout"].splitlines()
        for l in self.native_lines:
            m = l.split()
            if m and m[0] == "E":
                self.calib.setdefault(int(m[1]), int(m[3]))

    def count(self, k):
        self.counts[k] = self.counts.get(k, 0) + 1

    def bad(self, cls, action, s, c, **kw):
        script = {"session": {k: s[k] for k in ("name", "pos", "keep_bp", "extra_bps", "heal", "finish", "fault")},
                  "cases": s["cases"] if s["fault"] else [c] if c else s["cases"][:4]}
        self.rep.mismatch(cls, action, pos=s["pos"], fn=(c or {}).get("fn"), script=script, **kw)

    def predicted(self, s, fp="none", fk="none"):
        """What the as-written machine says about this kind of session (for drift monitoring)."""
        pos = {"body": "mid", "fp": "leaf", "callee": "mid"}.get(s["pos"], s["pos"])
        v = set()
        for t in self.terms:
            if t["pos"] == pos and t["fp"] == fp and t["fk"] == fk and t["makeable"]:
                v |= set(t["violated"])
        return v

    def expected_entry(self, c, known):
        a = []
        for e in c["expect"]:
            a.append("%x" % known if e.get("sym") == "KNOWN" else bits_hex(e["bits"]))
        return {"id": c["fid"], "n": len(c["args"]), "a": a + ["0"] * (7 - len(a))}

    def session(self, s, out):
        recs = out["records"]
        meta = {r["meta"]: r for r in recs if "meta" in r}
        if out["rc"] != 0 or "done" not in meta or "stopped" not in meta:
            raise vlib.ToolError(f"harness c16 session {s['name']} failed rc={out['rc']}: {out['stderr']}")
        st = meta["stopped"]
        known = st["known"]
        want_mod = {"mid": 0, "body": 0, "callee": 0, "fp": 8, "entry": 8, "leaf": 8}[s["pos"]]
        if st["rsp_mod16"] != want_mod:
            raise vlib.ToolError(f"session {s['name']}: rsp % 16 = {st['rsp_mod16']} at the stop, the stop position is not what the model assumes")
        by = {c["id"]: c for c in s["cases"]}
        action = "call"
        injected = []
        new_before = len(self.rep.records)
        fault = s["fault"] is not None
        broken = False
        nreq_clean = 0
        last_begin = None
        for r in recs:
            if "begin" in r:
                last_begin = r["begin"]
                continue
            if "meta" in r:
                if r["meta"] == "hang":
                    c = by[last_begin]
                    self.compared += 1
                    self.count(f"{s['pos']}:{c['cls']}:hang")
                    self.bad("call_hangs", action, s, c, expected="an answer", in_callee=(s["pos"] == "callee" and c["fn"] == "f2"),
                             actual={"no answer after s": r["secs"], "debuggee": r["debuggee_state"], "syscall": r["debuggee_syscall"]},
                             case={"fn": c["fn"], "args": [a["txt"] for a in c["args"]], "spec": c["cls"]})
                    broken = True
                continue
            c = by[r["id"]]
            self.compared += 1
            d = r["diff"]
            kw = dict(case={"fn": c["fn"], "args": [a["txt"] for a in c["args"]], "route": c.get("route", "console"), "spec": c["cls"]},
                      literals=" ".join(a["txt"] for a in c["args"]))
            n0 = len(self.rep.records)
            self.count(f"{s['pos']}:{c['cls']}:{'panic' if r['ok'] is None else 'ok' if r['ok'] else 'refused'}")
            if fault and not c.get("faulty"):
                nreq_clean = r.get("requests") or []
            if fault and c.get("faulty"):
                self.fault(s, c, r, nreq_clean)
                continue
            if r["ok"] is None:
                stage = "parse" if r["stage"] == "parse_panic" else "call"
                self.bad("literal_parse_panicked" if stage == "parse" else "call_panicked", action, s, c, expected="an answer",
                         actual=r["err"][:300], err=r["err"][:160], **kw)
            elif c["cls"] == "fail" and r["ok"]:
                self.bad("call_made_but_cannot_be_made", action, s, c, expected="error", actual="ok", **kw)
            elif c["cls"] == "ok" and not r["ok"]:
                self.bad("call_refused", action, s, c, expected="ok", actual=r["err"][:300], **kw)
            if d is None:
                if r["ok"] is not None:
                    self.bad("debuggee_lost", action, s, c, expected="a stopped debuggee", actual="no snapshot", **kw)
                continue
            grew = d["log_grew"]
            if r["ok"]:
                if grew != 1:
                    self.bad("not_exactly_once", action, s, c, expected=1, actual=grew, **kw)
                elif r["entries"]:
                    e = r["entries"][0]
                    got = {"id": e["id"], "n": e["n"], "a": e["a"]}
                    if c["cls"] == "ok":
                        want = self.expected_entry(c, known)
                        if got != want:
                            self.bad("wrong_arguments", action, s, c, expected=want, actual=got, **kw)
                        injected.append(want)
                    else:
                        if e["id"] != c["fid"]:
                            self.bad("wrong_function_ran", action, s, c, expected=c["fid"], actual=e["id"], **kw)
                        injected.append(got)
                    if (e["sp"] & 15) != self.calib.get(e["id"], e["sp"] & 15):
                        self.bad("callee_stack_misaligned", action, s, c, expected={"sp%16": self.calib.get(e["id"])},
                                 actual={"sp%16": e["sp"] & 15}, **kw)
            elif r["ok"] is False and grew != 0:
                self.bad("ran_despite_error", action, s, c, expected=0, actual=grew, **kw)
            elif r["ok"] is None:
                injected.extend({"id": e["id"], "n": e["n"], "a": e["a"]} for e in r["entries"])
            # --- state restoration
            if d["regs"]:
                self.bad("register_not_restored", action, s, c, expected="registers as before", actual=d["regs"], regs=sorted(d["regs"]), **kw)
            if d["fp"]:
                self.bad("fp_register_not_restored", action, s, c, expected="fxsave image as before", actual=d["fp"], **kw)
            if d["word"] is not None or d["patched"] is not None:
                self.bad("text_not_restored", action, s, c, expected="text as before (incl. INT3 patches)",
                         actual={"word": d["word"], "patched": d["patched"]}, **kw)
            if d["maps_added"] or d["maps_removed"]:
                self.bad("mapping_changed", action, s, c, expected="same mappings", actual={"added": d["maps_added"], "removed": d["maps_removed"]}, **kw)
            if d["bps"] is not None:
                self.bad("breakpoints_changed", action, s, c, expected=d["bps"][0], actual=d["bps"][1], **kw)
            above = [o for o in d["stack_changed"] if o >= 0]
            red = [o for o in d["stack_changed"] if -128 <= o < 0]
            if above:
                self.bad("stack_above_rsp_changed", action, s, c, expected="unchanged", actual=above[:16], **kw)
            if red and s["pos"] in ("leaf", "fp"):
                live = [o for o in red if -o <= self.pup["leaf_lowest"]]
                self.bad("red_zone_clobbered", action, s, c, expected="the leaf frame's 128 bytes under rsp unchanged",
                         actual={"changed_offsets": red[:24], "live_locals_hit": bool(live)}, **kw)
            # --- drift monitoring
            if c["kind"] != "extra" and r["ok"] is not None:
                self.drift["arg_cases"] += 1
                like = (r["ok"] is not None) and bool(r["ok"]) == bool(c["alg_ok"])
                if like and r["ok"] and r["entries"] and c["alg"]:
                    like = r["entries"][0]["a"][:len(c["alg"])] == [("%x" % known) if a.get("sym") == "KNOWN" else bits_hex(a["bits"]) for a in c["alg"]]
                self.drift["arg_like_model"] += bool(like)
                if not like:
                    vlib.log(f"[c16] arguments unlike the transcription: session {s['name']} case {c['id']} {c['fn']} {kw['literals']}: real ok={r['ok']} "
                             f"entries={r['entries'][:1]} alg_ok={c['alg_ok']}")
            if r["ok"]:
                pv = self.predicted(s)
                self.drift["state_cases"] += 1
                obs_stack = bool(red) and s["pos"] in ("leaf", "fp")
                like = (("stack" in pv) == obs_stack) and not (d["regs"] or d["word"] or d["maps_added"])
                self.drift["state_like_model"] += like
                if not like:
                    vlib.log(f"[c16] state unlike the as-written model: session {s['name']} case {c['id']} {c['fn']}: predicted {sorted(pv)}, red zone changed: {bool(red)}")
            if len(self.samples) < 4 and r["ok"] and c["cls"] == "ok" and c["kind"] in ("sweep", "single") and any(a["txt"].startswith("-") for a in c["args"]):
                self.samples.append({"session": s["name"], "call": f"call {c['fn']} " + " ".join(a["txt"] for a in c["args"]),
                                     "spec_entry": self.expected_entry(c, known), "real_entry": r["entries"][0] if r["entries"] else None,
                                     "state_diff": {k: v for k, v in d.items() if v not in (None, [], {}, 0) and k != "stack_changed"}})
            if len(self.rep.records) > n0 and any(x["class"] not in SESSION_SAFE for x in self.rep.records[n0:]):
                broken = True
                break       # the session's later observations are consequences
        if fault or broken:
            return
        lost = meta.get("lost")
        fin = meta.get("finished")
        if s["finish"] and not lost:
            if not fin:
                raise vlib.ToolError(f"session {s['name']} did not finish: {out['stderr']}")
            self.continuation(s, st, fin, injected)
        elif lost and len(self.rep.records) == new_before:
            raise vlib.ToolError(f"session {s['name']} was lost without an explanation: {lost}")

    def continuation(self, s, st, fin, injected):
        exp_lines, k = [], 0
        L0 = st["log_len"]
        for l in self.native_lines:
            if l.startswith("LOG "):
                exp_lines.append(f"LOG {int(l.split()[1]) + len(injected)}")
            elif l.startswith("E "):
                if k == L0:
                    exp_lines.extend(None for _ in injected)
                exp_lines.append(l)
                k += 1
            else:
                exp_lines.append(l)
        got = fin["stdout"].splitlines()
        diffs = []
        if len(got) != len(exp_lines):
            diffs.append("line_count")
        else:
            j = 0
            for g, e in zip(got, exp_lines):
                if e is None:
                    w = injected[j]
                    j += 1
                    f = g.split()
                    if len(f) != 11 or [int(f[1]), int(f[2])] + f[4:] != [w["id"], w["n"]] + w["a"]:
                        diffs.append("injected_entry")
                elif g != e:
                    diffs.append(g.split("=")[0].split()[-1] if g.startswith("R ") else g.split()[0])
        want_stops = []
        if s["pos"] == "callee" and s["keep_bp"]:
            want_stops.append("f2")          # the program's own later call of f2
        if "f0" in s["extra_bps"]:
            want_stops.append("f0")
        stops = [x.get("in_fn") or x["kind"] for x in fin["stops"][:-1]]
        last = fin["stops"][-1] if fin["stops"] else {}
        self.compared += 1
        if stops != want_stops or last.get("kind") != "exit":
            self.bad("later_breakpoints_not_as_before", "continue", s, None, expected=want_stops + ["exit"], actual=fin["stops"])
        if diffs or last.get("code") != self.pup["native_rc"]:
            vlib.log(f"[c16] continuation of session {s['name']} differs: {sorted(set(diffs))} exit {last.get('code')} vs {self.pup['native_rc']}; "
                     f"lines {len(got)} vs {len(exp_lines)}")
            self.bad("continuation_differs", "continue", s, None, diff_lines=",".join(sorted(set(diffs))) or "exit_code",
                     expected={"exit": self.pup["native_rc"], "stdout": [e for e in exp_lines if e and not e.startswith("E ")]},
                     actual={"exit": last.get("code"), "stdout": [g for g in got if not g.startswith("E ")]})
        if len(self.samples) < 6 and not diffs:
            self.samples.append({"session": s["name"], "continue": "stdout and exit code equal the native run plus the injected log entries",
                                 "injected_entries": len(injected), "exit": last.get("code")})

    def fault(self, s, c, r, nreq_clean):
        """One ptrace request of the call failed with ESRCH: compare with the as-written machine (diagnostic only)."""
        k = s["fault"]["nth"]
        # align the code's request sequence (recorded for the clean probe call) with the model's steps: everything
        # before the PEEK that precedes the first GETREGS is the disable loop, everything after X2 the enable loop
        clean = list(nreq_clean)
        i = clean.index(12) - 1 if 12 in clean else -1
        seq = ["D"] * max(i, 0) + MODEL_STEPS + ["E"] * max(len(clean) - i - len(MODEL_STEPS), 0)
        rem = 0 if i >= 0 and len(seq) == len(clean) else 1
        kinds = {"S1": (1, 2), "S2": (12,), "M5": (12,), "J5": (12,), "U5": (12,), "M3": (9,), "J3": (9,), "U3": (9,), "C3": (7,),
                 "M1": (13,), "J1": (13,), "C2": (13,), "R1": (13,), "U2": (13,), "X1": (13,), "D": (1, 2, 4, 5), "E": (1, 2, 4, 5)}
        step = seq[k] if rem == 0 and k < len(seq) else None
        if rem == 0 and any(q not in kinds.get(st, (4, 5)) for q, st in zip(clean, seq)):
            step = None                  # the code's request sequence is not the one the model lists
        if step and r["failed_request"] not in kinds.get(step, (4, 5)):
            step = None
        d = r["diff"] or {}
        obs = set()
        if r["ok"] is None:
            obs.add("report")
        if d.get("regs"):
            obs.add("regs")
        text_changed = d.get("word") is not None and d["word"][0][1:] != d["word"][1][1:]
        if text_changed:
            obs.add("text")
        if d.get("maps_added"):
            obs.add("maps")
        if d.get("patched") is not None and not text_changed:
            obs.add("bps")
        row = {"nth": k, "step": step, "failed_request": r["failed_request"], "real_outcome": "panic" if r["ok"] is None else "ok" if r["ok"] else "err",
               "real_broken": sorted(obs), "err": r["err"][:80]}
        if r["failed_request"] >= 0:
            self.drift["fault_cases"] += 1
            pv = set()
            for t in self.terms:
                if step and t["pos"] == "mid" and t["fp"] == step and t["fk"] == "err" and t["makeable"]:
                    pv |= set(t["violated"]) - {"stack", "log"}
            row["model_broken"] = sorted(pv)
            # after a panic nothing is restored: which parts are then broken depends on the moment, compare "report" only;
            # D and E are loops in the code and one step in the model: compare only whether anything breaks
            if step is None:
                same = False
            elif "report" in pv or "report" in obs:
                same = ("report" in pv) == ("report" in obs)
            elif step in ("D", "E"):
                same = (not obs) or bool(pv)     # the probes see the main object's text only; breakpoints elsewhere are not observed
            else:
                same = pv == obs
            self.drift["fault_like_model"] += same
            row["like_model"] = same
            # the reference does not depend on which request failed: an answer (not a panic), and on an error the
            # debuggee as it was
            state = obs - {"report"}
            if r["ok"] is None or (r["ok"] is False and state) or (r["ok"] and (state or d.get("log_grew") != 1)):
                self.bad("state_not_restored_after_failed_request", "call", s, c, outcome=row["real_outcome"], broken=",".join(sorted(state)),
                         expected="an error (or a completed call) and the debuggee as before", actual=row,
                         case={"fn": c["fn"], "failed ptrace request no.": k, "request": r["failed_request"]})
        self.fault_table.append(row)

    # ---- vard / argd ---------------------------------------------------------------------------------
    def dbg(self, meta, out, seed):
        recs = out["records"]
        m = {r["meta"]: r for r in recs if "meta" in r}
        if out["rc"] != 0 or "done" not in m:
            raise vlib.ToolError(f"harness c16 dbg failed rc={out['rc']}: {out['stderr']}")
        kinds = {v["name"]: v for v in meta["vars"] + meta["args"]}
        s = {"name": "dbg", "pos": "dbg", "keep_bp": True, "extra_bps": [], "heal": False, "finish": True, "fault": None, "cases": []}
        for r in recs:
            if "meta" in r:
                continue
            self.compared += 1
            action = r["cmd"]
            script = {"dbg_seed": seed, "line": r["line"]}
            if r["ok"] is None:
                self.rep.mismatch("render_panicked", action, pos="dbg", name=r["name"], expected="text", actual=r["err"][:300], script=script)
                break
            if not r["ok"]:
                self.rep.mismatch("render_refused", action, pos="dbg", name=r["name"], expected="text", actual=r["err"][:300], script=script)
                continue
            d = r["diff"] or {}
            if d.get("regs") or d.get("word") is not None or d.get("patched") is not None or d.get("maps_added") or d.get("maps_removed") \
                    or d.get("bps") is not None or [o for o in d.get("stack_changed", []) if o >= 0]:
                self.rep.mismatch("state_not_restored_after_render", action, pos="dbg", name=r["name"], expected="state as before",
                                  actual={k: v for k, v in d.items() if v not in (None, [], {}, 0) and k != "stack_changed"}, script=script)
            if d.get("fp"):
                self.rep.mismatch("fp_register_not_restored", action, pos="dbg", name=r["name"], expected="fxsave image as before", actual=d["fp"], script=script)
            if r["name"] == "*":
                names = [v["name"] for v in (meta["vars"] if action == "vard" else meta["args"])]
                want = {n: meta["own"][n] for n in names}
                got = dict(re.findall(r"^(\w+) = (.*)$", r["text"], re.M))
                missing = [n for n in names if n not in got]
                if missing:
                    self.rep.mismatch("render_list_incomplete", action, pos="dbg", name="*", expected=names, actual=sorted(got), script=script)
                continue
            k = kinds[r["name"]]
            text = r["text"].rstrip("\n")
            own = meta["own"].get(r["name"])
            self.count(f"{action}:{k['kind']}")
            if text != f"{r['name']} = {own}":
                fell_back = bool(re.match(rf"^{r['name']} = [\w:<>(), &\[\];']+[({{]", text)) and k["kind"] in ("scalar", "tuple", "array")
                self.rep.mismatch("render_is_not_debug_format", action, pos="dbg", name=r["name"], kind=k["kind"], type=k["type"],
                                  builtin_fallback=fell_back, expected=f"{r['name']} = {own}", actual=text[:400], script=script)
            elif len([x for x in self.samples if "vard" in x or "argd" in x]) < 2 and k["kind"] in ("struct", "vec"):
                self.samples.append({action: r["line"], "debugger": text, "program": own})
        fin = m.get("finished")
        if fin and "lost" not in m:
            self.compared += 1
            code = fin["stops"][-1].get("code") if fin["stops"] else None
            if fin["stdout"] != meta["native_stdout"] or code != meta["native_rc"]:
                self.rep.mismatch("continuation_differs", "continue", pos="dbg", diff_lines="dbg", expected=meta["native_stdout"][-300:],
                                  actual=fin["stdout"][-300:], script={"dbg_seed": seed, "line": "*"})


# classes after which a session's later observations still stand on their own
SESSION_SAFE = {"red_zone_clobbered", "fp_register_not_restored", "callee_stack_misaligned", "call_refused", "wrong_arguments",
                "call_made_but_cannot_be_made", "literal_parse_panicked"}


# ------------------------------------------------------------------------------------------------
def run(rep, tier, replay):
    seed = vlib.seed()
    pup = c16_puppet.build_call()
    pup["native_stdout"], pup["native_rc"] = native(pup["exe"])
    dmeta = c16_puppet.build_dbg(seed, nvars=24 if tier == "quick" else 60)
    dmeta["native_stdout"], dmeta["native_rc"] = native(dmeta["exe"])
    exe = vlib.cargo_build("c16")
    if replay:
        rec = json.loads(Path(replay).read_text())
        sc = rec["script"]
        cmp = Cmp(rep, pup, [])
        if "dbg_seed" in sc:
            dm = c16_puppet.build_dbg(sc["dbg_seed"], nvars=24 if tier == "quick" else 60)
            dm["native_stdout"], dm["native_rc"] = native(dm["exe"])
            cmp.dbg(dm, run_dbg(exe, dm, "replay"), sc["dbg_seed"])
            want = rec.get("name")
            rep.records = [r for r in rep.records if r.get("name") == want and r["class"] == rec["class"]] or \
                          [r for r in rep.records if r["class"] == rec["class"]][:1]
        else:
            s = dict(sc["session"], cases=sc["cases"])
            cmp.session(s, run_session(exe, pup, s, "replay"))
        return rep.finish("model_checking", {"states": 1, "transitions": 1, "traces_validated_against_impl": cmp.compared,
                                             "samples": [rec.get("case") or rec.get("name") or sc], "replay_of": str(replay)})
    runs = TlcRuns(tier)
    cases = emitted_cases(runs.get("CallInject_G.cfg"))
    t1 = __import__("time").time()
    vlib.log(f"[c16] TLC cases after {t1 - rep.t0:.0f}s: {len(cases)}")
    sessions = plan(tier, cases, seed)
    with ThreadPoolExecutor(max_workers=4) as ex:
        futs = [(s, ex.submit(run_session, exe, pup, s, tier)) for s in sessions]
        fd = ex.submit(run_dbg, exe, dmeta, tier)
        outs = [(s, f.result()) for s, f in futs]
        dout = fd.result()
    vlib.log(f"[c16] harness done {__import__('time').time() - t1:.0f}s")
    res = runs.all()
    terms = emitted_terms(res)
    vlib.log(f"[c16] TLC machines done {__import__('time').time() - rep.t0:.0f}s: {len(terms)} terminal states")
    cmp = Cmp(rep, pup, terms)
    for s, o in outs:
        cmp.session(s, o)
    cmp.dbg(dmeta, dout, seed)

    summary = {}
    for r in rep.records:
        k = f"{r['class']}@{r.get('pos')}" + (f"/{r.get('fn')}" if r["class"] in ("call_panicked", "call_hangs", "literal_parse_panicked") else "")
        summary[k] = summary.get(k, 0) + 1
    vlib.log("[c16] disagreements by class@position:", json.dumps(summary, sort_keys=True))
    d = cmp.drift
    bound = d["arg_cases"] > 0 and d["arg_like_model"] == d["arg_cases"] and d["state_like_model"] == d["state_cases"] \
        and d["fault_like_model"] == d["fault_cases"]
    if not bound:
        vlib.log(f"MODEL-DRIFT: the as-written transcriptions in CallInject.tla no longer predict the code: {d} "
                 f"-- verdicts use the reference (Expect / post-conditions) only")
    akey = "CallInject_A.cfg" if "CallInject_A.cfg" in res else "CallInject_Aq.cfg"
    pred = {}
    for t in terms:
        if t["pos"] == "callee" and t["fp"] != "none":
            continue                 # the call never gets as far as the fault
        for v in t["violated"]:
            pred.setdefault(v, set()).add(f"{t['fp']}/{t['fk']}" + (f"@{t['pos']}" if t["fp"] == "none" else ""))
    exh = [k for k in res if "#" not in k]
    cov = {
        "states": sum(res[k].distinct for k in exh),
        "transitions": sum(res[k].generated for k in exh),
        "traces_validated_against_impl": cmp.compared,
        "samples": cmp.samples or [cases[0]],
        "tlc": {k: {"distinct": r.distinct, "generated": r.generated, "violated": r.violated, "wall_s": round(r.wall, 1)} for k, r in res.items()},
        "cases_from_tlc": len(cases), "terminal_states_as_written": len(terms),
        "sessions": {s["name"]: len(s["cases"]) for s in sessions},
        "observations_by_kind": cmp.counts,
        "model_predictions_as_written": {k: sorted(v) for k, v in pred.items()},
        "fault_injection": cmp.fault_table,
        "model_bound": bool(bound), "drift": d, "exhaustive": True,
    }
    return rep.finish("model_checking", cov, assumptions=ASSUMPTIONS)

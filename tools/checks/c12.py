"""C12 — the DAP adapter speaks the protocol correctly for any request history.

TLC decides the property on the model (spec/DapWire.tla) and on every recorded session of the REAL
adapter (spec/TraceDap.tla); this module only orchestrates: builds scripts from TLC behaviours, runs the
harness (harness/src/bin/c12.rs), annotates/concatenates traces, parses TLC's verdicts.
See design/C12.md.
"""
import concurrent.futures as cf
import hashlib
import json
import os
import random
import re
import signal
import subprocess
import time
from pathlib import Path

import vlib

from . import c12_requests as RQ

PUPPET_SRC = vlib.VERIF / "puppets" / "c12" / "c12_puppet.rs"
FAST = bool(os.environ.get("C12_FAST"))       # development (mutant sweeps): skip the big (E) run and the cover
DEV = bool(os.environ.get("VERIF_DEV"))      # development: serial, 2 TLC workers, 3 sessions at a time
FLAGS = ["SeqUnderLock", "RespondAfter", "FwdHonoursTerm", "InitViaQueue", "ClearCache"]
ASIS = {"a": "WireSeqOrdered", "b": "OneResponsePerRequest", "c": "NoEventAfterTerminated",
        "f": "EventsOnceAndCausal",      # f = mutation family DrainKeepsTerm (DapWire_mut_stale.cfg), not a defect of /repo
        "d": "NoEventAfterTerminated", "e": "EventsOnceAndCausal"}
PROP_OF = {
    "seq_out_of_order": "WireSeqOrdered",
    "duplicate_response": "OneResponsePerRequest", "missing_response": "OneResponsePerRequest",
    "unmatched_response": "OneResponsePerRequest",
    "event_after_terminated": "NoEventAfterTerminated",
    "failure_not_error": "FailureIsErrorResponse", "connection_dropped": "FailureIsErrorResponse",
}


def build_puppet():
    src = PUPPET_SRC.read_bytes()
    ver = subprocess.run(["rustc", "+1.89", "-vV"], capture_output=True, text=True).stdout
    h = hashlib.sha1(src + ver.encode()).hexdigest()[:12]
    out = vlib.PUPPET_BUILD / f"c12_puppet-{h}"
    if not out.exists():
        vlib.PUPPET_BUILD.mkdir(parents=True, exist_ok=True)
        tmp = str(out) + f".tmp{os.getpid()}"
        vlib.sh(["rustc", "+1.89", "--edition", "2021", "-g", str(PUPPET_SRC), "-o", tmp], timeout=300)
        os.replace(tmp, out)
    return str(out)


# ------------------------------------------------------------------------------------------------
# TLC on the model
# ------------------------------------------------------------------------------------------------
def beh_from_alias(out):
    """Last state of a counterexample printed through ALIAS BehAlias (a JSON string)."""
    ms = re.findall(r'beh = "((?:[^"\\]|\\.)*)"', out)
    if not ms:
        return None
    return json.loads(vlib.tla_unescape(ms[-1]))


def asis_keys(tier):
    """a, b, d, e are repaired in /repo (fix: commits): their counterexamples are replayed in the thorough tier only."""
    return ["b", "c", "f"] if tier == "quick" else list(ASIS)   # b and c are still in the code (known findings)


def asis_cfg(k):
    return "DapWire_mut_stale.cfg" if k == "f" else f"DapWire_asis_{k}.cfg"


def run_models(tier, workers_each, sim):
    jobs = {"fixed": ("DapWire_fixed.cfg" if tier == "quick" else "DapWire_fixed_thorough.cfg",
                      dict(coverage=(tier == "thorough")))}
    for k in asis_keys(tier):
        jobs["asis_" + k] = (asis_cfg(k), {})
    jobs["relaunch"] = ("DapWire_relaunch.cfg" if tier == "quick" else "DapWire_relaunch_thorough.cfg", dict(coverage=True))
    if tier == "thorough":
        jobs["fixed_full"] = ("DapWire_fixed_full.cfg", {})     # 3 requests, full universe, 2 lines per forwarder
    if FAST:
        del jobs["fixed"]
    res = {}

    def one(name):
        cfg, kw = jobs[name]
        w = 2 if DEV else (workers_each if name == "fixed" else 2)
        return name, vlib.tlc("DapWireMC", cfg, workers=w, heap="3g", timeout=1500, name=f"c12-{name}", **kw)

    # registered runs: three chains next to each other (4 + 2 + 2 = 8 TLC workers): the big (E) run, the small
    # counterexample runs, and the relaunch enumeration followed by the G simulation
    if DEV:
        for name in jobs:
            res[name] = one(name)[1]
        res["G"] = simulate_behaviours(*sim)
        return res
    with cf.ThreadPoolExecutor(max_workers=3) as ex:
        big = ex.submit(one, "fixed") if "fixed" in jobs else None
        small = ex.submit(lambda: [one(n) for n in jobs if n not in ("fixed", "relaunch")])
        third = ex.submit(lambda: (one("relaunch"), simulate_behaviours(*sim)))
        if big:
            res["fixed"] = big.result()[1]
        for name, r in small.result():
            res[name] = r
        (name, r), g = third.result()
        res[name], res["G"] = r, g
    return res


def simulate_behaviours(n, depth, seed):
    r = vlib.tlc("DapWireMC", "DapWire_G.cfg", workers=2, simulate=n, depth=depth, seed_arg=seed, heap="2g",
                 timeout=300, name="c12-G")
    vlib.tlc_expect_ok(r, "DapWire G simulation")
    return vlib.printed(r.out, "BEH"), r


# ------------------------------------------------------------------------------------------------
# scripts
# ------------------------------------------------------------------------------------------------
def holds_from_order(order, max_ms=250):
    """Writer order of a TLC behaviour -> hold rules for the schedule controller: the k-th send of p is held
    until every other writer has written as many messages as precede it in the behaviour."""
    holds, nth = [], {}
    for j, p in enumerate(order):
        nth[p] = nth.get(p, 0) + 1
        until = []
        for q in ("sess", "fout", "ferr"):
            if q != p:
                c = sum(1 for x in order[:j] if x == q)
                if c:
                    until.append({"p": q, "n": c})
        # only forwarder-related constraints can ever bind (the session is sequential)
        if until and (p != "sess" or any(u["p"] != "sess" for u in until)):
            holds.append({"p": p, "nth": nth[p], "until": [u for u in until if not (p == "sess" and u["p"] == "sess")],
                          "max_ms": max_ms})
    return holds


def script_from_beh(beh, puppet, sid, lines=(1, 1, 1, 1)):
    """TLC behaviour (requests as <<class, shape>>, writer order, seqs) -> concrete session script."""
    order, seqs = beh["order"], beh["seqs"]
    first = {}
    for p, s in zip(order, seqs):
        first.setdefault(p, s)
    err_first = 1 if first.get("ferr", 1 << 30) < first.get("fout", 1 << 30) else 0
    args = [lines[0], lines[1], lines[2], lines[3], 0, 40, err_first]
    reqs = [RQ.concrete(c, s, puppet, args) for c, s in beh["reqs"]]
    return {"id": sid, "requests": reqs, "holds": holds_from_order(order), "origin": "tlc",
            "beh": {"reqs": beh["reqs"], "order": "".join(x[1] for x in order)}}


def cover_select(behs, limit, rnd):
    """Greedy transition cover over abstract transitions: (class, shape) of every request in its position
    context (previous request) and every adjacent writer pair involving a forwarder."""
    def feats(b):
        f = set()
        prev = ("start", "")
        for c in b["reqs"]:
            f.add(("req", tuple(prev), tuple(c)))
            prev = c
        o = b["order"]
        for x, y, k in zip(o, o[1:], b["kinds"][1:]):
            if x != "sess" or y != "sess":
                f.add(("w", x, y, k if y == "sess" else "output"))
        for v in b.get("viol", []):
            f.add(("viol", v))
        return f
    pool = [(b, feats(b)) for b in behs]
    rnd.shuffle(pool)
    covered, chosen = set(), []
    while pool and len(chosen) < limit:
        best = max(pool, key=lambda bf: len(bf[1] - covered))
        gain = best[1] - covered
        if not gain:
            break
        chosen.append(best[0])
        covered |= best[1]
        pool.remove(best)
    allf = set()
    for b in behs:
        allf |= feats(b)
    return chosen, len(covered), len(allf)


# ------------------------------------------------------------------------------------------------
# running the real adapter
# ------------------------------------------------------------------------------------------------
def run_session(exe, script, outdir, puppet, timeout=200):
    sid = script["id"]
    script = dict(script)
    script.setdefault("req_timeout_ms", 60000)      # generous: `launch` parses DWARF, the machine may be loaded
    sp, tp = outdir / f"{sid}.json", outdir / f"{sid}.ndjson"
    sp.write_text(json.dumps(script))
    if tp.exists():
        tp.unlink()
    env = dict(os.environ, C12_PUPPET=puppet, RUST_BACKTRACE="0")
    p = subprocess.Popen([str(exe), "run", str(sp), str(tp)], env=env, stdout=subprocess.DEVNULL,
                         stderr=subprocess.PIPE, start_new_session=True)
    status = "ok"
    try:
        _, err = p.communicate(timeout=timeout)
        if p.returncode == 2:
            raise vlib.ToolError(f"c12 harness tool error in {sid}: {err.decode()[-500:]}")
        if p.returncode != 0:
            status = f"crash rc={p.returncode}"
    except subprocess.TimeoutExpired:
        status = "watchdog"
    finally:
        try:
            os.killpg(p.pid, signal.SIGKILL)
        except ProcessLookupError:
            pass
        if status == "watchdog":
            p.communicate()
    ev = []
    if tp.exists():
        try:
            ev = vlib.ndjson_read(tp)
        except ValueError:
            ev = []
    if ev and ev[-1].get("ev") == "eof":
        status = "ok"              # the harness ends by killing its own process group
    return sid, status, ev


def annotate(events):
    """Lookahead hints for TraceDap (they can only make the model reject, never accept a wrong trace):
    seqs per writer on the session header, plan shape (qa, qb, qok) on every request."""
    seqs = {"sess": [], "fout": [], "ferr": []}
    for e in events:
        if e["ev"] == "wire" and e.get("by") in seqs:
            seqs[e["by"]].append(e["seq"])
    out = []
    for i, e in enumerate(events):
        e = dict(e)
        if e["ev"] == "session_start":
            e["seqs"] = seqs
        if e["ev"] == "request":
            qa = qb = 0
            qok, seen, qlast = True, False, True
            for f in events[i + 1:]:
                if f["ev"] in ("read_begin", "session_end", "read_eof", "request"):
                    break
                if f["ev"] == "wire" and f.get("by") == "sess":
                    if f["type"] == "response":
                        qlast = bool(f["success"])
                    if f["type"] == "response" and not seen:
                        seen, qok = True, bool(f["success"])
                    elif f["type"] == "event":
                        if seen:
                            qb += 1
                        else:
                            qa += 1
            e.update(qa=qa, qb=qb, qok=qok, qlast=qlast)
            for k in ("cls", "shape", "command"):
                if not isinstance(e.get(k), str):
                    e[k] = str(e.get(k))
            if not isinstance(e.get("seq"), int):
                e["seq"] = -1
        if e["ev"] == "wire":
            for k, d in (("seq", -1), ("request_seq", 0)):
                if not isinstance(e.get(k), int) or isinstance(e.get(k), bool):
                    e[k] = d
            if not isinstance(e.get("success"), bool):
                e["success"] = False
            if "threadId" in e and not isinstance(e["threadId"], int):
                e["threadId"] = 0
            for k in ("name", "type", "by"):
                if not isinstance(e.get(k), str):
                    e[k] = "?"
            e.pop("message", None)
            e.pop("body_shape", None)
        out.append(e)
    return out


def tlc_trace(path, cfg, name):
    r = vlib.tlc("TraceDap", cfg, workers=1, dfs=True, heap="3g", timeout=900, name=name,
                 env={"TRACE": str(path)})
    res = vlib.printed(r.out, "RESULT")
    if not res or not isinstance(res[-1], dict):
        raise vlib.ToolError(f"TraceDap produced no RESULT for {path} ({cfg}):\n{r.out[-2500:]}")
    return res[-1], r


def validate(sessions, workdir, tag, stats):
    """sessions: list of (sid, annotated events).  Returns {sid: {"bound": bool, "viol": [...], "reject": ...}}.
    Model-bound validation first (batch); a session the model cannot follow is drift and is decided by the
    reference monitor alone."""
    verdict = {}
    todo = list(sessions)
    drifted = []
    rounds = 0
    while todo:
        rounds += 1
        path = workdir / f"batch-{tag}-{rounds}.ndjson"
        rows, owner = [], []
        for sid, ev in todo:
            for e in ev:
                rows.append(e)
                owner.append(sid)
        vlib.ndjson_write(path, rows, tla=True)
        res, r = tlc_trace(path, os.environ.get("C12_TRACE_CFG", "TraceDap_model_current.cfg"), f"c12-V-{tag}-{rounds}")
        stats["tlc_trace_runs"] += 1
        stats["trace_states"] += r.distinct
        consumed = res["consumed"]
        by_sid = {}
        for v in res["viol"]:
            by_sid.setdefault(owner[v["l"] - 1], []).append(dict(v["v"], line=v["l"]))
        if consumed >= len(rows):
            for sid, _ in todo:
                verdict[sid] = {"bound": True, "viol": by_sid.get(sid, [])}
            break
        bad = owner[consumed]          # session holding the first unmatched event
        idx = [i for i, (sid, _) in enumerate(todo) if sid == bad][0]
        for sid, _ in todo[:idx]:
            verdict[sid] = {"bound": True, "viol": by_sid.get(sid, [])}
        first = sum(len(ev) for _, ev in todo[:idx])
        drifted.append((todo[idx], {"prefix": consumed - first, "of": len(todo[idx][1]), "event": rows[consumed]}))
        todo = todo[idx + 1:]
    if drifted:
        path = workdir / f"batch-{tag}-mon.ndjson"
        rows, owner = [], []
        for (sid, ev), _ in drifted:
            for e in ev:
                rows.append(e)
                owner.append(sid)
        vlib.ndjson_write(path, rows, tla=True)
        res, r = tlc_trace(path, "TraceDap_mon.cfg", f"c12-V-{tag}-mon")
        stats["tlc_trace_runs"] += 1
        if res["consumed"] < len(rows):
            raise vlib.ToolError(f"reference monitor could not consume {path} at line {res['consumed'] + 1}: "
                                 f"{rows[res['consumed']]}")
        by_sid = {}
        for v in res["viol"]:
            by_sid.setdefault(owner[v["l"] - 1], []).append(dict(v["v"], line=v["l"]))
        for (sid, _), why in drifted:
            verdict[sid] = {"bound": False, "viol": by_sid.get(sid, []), "reject": why}
    return verdict


def state_of(ev, upto):
    """Coarse description of where the session was (for narrow known-finding matches): derived from the
    observations only."""
    st = "none"
    for e in ev[:upto]:
        if e["ev"] == "wire":
            if e["type"] == "response" and e["name"] == "launch" and e["success"]:
                st = "unloaded"
            elif e["type"] == "event" and e["name"] == "stopped":
                st = "stopped"
            elif e["type"] == "event" and e["name"] == "exited":
                st = "exited"
            elif e["type"] == "event" and e["name"] == "terminated" and st != "exited":
                st = "none"
    return st


def report(rep, script, status, ev, verdict, stats):
    sid = script["id"]
    short = {"id": sid, "requests": [{k: r[k] for k in ("command", "arguments", "cls", "shape") if k in r}
                                      for r in script["requests"]], "holds": script.get("holds", [])}
    if status != "ok" or any(e["ev"] in ("hang", "bad_stream") for e in ev) or not ev:
        cls = "session_hang" if (status == "watchdog" or any(e["ev"] == "hang" for e in ev)) else \
              ("bad_framing" if any(e["ev"] == "bad_stream" for e in ev) else "harness_crash")
        last = [e for e in ev if e["ev"] == "request"]
        rep.mismatch(cls, last[-1]["command"] if last else "none", expected="every request answered",
                     actual=status, script=short, property_clause="OneResponsePerRequest")
        return
    end = [e for e in ev if e["ev"] == "session_end"]
    if end and str(end[0].get("result", "")).startswith("panic"):
        last = [e for e in ev if e["ev"] == "request"]
        rep.mismatch("session_panic", last[-1]["command"] if last else "none", expected="error response",
                     actual=end[0]["result"][:300], script=short, property_clause="FailureIsErrorResponse")
    if not verdict["bound"]:
        stats["drift"] += 1
        w = verdict["reject"]
        vlib.log(f"MODEL-DRIFT: session {sid}: DapWire follows {w['prefix']} of {w['of']} events; first unmatched "
                 f"{json.dumps(w['event'])[:300]}")
        rep.notes.append({"model_drift": sid, "prefix": w["prefix"], "event": w["event"]})
    seen = set()
    for v in verdict["viol"]:
        # locate the request being served and the offending message
        cls = v["c"]
        action = v["a"]
        key = (cls, action)
        if key in seen:
            continue
        seen.add(key)
        # the command whose handling shows the violation + where the session was when it was read
        reqs = [(i, e) for i, e in enumerate(ev) if e["ev"] == "request"]
        at = v.get("sline", None)
        cmd, st = "none", "none"
        if at is not None:
            prior = [(i, e) for i, e in reqs if i <= at]
            if prior:
                cmd = prior[-1][1]["command"]
                st = state_of(ev, prior[-1][0])
        # defect (a) can only show once a forwarder has taken a sequence number
        # (the log position of a `sched` event may trail the fetch_add it reports, so also: a forwarder message
        # with a smaller sequence number appears later on the wire, or the offender is a forwarder itself)
        a0 = at or 0
        xseq = ev[a0].get("seq", 0) if at is not None and ev[a0]["ev"] == "wire" else 0
        fwd_active = (any(e["ev"] == "sched" and e.get("p") in ("fout", "ferr") for e in ev[:a0 + 1])
                      or (at is not None and ev[a0].get("by") in ("fout", "ferr"))
                      or any(e["ev"] == "wire" and e.get("by") in ("fout", "ferr") and isinstance(e.get("seq"), int)
                             and e["seq"] < xseq for e in ev[a0 + 1:]))
        rep.mismatch(cls, action, command=cmd, state=st, fwd_active=fwd_active, property_clause=PROP_OF.get(cls, "EventsOnceAndCausal"),
                     expected="reference (DapWire monitor) holds at every step of the recorded session",
                     actual=f"{cls} at trace event {at}: {json.dumps(ev[at])[:240] if at is not None else ''}",
                     model_bound=verdict["bound"], script=short)


# ------------------------------------------------------------------------------------------------
def run(rep, tier, replay):
    t0 = time.time()
    rnd = random.Random(vlib.seed())
    puppet = build_puppet()
    work = vlib.WORK / "c12" / f"run-{os.getpid()}"
    work.mkdir(parents=True, exist_ok=True)
    stats = {"tlc_trace_runs": 0, "trace_states": 0, "drift": 0}

    if replay:
        rec = json.loads(Path(replay).read_text())
        exe = vlib.cargo_build("c12")
        scripts = [dict(rec["script"], id="replay")]
        models = None
    else:
        with cf.ThreadPoolExecutor(max_workers=2) as ex:
            fb = ex.submit(vlib.cargo_build, "c12")
            nsim, ncover = (300, 24) if tier == "quick" else (2000, 150)
            if FAST:
                nsim, ncover = 40, 4
            fm = ex.submit(run_models, tier, 4 if tier == "quick" else 6, (nsim, 400, vlib.seed()))
            exe, models = fb.result(), fm.result()
        if FAST:                     # development only: no big (E) run; numbers of a small run stand in
            import copy
            models["fixed"] = copy.copy(models["asis_f"])
            models["fixed"].violated = None
        fixed = models["fixed"]
        vlib.tlc_expect_ok(fixed, "DapWire fixed (E)")
        if "fixed_full" in models:
            vlib.tlc_expect_ok(models["fixed_full"], "DapWire fixed full (E)")
            if models["fixed_full"].violated:
                raise vlib.ToolError(f"the repaired model (full) violates {models['fixed_full'].violated}")
        if fixed.violated:
            raise vlib.ToolError(f"the repaired model violates {fixed.violated}: model/reference inconsistent\n"
                                 + fixed.out[-1500:])
        if tier == "thorough":
            vac = vlib.vacuous_actions(fixed, ignore=("TakeSeq",))   # TakeSeq is disabled by SeqUnderLock
            if vac:
                raise vlib.ToolError(f"vacuous actions in DapWire_fixed: {vac}")
        scripts = []
        cex = {}
        for k in asis_keys(tier):
            inv = ASIS[k]
            r = models["asis_" + k]
            vlib.tlc_expect_ok(r, f"DapWire as written ({k})")
            beh = beh_from_alias(r.out) if r.violated else None
            if r.violated != inv or not beh:
                raise vlib.ToolError(f"as-written model ({k}) no longer violates {inv} (got {r.violated}); "
                                     "update DapWire.tla/known findings")
            cex[k] = beh
            s = script_from_beh(beh, puppet, f"cex-{k}", lines=(1, 1, 1, 1) if k in "acf" else (0, 0, 0, 0))
            s["origin"] = f"counterexample({k}:{inv})"
            scripts.append(s)
        # relaunch histories (terminated -> requests that enqueue while terminated -> launch -> run to exit),
        # enumerated by TLC from the model of the current code; ExecEnqTerm must have fired
        rel = models["relaunch"]
        vlib.tlc_expect_ok(rel, "DapWire relaunch (G)")
        if rel.violated:
            raise vlib.ToolError(f"model of the current code violates {rel.violated} on a relaunch history\n" + rel.out[-1500:])
        if rel.coverage.get("ExecEnqTerm", (0, 0))[1] == 0:
            raise vlib.ToolError("vacuous: ExecEnqTerm never fired in the relaunch enumeration")
        seen_rel = {}
        for b in vlib.printed(rel.out, "BEH"):
            if isinstance(b, dict):
                seen_rel.setdefault(json.dumps(b["reqs"]), b)
        if len(seen_rel) < 10:
            raise vlib.ToolError(f"relaunch enumeration printed only {len(seen_rel)} histories")
        for i, b in enumerate(seen_rel.values()):
            sc = script_from_beh(b, puppet, f"rel-{i:03d}")
            sc["origin"] = "relaunch history (TLC enumeration)"
            scripts.append(sc)
        stats["relaunch_histories"] = len(seen_rel)
        behs, rsim = models["G"]
        if len(behs) < nsim // 8:
            raise vlib.ToolError(f"G simulation printed only {len(behs)} finished behaviours of {nsim}")
        chosen, ncov, nall = cover_select(behs, ncover, rnd)
        stats.update(sim_behaviours=len(behs), cover_features=ncov, cover_features_seen=nall)
        for i, b in enumerate(chosen):
            scripts.append(script_from_beh(b, puppet, f"cov-{i:03d}"))
        scripts += RQ.recorded_sessions(puppet, tier, rnd)
    ids = [s["id"] for s in scripts]
    if len(set(ids)) != len(ids):
        raise vlib.ToolError("duplicate session ids")

    # ---- run the real adapter ----
    results = {}
    with cf.ThreadPoolExecutor(max_workers=6) as ex:
        futs = [ex.submit(run_session, exe, s, work, puppet) for s in scripts]
        for f in futs:
            sid, status, ev = f.result()
            results[sid] = (status, ev)
    # A session that left no complete trace, or in which a request was not answered within the (generous)
    # timeout, is re-run alone.  If it persists it is a TOOL ERROR (exit 2), never a VIOLATION: on the unchanged
    # tree such hangs were only ever seen in `launch` under heavy machine load and could not be attributed to the
    # adapter (Child::install waits on -1; DWARF loading is slow under load).
    def incomplete(sid):
        st, ev = results[sid]
        return st != "ok" or not ev or any(e["ev"] in ("hang", "bad_stream") for e in ev)
    for s in scripts:
        if incomplete(s["id"]):
            vlib.log(f"[c12] session {s['id']}: incomplete ({results[s['id']][0]}), re-running alone")
            stats["retried"] = stats.get("retried", 0) + 1
            sid, status, ev = run_session(exe, s, work, puppet, timeout=300)
            results[sid] = (status, ev)
            if incomplete(sid):
                last = [e for e in ev if e["ev"] == "request"]
                raise vlib.ToolError(f"session {sid} hung/crashed twice (status {status}, last request "
                                     f"{last[-1]['command'] if last else 'none'}); trace {work}/{sid}.ndjson")
    t_run = time.time()

    # ---- validate every recorded session with TLC ----
    good = [(s["id"], annotate(results[s["id"]][1])) for s in scripts
            if results[s["id"]][0] == "ok" and results[s["id"]][1]
            and not any(e["ev"] in ("hang", "bad_stream") for e in results[s["id"]][1])]
    verdicts = {}
    B = 40
    batches = [good[i:i + B] for i in range(0, len(good), B)]
    with cf.ThreadPoolExecutor(max_workers=1 if DEV else 4) as ex:
        for v in ex.map(lambda ib: validate(ib[1], work, f"b{ib[0]}", stats), list(enumerate(batches))):
            verdicts.update(v)
    bound = 0
    for s in scripts:
        sid = s["id"]
        status, ev = results[sid]
        vd = verdicts.get(sid, {"bound": False, "viol": [], "reject": {"prefix": 0, "of": len(ev), "event": {}}})
        if sid in verdicts:
            if vd["bound"]:
                bound += 1
            for v in vd["viol"]:
                v["sline"] = _locate(v, ev)
        report(rep, s, status, ev, vd, stats)

    # ---- evidence ----
    samples = []
    for s in scripts[:3] + scripts[-2:]:
        ev = results[s["id"]][1]
        samples.append({"id": s["id"], "origin": s.get("origin"),
                        "requests": [r["command"] for r in s["requests"]],
                        "wire": [(e["by"], e["seq"], e["type"][0] + ":" + str(e["name"])) for e in ev if e["ev"] == "wire"][:40]})
    cov = {"traces_validated_against_impl": len(verdicts), "sessions_run": len(scripts),
           "sessions_model_bound": bound, "model_drift_sessions": stats["drift"],
           "wire_messages_validated": sum(1 for s in scripts for e in results[s["id"]][1] if e["ev"] == "wire"),
           "requests_sent": sum(1 for s in scripts for e in results[s["id"]][1] if e["ev"] == "request"),
           "tlc_trace_runs": stats["tlc_trace_runs"], "trace_validation_states": stats["trace_states"],
           "model_bound": stats["drift"] == 0, "samples": samples,
           "wall_model_s": round(t_run - t0, 1)}
    if models:
        fixed = models["fixed"]
        cov.update(states=fixed.distinct, transitions=fixed.generated, depth=fixed.depth,
                   exhaustive=True,
                   as_written_counterexamples={k: {"invariant": ASIS[k], "requests": cex[k]["reqs"],
                                                   "writers": "".join(x[1] for x in cex[k]["order"]),
                                                   "states": models["asis_" + k].distinct} for k in cex},
                   relaunch_histories=stats.get("relaunch_histories"),
                   sim_behaviours=stats.get("sim_behaviours"), cover_features=stats.get("cover_features"),
                   cover_features_seen=stats.get("cover_features_seen"))
    else:
        cov.update(states=max(1, stats["trace_states"]), transitions=max(1, stats["trace_states"]))
    return rep.finish("model_checking", cov, assumptions=[
        "in-memory DapTransport (channel-fed, blocks in read while the session holds the mutex) stands for stdio/TCP",
        "single-threaded puppet; requests labelled (class, shape) by the script generator",
        "exhaustive model bounds: see spec/DapWire_fixed.cfg and DapWire_asis_*.cfg",
        "kernel/ptrace behaviour is not modelled here (C09/C10/C11)"])


QUIET = {"missing_response", "missing_stop_event", "duplicate_stop_event", "duplicate_continued_event",
         "spurious_stop_event", "events_for_failed_request", "connection_dropped"}


def _locate(v, ev):
    """Index of the session event at which the reference recorded v (`at` = observations consumed before)."""
    k = 0
    for i, e in enumerate(ev):
        if k == v.get("at", -1):
            if v["c"] in QUIET and e["ev"] in ("read_begin", "read_eof", "session_end"):
                return i
            if v["c"] not in QUIET and e["ev"] == "wire":
                return i
        if e["ev"] in ("wire", "request"):
            k += 1
    return None

"""C14 - Debug registers always encode exactly the active watchpoints.

  spec/Watch.tla         reference (the property) + implementation model, run in lock-step
  TLC (E)                all command sequences <= 7: the implementation model (slot-first order) satisfies
                         the reference invariants; the as-written order is run too and its verdict recorded
  TLC DR7 table          DR7 as a pure function, 9^4 slot configurations -> real encoder compared bit for bit
  TLC (G)                every edge of the (reference x slot-map) graph printed with the reference's expected
                         observation; a walk plan covering the edges is replayed through the real Debugger and
                         after EVERY command the debug registers of EVERY task (PTRACE_PEEKUSER), the
                         watchpoint list and the text segment are compared with what the specification expects
Python orchestrates, parses and compares; every expected value is computed by TLC.
"""
import collections
import hashlib
import json
import os
import random
import re
import signal
import subprocess
import threading
import time
from pathlib import Path

import vlib

PUPPET_SRC = vlib.VERIF / "puppets" / "c14_watch.rs"
WORK = vlib.WORK / "c14"
LOCAL_SIG = {"LA": (0x1A1A1A1A00000007, 8), "LB": (0x1B1B0009, 4)}   # content of la / lb (puppet source)
LOCAL_EXPR = {"LA": "la", "LB": "lb"}
REFUSED = ("dup", "limit", "notstarted")
# labels (spec: lastCmd.label) a quick run must have replayed at least once, else the run is vacuous
CORE_LABELS = {"add_ok", "add_refused_dup", "add_refused_limit", "add_refused_dup_scoped",
               "rm_num_found", "rm_num_none", "rm_addr_found", "rm_addr_none", "rm_expr_found", "rm_expr_none",
               "cont_plain", "cont_scope_end", "cont_clone", "cont_thread_exit", "cont_exit",
               "restart", "restart_drops_scoped", "restart_after_exit", "add_refused_notstarted",
               "add_refused_limit_scoped"}
E_ACTIONS = ["Add", "AddNotStarted", "Remove", "ContPlain", "ContScopeEnd", "ContClone", "ContThreadExit",
             "ContExit", "Restart"]
COST = {"launch": 10.0, "restart": 10.0, "cont": 0.03, "other": 0.004}   # planning estimates, seconds under load


# ------------------------------------------------------------------------------------------------
# puppet
# ------------------------------------------------------------------------------------------------
def build_puppet():
    src = PUPPET_SRC.read_bytes()
    h = hashlib.sha1(src + b"rustc+1.89 -g edition2021 panic=abort").hexdigest()[:12]
    d = vlib.PUPPET_BUILD / f"c14-{h}"
    exe = d / "c14_watch"
    if not exe.exists():
        d.mkdir(parents=True, exist_ok=True)
        tmp = d / f"c14_watch.{os.getpid()}"
        vlib.sh(["rustc", "+1.89", "--edition", "2021", "-g", "-C", "panic=abort", "-A", "warnings", str(PUPPET_SRC),
                 "-o", str(tmp)],
                timeout=300)
        os.replace(tmp, exe)
    lines = {}
    for i, l in enumerate(PUPPET_SRC.read_text().splitlines(), 1):
        m = re.search(r"// @(P\d)\s*$", l)
        if m:
            lines[m.group(1)] = i
    if sorted(lines) != ["P0", "P1", "P2", "P3", "P4", "P5"]:
        raise vlib.ToolError(f"puppet markers not found: {lines}")
    return str(exe), lines


def job_base(puppet, lines, writes=False):
    return {"puppet": puppet, "source": "c14_watch.rs", "lines": lines, "writes": writes, "script_timeout_s": 150}


# ------------------------------------------------------------------------------------------------
# DR7 decoding of an OBSERVATION (bit positions: Intel SDM vol. 3 fig. 18-1; validated against the
# specification's table in dr7_leg before it is used on real registers)
# ------------------------------------------------------------------------------------------------
def decode_dr7(v):
    slots = []
    for i in range(4):
        slots.append({"l": bool(v >> (2 * i) & 1), "g": bool(v >> (2 * i + 1) & 1),
                      "rw": v >> (16 + 4 * i) & 3, "len": v >> (18 + 4 * i) & 3})
    return {"slots": slots, "le": bool(v >> 8 & 1), "ge": bool(v >> 9 & 1), "other": v & 0xFC00}


def dr7_leg(rep, exe, rows):
    """rows: TLC's table.  The real encoder is driven for every row (three construction orders)."""
    WORK.mkdir(parents=True, exist_ok=True)
    cases = []
    for i, r in enumerate(rows):
        sl = [r["slots"][str(k)] for k in range(4)]
        cases.append({"id": i, "slots": [({"size": s["size"], "cond": s["cond"]} if s["on"] else None) for s in sl]})
    inp, out = WORK / f"dr7-{os.getpid()}.in", WORK / f"dr7-{os.getpid()}.out"
    vlib.ndjson_write(inp, cases)
    rc, so, se = vlib.sh([exe, "dr7", str(inp), str(out)], timeout=120, check=False)
    if rc != 0:
        raise vlib.ToolError(f"c14 dr7 rc={rc}: {se[-2000:]}")
    got = {g["id"]: g for g in vlib.ndjson_read(out)}
    inp.unlink(missing_ok=True), out.unlink(missing_ok=True)
    if len(got) != len(rows):
        raise vlib.ToolError(f"dr7 leg: {len(got)} answers for {len(rows)} cases")
    bad = 0
    for i, r in enumerate(rows):
        g, want = got[i], (r["hi"] << 16) | r["lo"]
        # the observation decoder used on real registers must agree with the specification's encoding
        d = decode_dr7(want)
        for k in range(4):
            s = r["slots"][str(k)]
            if d["slots"][k]["l"] != s["on"] or d["le"] != any(r["slots"][str(j)]["on"] for j in range(4)):
                raise vlib.ToolError(f"observation decoder disagrees with the specification on row {i}")
        slots_txt = [("-" if c is None else f'{c["size"]}{c["cond"]}') for c in cases[i]["slots"]]
        if "panic" in g:
            rep.mismatch("panic", "dr7_encode", slots=slots_txt, actual=g["panic"], script=[]), None
            bad += 1
            continue
        mask = (r["maskhi"] << 16) | 0x3FF
        checks = [("a", g["a"], want, 0xFFFFFFFFFFFFFFFF, "configure_bp + set_dr(on) from zero"),
                  ("b", g["b"] & mask, want & mask, mask, "all four on as (8,rw), others switched off / reconfigured"),
                  ("c", g["c"] & 0x3FF, 0, 0x3FF, "every enabled slot disabled again")]
        for fam, act, exp, m, how in checks:
            if act != exp:
                bad += 1
                if bad <= 5:
                    rep.mismatch("dr7_encoding", f"dr7_encode_{fam}", slots=slots_txt, expected=hex(exp),
                                 actual=hex(act), mask=hex(m), how=how, script=[])
                break
    return len(rows), bad


# ------------------------------------------------------------------------------------------------
# the graph printed by TLC and the walk plan
# ------------------------------------------------------------------------------------------------
def canon(o):
    if isinstance(o, dict):
        return {k: canon(v) for k, v in sorted(o.items())}
    if isinstance(o, list):
        return sorted((canon(x) for x in o), key=lambda x: json.dumps(x, sort_keys=True))
    return o


def key(o):
    return json.dumps(canon(o), sort_keys=True, separators=(",", ":"))


class Graph:
    def __init__(self, edges):
        self.e = []
        self.out = collections.defaultdict(list)
        for i, e in enumerate(edges):
            s, d = key(e["src"]), key(e["dst"])
            op = e["cmd"]["op"]
            cls = "restart" if op == "restart" else "cont" if op == "cont" else "other"
            rec = {"id": i, "s": s, "d": d, "cmd": e["cmd"], "exp": canon(e["exp"]), "cls": cls,
                   "dstview": e["dst"]}
            self.e.append(rec)
            self.out[s].append(rec)
        self.init = key({"phase": "P0", "active": [], "slots": [], "orphan": False})
        if self.init not in self.out:
            raise vlib.ToolError("generation graph has no initial node (view changed?)")
        self.phase = {}
        for e in edges:
            self.phase[key(e["src"])] = e["src"]["phase"]
            self.phase[key(e["dst"])] = e["dst"]["phase"]

    def bfs(self, start, classes, goal, maxn=4000):
        """shortest path (edge list) over edges of the given classes to a node satisfying goal"""
        if goal(start):
            return []
        prev = {start: None}
        dq = collections.deque([start])
        n = 0
        while dq and n < maxn:
            u = dq.popleft()
            n += 1
            for e in self.out[u]:
                if e["cls"] not in classes or e["blocked"]:
                    continue
                v = e["d"]
                if v in prev:
                    continue
                prev[v] = e
                if goal(v):
                    path = []
                    while prev[v] is not None:
                        path.append(prev[v])
                        v = prev[v]["s"]
                    return path[::-1]
                dq.append(v)
        return None


def plan(g, terminal_labels, nseg, seg_budget, rng, total_budget=None, defer=()):
    """Greedy edge-covering walks.  Each segment starts a fresh session at the initial node.
    Edges whose label is in terminal_labels (listed known findings: the real state is not to be trusted
    after them) are kept out of the walks and get one short script each (prefix + edge + one `cont`)."""
    for e in g.e:
        e["blocked"] = e["cmd"]["label"] in terminal_labels
    covered = set()
    unc = {s: {"other": set(), "cont": set(), "restart": set()} for s in g.out}
    for e in g.e:
        if not e["blocked"]:
            unc[e["s"]][e["cls"]].add(e["id"])
    byid = {e["id"]: e for e in g.e}
    phases_cycle = ["X", "P1", "P4", "P1e", "P3", "X", "P2", "P5", "P0"]
    segments, spent = [], 0.0
    ncycle = 0
    for si in range(nseg):
        cur, cost, path = g.init, COST["launch"], []
        restart_at = phases_cycle[(ncycle + si) % len(phases_cycle)]

        def take(e):
            nonlocal cur, cost
            path.append(e)
            cost += COST[e["cls"]]
            if e["id"] not in covered:
                covered.add(e["id"])
                unc[e["s"]][e["cls"]].discard(e["id"])
            cur = e["d"]

        while cost < seg_budget:
            u = unc[cur]
            if u["other"]:
                # requests on a location a LISTED defect poisons are scheduled after everything else here
                first = [i for i in u["other"] if not (byid[i]["cmd"]["op"] == "add" and byid[i]["cmd"]["loc"] in defer)]
                pool = first or sorted(u["other"])
                if first or not g.bfs(cur, {"other"}, lambda n: any(
                        not (byid[i]["cmd"]["op"] == "add" and byid[i]["cmd"]["loc"] in defer) for i in unc[n]["other"])):
                    take(byid[min(pool) if rng.random() < 0.5 else max(pool)])
                    continue
                for e in g.bfs(cur, {"other"}, lambda n: any(
                        not (byid[i]["cmd"]["op"] == "add" and byid[i]["cmd"]["loc"] in defer) for i in unc[n]["other"])):
                    take(e)
                continue
            p = g.bfs(cur, {"other"}, lambda n: bool(unc[n]["other"]))
            if p:
                for e in p:
                    take(e)
                continue
            # nothing cheap left at this program point
            if g.phase[cur] == restart_at or g.phase[cur] == "X":
                p = g.bfs(cur, {"other"}, lambda n: bool(unc[n]["restart"]))
                if p is None:
                    p = []
                for e in p:
                    take(e)
                r = [e for e in g.out[cur] if e["cls"] == "restart"]
                if not r:
                    break
                take(r[0])
                ncycle += 1
                restart_at = phases_cycle[(ncycle + si) % len(phases_cycle)]
                continue
            p = g.bfs(cur, {"other"}, lambda n: bool(unc[n]["cont"]))
            if p is not None and (p or unc[cur]["cont"]):
                for e in p:
                    take(e)
                take(byid[min(unc[cur]["cont"])])
                continue
            # every cont edge of this program point is covered: is anything left further on?
            p = g.bfs(cur, {"other", "cont"}, lambda n: bool(unc[n]["other"] or unc[n]["cont"]))
            if p:
                for e in p:
                    take(e)
                continue
            p = g.bfs(cur, {"other", "cont", "restart"},
                      lambda n: bool(unc[n]["other"] or unc[n]["cont"] or unc[n]["restart"]))
            if p is None:
                break
            if not p:           # only a restart edge is left here
                take(byid[min(unc[cur]["restart"])])
                ncycle += 1
                continue
            for e in p:
                take(e)
        if path:
            segments.append(path)
        spent += cost
        if all(not (v["other"] or v["cont"] or v["restart"]) for v in unc.values()):
            break
        if total_budget is not None and spent >= total_budget:
            break
    # terminal scripts
    terminals = []
    for e in g.e:
        if not e["blocked"]:
            continue
        for x in g.e:
            x["blocked"] = x["cmd"]["label"] in terminal_labels
        p = g.bfs(g.init, {"other", "cont"}, lambda n, s=e["s"]: n == s, maxn=100000)
        if p is None:
            continue
        after = [x for x in g.out[e["d"]] if x["cls"] == "cont"][:1]
        terminals.append(p + [e] + after)
    return segments, terminals, covered


def script_of(path):
    return [{"cmd": e["cmd"], "exp": e["exp"], "slots": e["dstview"].get("slots", []), "edge": e["id"]} for e in path]


# ------------------------------------------------------------------------------------------------
# running the driver
# ------------------------------------------------------------------------------------------------
def run_jobs(exe, base, scripts, workers, timeout):
    """scripts: list of (id, steps).  One driver process per script (a session each), `workers` at a time.
    Returns {id: [records]}."""
    WORK.mkdir(parents=True, exist_ok=True)
    tag = f"{os.getpid()}-{int(time.time() * 1000) % 100000}"
    pending = list(scripts)
    running = {}
    results = {}
    t_end = time.time() + timeout

    def reap(sid, p, outp, jobp):
        try:
            os.killpg(p.pid, signal.SIGKILL)
        except (ProcessLookupError, PermissionError):
            pass
        recs = vlib.ndjson_read(outp) if outp.exists() else []
        results[sid] = {"rc": p.returncode, "recs": recs}
        outp.unlink(missing_ok=True), jobp.unlink(missing_ok=True)

    while pending or running:
        while pending and len(running) < workers:
            sid, steps = pending.pop(0)
            jobp, outp = WORK / f"job-{tag}-{sid}.json", WORK / f"out-{tag}-{sid}.ndjson"
            job = dict(base)
            job["scripts"] = [{"id": sid, "steps": steps}]
            jobp.write_text(json.dumps(job))
            p = subprocess.Popen([exe, "run", str(jobp), str(outp)], stdout=subprocess.DEVNULL,
                                 stderr=subprocess.DEVNULL, start_new_session=True)
            running[sid] = (p, outp, jobp)
        time.sleep(0.05)
        for sid in list(running):
            p, outp, jobp = running[sid]
            if p.poll() is not None:
                reap(sid, p, outp, jobp)
                del running[sid]
        if time.time() > t_end:
            for sid, (p, outp, jobp) in running.items():
                p.kill()
                p.wait()
                reap(sid, p, outp, jobp)
                results[sid]["rc"] = "timeout"
            for sid, _ in pending:
                results[sid] = {"rc": "not_run", "recs": []}
            break
    return results


# ------------------------------------------------------------------------------------------------
# comparing one session with the specification's expectations
# ------------------------------------------------------------------------------------------------
class Cmp:
    def __init__(self, lines, known=()):
        self.lines = lines
        # (no resynchronisation after a listed defect: its consequences - a slot that looks free, two
        # watchpoints sharing one register - outlive the affected watchpoint; the session ends there)
        self.resync = []
        self.side = []          # mismatches recorded without ending the session (see compare)
        self.skipped = 0
        self.abandoned = 0
        self.steps = 0
        self.tasks_checked = 0
        self.drift = 0
        self.labels = collections.Counter()
        self.hashes = set()

    def loc_of(self, addr, size_mem, init):
        for gname, a in init["syms"].items():
            if a is not None and addr == a + init["bias"]:
                return gname
        return None

    def decode_task(self, t, init):
        """-> (set of (loc, rw, len), problems, slotmap)"""
        d = decode_dr7(t["dr"][7])
        probs = []
        any_l = any(s["l"] for s in d["slots"])
        if d["le"] != any_l:
            probs.append(f"LE={int(d['le'])} but enabled slots={[i for i, s in enumerate(d['slots']) if s['l']]}")
        if any(s["g"] for s in d["slots"]) or d["ge"] or d["other"]:
            probs.append(f"unexpected DR7 bits {hex(t['dr'][7])}")
        got, slotmap = set(), {}
        for i, s in enumerate(d["slots"]):
            if not s["l"]:
                continue
            addr = t["dr"][i]
            loc = self.loc_of(addr, None, init)
            if loc is None:
                mem = t.get("mem", [None] * 4)[i]
                for ln, (sig, n) in LOCAL_SIG.items():
                    if mem is not None and (mem & ((1 << (8 * n)) - 1)) == sig and addr > init["bias"] + (1 << 30):
                        loc = ln
            if loc is None:
                loc = hex(addr)
            got.add((loc, s["rw"], s["len"]))
            slotmap[loc] = i
        return got, probs, slotmap

    def compare(self, sid, steps, recs, rc=0):
        """-> (mismatch dict | None, number of steps fully compared)"""
        init = next((r for r in recs if r.get("k") == -1), None)
        if init is None:
            raise vlib.ToolError(f"session {sid}: the debugger did not reach the first breakpoint")
        init = {"syms": init["syms"], "bias": init["obs"]["bias"], "obs": init["obs"]}
        if init["obs"].get("patched") is None or any(t.get("dr", [0] * 8)[7] for t in init["obs"]["tasks"]):
            raise vlib.ToolError(f"session {sid}: unexpected initial state")
        base_text = set(init["obs"]["patched"])
        by_k = {r["k"]: r for r in recs if "k" in r and not r.get("begin") and r["k"] >= 0}
        begun = {r["k"] for r in recs if r.get("begin")}
        prev = init["obs"]
        done = 0
        taint = None
        for k, st in enumerate(steps):
            cmd, exp = st["cmd"], st["exp"]
            r = by_k.get(k)
            if taint is not None and r is not None and "panic" not in r["res"]:
                if bool(r["res"].get("ok")) != (exp["res"] in ("ok", "none")):
                    # the listed defect changed what a later request answers (an unarmed watchpoint leaves its
                    # slot looking free): the reference cannot follow this session any further
                    self.abandoned += 1
                    return None, done
                if taint in {a["loc"] for a in exp["active"]}:
                    # a listed defect left this watchpoint unarmed: nothing to compare until it is gone
                    prev = r.get("obs") or prev
                    self.skipped += 1
                    done += 1
                    continue
                taint = None
            if r is None:
                if k in begun and rc == 4:
                    return self.mk("hang", cmd, k, steps, detail="no answer within the driver's watchdog time"), done
                return None, done          # session ended early for a reason outside the property (budget)
            self.labels[cmd["label"]] += 1
            m = self.step(cmd, exp, st, r, prev, init, base_text)
            if m and m[0] != "panic":
                probe = dict(m[1], **{"property": "C14", "class": m[0], "action": cmd["label"]})
                if any(vlib._matches(e, probe) for e in self.resync):
                    if len([x for x in self.side if x["class"] == m[0]]) < 3:
                        self.side.append(self.mk(m[0], cmd, k, steps, **m[1]))
                    taint = cmd["loc"]
                    prev = r["obs"]
                    done += 1
                    continue
            if m:
                cls, fields = m
                after = []
                for j in range(k + 1, min(k + 4, len(steps))):
                    if j in by_k:
                        rr = by_k[j]["res"]
                        after.append({"cmd": steps[j]["cmd"]["op"], "res": {x: rr[x] for x in rr if x != "pid"}})
                    elif j in begun:
                        after.append({"cmd": steps[j]["cmd"]["op"], "res": "hang"})
                return self.mk(cls, cmd, k, steps, aftermath=after, **fields), done
            prev = r["obs"]
            done += 1
            self.steps += 1
            self.hashes.add(vlib.stable_hash([cmd["label"], exp]))
        return None, done

    def mk(self, cls, cmd, k, steps, **fields):
        rec = {"class": cls, "action": cmd["label"], "step": k,
               "prev_action": steps[k - 1]["cmd"]["label"] if k > 0 else "-",
               "script": [{"cmd": s["cmd"], "exp": s["exp"]} for s in steps[:min(k + 4, len(steps))]]}
        rec.update(fields)
        return rec

    def step(self, cmd, exp, st, r, prev, init, base_text):
        res, obs = r["res"], r.get("obs") or {}
        if "panic" in res:
            return "panic", {"actual": res["panic"], "where": res.get("at", "")}
        if "observe_panic" in obs:
            raise vlib.ToolError(f"probe panicked: {obs['observe_panic']}")
        # ---- result of the request
        want_ok = exp["res"] in ("ok", "none")
        if bool(res.get("ok")) != want_ok:
            return "result_mismatch", {"expected": exp["res"], "actual": res}
        if cmd["op"].startswith("rm_") and (res.get("removed") is None) != (exp["res"] == "none"):
            return "result_mismatch", {"expected": exp["res"], "actual": res}
        tasks = [t for t in obs.get("tasks", []) if t["state"] == "t"]
        for t in obs.get("tasks", []):
            if t["state"] == "t" and "dr" not in t:
                raise vlib.ToolError(f"PEEKUSER failed: {t.get('dr_err')}")
            if t["state"] not in ("t", "Z", "X"):
                raise vlib.ToolError(f"task {t['tid']} in state {t['state']} after {cmd['op']} (not a C14 matter)")
        # ---- a refused request has no side effects (registers of every task, list, text)
        if exp["res"] in REFUSED:
            eff = []
            strip = lambda o: [(t["tid"], t.get("dr", [])[:4] + t.get("dr", [])[7:]) for t in o.get("tasks", []) if t["state"] == "t"]
            if strip(prev) != strip(obs):
                eff.append("debug_registers_changed")
            if prev.get("list") != obs.get("list"):
                eff.append("watchpoint_list_changed")
            pp, po = set(prev.get("patched") or []), set(obs.get("patched") or [])
            if po - pp:
                eff.append("companion_int3_left" if exp["phase"] == "P1" and cmd["loc"] in LOCAL_SIG else "text_patched")
            if pp - po:
                eff.append("text_restored")
            if eff:
                return "refused_request_side_effect", {
                    "side_effect": "+".join(eff), "expected": "nothing changes",
                    "actual": {"new_text_patches": [hex(a) for a in sorted(po - pp)], "registers_before": strip(prev),
                               "registers_after": strip(obs), "list_after": obs.get("list"), "api": res}}
        # ---- stop report of continue / restart
        if cmd["op"] in ("cont", "restart"):
            hooks = obs.get("hooks", [])
            stop = res.get("stop", {})
            want = cmd["stop"]
            if want == "exit":
                if stop.get("kind") != "exit":
                    return "stop_mismatch", {"expected": "exit", "actual": stop}
            elif want == "scope_end":
                ended = sorted(h.get("dqe") for h in hooks if h["hook"] == "watchpoint" and h.get("end_of_scope"))
                if stop.get("kind") != "watchpoint" or "EndOfScope" not in stop.get("ty", "") \
                        or ended != sorted(LOCAL_EXPR[x] for x in cmd["ended"]):
                    return "stop_mismatch", {"expected": {"scope_end": cmd["ended"]}, "actual": {"stop": stop, "ended": ended}}
            else:
                bl = [h.get("place", {}).get("line") for h in hooks if h["hook"] == "breakpoint"]
                if cmd["op"] == "cont" and stop.get("kind") != "breakpoint" or bl[-1:] != [self.lines[want]]:
                    return "stop_mismatch", {"expected": {"breakpoint_line": self.lines[want]},
                                             "actual": {"stop": stop, "breakpoint_lines": bl}}
        if exp["phase"] == "X":
            if tasks:
                raise vlib.ToolError("tasks alive after the expected exit")
        else:
            if len(tasks) < exp["nlive"] or len(tasks) > 3:
                raise vlib.ToolError(f"{len(tasks)} stopped tasks, specification has {exp['nlive']} threads "
                                     f"(puppet/specification out of step after {cmd})")
            # ---- DrEncodesExactly + NoStaleEnable for EVERY task
            want = {(w["loc"], w["rw"], w["len"]) for w in exp["want"]}
            tids = sorted(t["tid"] for t in tasks)
            for t in tasks:
                got, probs, slotmap = self.decode_task(t, init)
                self.tasks_checked += 1
                who = "main" if t["tid"] == tids[0] else f"thread#{tids.index(t['tid']) + 1}"
                if got != want and cmd["op"] == "add" and exp["res"] == "ok" and not (got - want) \
                        and {x[0] for x in want - got} == {cmd["loc"]} and who == "main":
                    # the request was accepted (and is listed) but no register changed: which slot was it for?
                    pm = [p for p in prev.get("tasks", []) if p["state"] == "t" and "dr" in p]
                    pd = decode_dr7(pm[0]["dr"][7]) if pm else None
                    free = [i for i in range(4) if pd and not pd["slots"][i]["l"]]
                    addr = next((w["addr"] for w in obs.get("list", []) if w["num"] == res.get("num")), None)
                    stale = {0: 1, 1: 2, 2: 8, 3: 4}[pd["slots"][free[0]]["len"]] if free else None
                    return "accepted_add_not_armed", {
                        "task": who, "expected": sorted(want), "actual": sorted(got),
                        "slot": free[0] if free else None, "stale_len_bytes": stale, "address": hex(addr or 0),
                        "stale_len_conflict": bool(stale and addr is not None and addr % stale != 0),
                        "registers_before": [hex(x) for x in pm[0]["dr"]] if pm else None,
                        "registers": [hex(x) for x in t["dr"]]}
                if got != want:
                    return "dr_mismatch", {"task": who, "expected": sorted(want), "actual": sorted(got),
                                           "missing": sorted(want - got), "extra": sorted(got - want),
                                           "registers": [hex(x) for x in t["dr"]]}
                if probs:
                    return "stale_enable", {"task": who, "expected": "LE iff some L_n, no other control bits",
                                            "actual": probs, "registers": [hex(x) for x in t["dr"]]}
            # ---- text: breakpoints of the harness + exactly the companion of living scoped watchpoints
            text = set(obs.get("patched") or [])
            extra, gone = text - base_text, base_text - text
            lo, hi = (1, exp["nscoped"]) if exp["companion"] else (0, 0)
            if gone or not (lo <= len(extra) <= hi):
                return "text_mismatch", {"expected": f"{lo}..{hi} companion breakpoint(s) beyond the harness' own",
                                         "actual": {"extra": [hex(a) for a in sorted(extra)],
                                                    "missing": [hex(a) for a in sorted(gone)]}}
        # ---- watchpoint_list() is the active set
        lst = set()
        for w in obs.get("list", []):
            loc = self.loc_of(w["addr"], None, init)
            if loc is None:
                loc = {v: k for k, v in LOCAL_EXPR.items()}.get(w.get("dqe"), hex(w["addr"]))
            lst.add((loc, w["size"], w["cond"], w.get("dqe")))
        wl = {(a["loc"], a["size"], a["cond"],
               (LOCAL_EXPR.get(a["loc"], a["loc"]) if a["via"] == "expr" else None)) for a in exp["active"]}
        if lst != wl:
            return "list_mismatch", {"expected": sorted(map(str, wl)), "actual": sorted(map(str, lst))}
        return None


# ------------------------------------------------------------------------------------------------
def tlc_parallel(jobs):
    """jobs: {name: kwargs for vlib.tlc}; run concurrently."""
    out, errs = {}, {}

    def one(n, kw):
        try:
            out[n] = vlib.tlc(**kw)
        except Exception as ex:   # noqa
            errs[n] = ex
    th = [threading.Thread(target=one, args=(n, kw)) for n, kw in jobs.items()]
    [t.start() for t in th]
    [t.join() for t in th]
    for n, ex in errs.items():
        raise ex if isinstance(ex, vlib.ToolError) else vlib.ToolError(f"TLC job {n}: {ex}")
    return out


def selftest(exe, puppet, lines):
    """does this host deliver hardware data breakpoints (reading rule R4)?"""
    WORK.mkdir(parents=True, exist_ok=True)
    stj, sto = WORK / f"selftest-{os.getpid()}.json", WORK / f"selftest-{os.getpid()}.out"
    stj.write_text(json.dumps(job_base(puppet, lines, writes=True)))
    p = subprocess.run([exe, "selftest", str(stj), str(sto)], stdout=subprocess.DEVNULL, stderr=subprocess.DEVNULL,
                       start_new_session=True, timeout=170)
    if p.returncode != 0 or not sto.exists():
        raise vlib.ToolError(f"delivery self-test failed rc={p.returncode}")
    st = json.loads(sto.read_text())
    for f in (stj, sto, Path(str(sto) + ".log")):
        f.unlink(missing_ok=True)
    if not st["add"].get("ok"):
        raise vlib.ToolError(f"self-test could not set a watchpoint: {st['add']}")
    return bool(st["delivered"])


def _try(f):
    try:
        return f()
    except Exception as ex:   # noqa
        return ex


def known_terminal_labels(rep):
    """commands after which a LISTED defect leaves the debugger in a state the reference cannot follow:
    they are replayed at the end of dedicated short sessions instead of in the middle of the long walks"""
    return {e["isolate_action"] for e in rep.known
            if e.get("status") == "known" and e.get("property") == "C14" and e.get("isolate_action")}


def record(rep, m):
    rep.mismatch(m.pop("class"), m.pop("action"), **m)


def run_replay(rep, exe, puppet, lines, path):
    rec = json.loads(Path(path).read_text())
    if rec.get("class") in ("dr7_encoding",) or rec.get("action", "").startswith("dr7_encode"):
        r = vlib.tlc("Watch_MC", "Watch_DR7.cfg", workers=1, heap="2g", timeout=300, name="c14-dr7")
        vlib.tlc_expect_ok(r, "DR7 table")
        n, bad = dr7_leg(rep, exe, vlib.printed(r.out, "DR7"))
        return rep.finish("model_checking", {"states": n, "transitions": n, "traces_validated_against_impl": n,
                                             "replay_only": True, "dr7_cases": n, "samples": [{"replay": path}]})
    steps = rec.get("script") or []
    if not steps:
        raise vlib.ToolError("replay file has no script")
    res = run_jobs(exe, job_base(puppet, lines), [("replay", steps)], 1, 300)
    cmpr = Cmp(lines)      # a replay never resynchronises: the first mismatch is the verdict
    m, done = cmpr.compare("replay", steps, res["replay"]["recs"], res["replay"]["rc"])
    if m:
        record(rep, m)
    # a replay explores exactly one behaviour: its own states / transitions are what is reported
    return rep.finish("model_checking", {"states": len(steps) + 1, "transitions": len(steps),
                                         "traces_validated_against_impl": 1, "replay_only": True,
                                         "steps_compared": done, "samples": [{"replay": path, "reproduced": bool(m)}]})


def run(rep, tier, replay):
    t0 = time.time()
    exe = str(vlib.cargo_build("c14"))
    puppet, lines = build_puppet()
    if replay:
        return run_replay(rep, exe, puppet, lines, replay)
    quick = tier == "quick"
    rng = random.Random(vlib.seed())

    # ---- TLC: exhaustive runs, DR7 table, generation graph (concurrently; <= 8 workers in total)
    jobs = {
        "E": dict(module="Watch_MC", cfg="Watch_E_quick.cfg" if quick else "Watch_E_thorough.cfg", workers=5,
                  heap="6g", timeout=400 if quick else 1500, coverage=not quick, name="c14-E"),
        "W": dict(module="Watch_MC", cfg="Watch_E_aswritten.cfg", workers=1, heap="2g", timeout=300, name="c14-W"),
        "D": dict(module="Watch_MC", cfg="Watch_DR7.cfg", workers=1, heap="2g", timeout=300, name="c14-D"),
        "G": dict(module="Watch_MC", cfg="Watch_G_quick.cfg" if quick else "Watch_G.cfg", workers=1, heap="3g", timeout=600, name="c14-G"),
    }
    slow = {k: jobs.pop(k) for k in ("E", "W")}
    bg = {}
    bgt = threading.Thread(target=lambda: bg.update(r=_try(lambda: tlc_parallel(slow))))
    bgt.start()            # the exhaustive runs go on while the behaviours are replayed
    stbox = {}
    stt = threading.Thread(target=lambda: stbox.update(r=_try(lambda: selftest(exe, puppet, lines))))
    stt.start()
    tl = tlc_parallel(jobs)
    D, G = tl["D"], tl["G"]

    def check_tlc(n, r):
        vlib.tlc_expect_ok(r, n)
        if r.violated:
            # the slot-first implementation model IS the reference-conforming design; a violation here is a
            # defect of the specification, not a statement about /repo
            raise vlib.ToolError(f"TLC {n}: {r.violated} violated by the specification itself\n{r.out[-2500:]}")
    check_tlc("DR7 table", D)
    check_tlc("generation", G)

    # ---- pure encoder leg
    rows = vlib.printed(D.out, "DR7")
    if len(rows) != 6561:
        raise vlib.ToolError(f"DR7 table has {len(rows)} rows, expected 9^4")
    n_dr7, bad_dr7 = dr7_leg(rep, exe, rows)

    stt.join()
    if isinstance(stbox["r"], Exception):
        raise stbox["r"]
    delivered = stbox["r"]

    # ---- generation graph -> walk plan -> replay
    edges = vlib.printed(G.out, "EDGE")
    if len(edges) + 1 != G.generated:
        raise vlib.ToolError(f"{len(edges)} edges printed but TLC generated {G.generated} states")
    g = Graph(edges)
    terminal = known_terminal_labels(rep)
    # a launch / restart of the debugger is internally parallel (and clones every parsed unit): few long
    # sessions beat many short ones
    workers = 4 if quick else 6
    if quick:
        nseg, seg_budget, total = workers, 60.0, None
    else:
        nseg, seg_budget, total = 24, 400.0, 6 * 600.0
    defer = {e["defer_location"] for e in rep.known if e.get("property") == "C14" and e.get("defer_location")}
    segs, terms, covered = plan(g, terminal, nseg, seg_budget, rng, total, defer)
    rng.shuffle(terms)
    terms = terms[:6 if quick else 36]
    # every command class of the specification must be exercised: add a shortest script for any class the
    # walks of this run do not contain
    # (only the first commands of a walk are certain to run before the deadline on a loaded machine)
    planned = {e["cmd"]["label"] for p in segs for e in p[:300]} | {e["cmd"]["label"] for p in terms for e in p}
    extra = []
    deep_first = ["restart_after_exit", "add_refused_notstarted", "cont_exit", "cont_thread_exit", "cont_clone"]
    for lab in deep_first + sorted(CORE_LABELS - set(deep_first)):
        if lab in planned:
            continue
        for x in g.e:
            x["blocked"] = False
        has = lambda n, lab=lab: any(e["cmd"]["label"] == lab for e in g.out[n])
        p = g.bfs(g.init, {"other", "cont", "restart"}, has, maxn=100000)
        if p is None:
            raise vlib.ToolError(f"command class {lab} does not occur in the generation graph")
        last = p[-1]["d"] if p else g.init
        extra.append(p + [next(e for e in g.out[last] if e["cmd"]["label"] == lab)])
        planned |= {e["cmd"]["label"] for e in extra[-1]}
    # short scripts first: they carry the listed defects and the rare command classes
    scripts = [(f"c{i}", script_of(p)) for i, p in enumerate(extra)] + \
              [(f"t{i}", script_of(p)) for i, p in enumerate(terms)] + \
              [(f"w{i}", script_of(p)) for i, p in enumerate(segs)]
    vlib.log(f"[plan] {len(g.out)} nodes {len(g.e)} edges; {len(segs)} walks ({sum(map(len, segs))} commands, "
             f"{len(covered)} distinct edges) + {len(terms)} terminal scripts; {time.time() - t0:.0f}s so far")
    res = run_jobs(exe, job_base(puppet, lines), scripts, workers, 90 if quick else 1000)
    bgt.join()
    if isinstance(bg["r"], Exception):
        raise bg["r"]
    E, W = bg["r"]["E"], bg["r"]["W"]
    check_tlc("exhaustive", E)
    vlib.tlc_expect_ok(W, "as-written model")
    if not quick:
        vac = [a for a in E_ACTIONS if E.coverage.get(a, (0, 0))[1] == 0]
        if vac:
            raise vlib.ToolError(f"vacuous: actions never taken in the exhaustive run: {vac} ({E.coverage})")
    vlib.log(f"[tlc] E {E.distinct} states / {E.generated} transitions depth {E.depth} {E.wall:.0f}s; "
             f"as-written: {W.violated or 'no violation'}; G {G.wall:.0f}s; DR7 {D.wall:.0f}s")
    cmpr = Cmp(lines, rep.known)
    validated, replayed_edges, mism, cut = 0, set(), [], 0
    samples = []
    for sid, steps in scripts:
        rr = res.get(sid, {"rc": "not_run", "recs": []})
        if rr["rc"] == "not_run" or not rr["recs"]:
            cut += 1
            continue
        m, done = cmpr.compare(sid, steps, rr["recs"], rr["rc"])
        replayed_edges.update(s["edge"] for s in steps[:done])
        if m:
            m["terminal"] = sid.startswith("t") or sid.startswith("c")
            mism.append(m)
        else:
            validated += 1
            if done < len(steps):
                cut += 1
        if len(samples) < 3 and done:
            samples.append({"session": sid, "commands": [s["cmd"]["label"] for s in steps[:12]],
                            "expected_after_last": steps[min(done, 12) - 1]["exp"]})
    for m in mism + cmpr.side:
        record(rep, dict(m))
    # ---- consistency between the as-written model and the code
    real_orphan = any("add_refused_limit_scoped" in (m["action"], m.get("prev_action")) for m in mism)
    notes = []
    if cmpr.labels.get("add_refused_limit_scoped", 0) and bool(W.violated == "NoOrphanCompanion") != real_orphan:
        msg = (f"as-written implementation model: {W.violated or 'no violation'}; real code: "
               f"{'refused request leaves a companion behind' if real_orphan else 'no side effect observed'}")
        print("MODEL-DRIFT: " + msg, file=os.sys.stderr)
        notes.append("MODEL-DRIFT: " + msg)
    rep.notes += notes
    # ---- vacuity
    if not any(m for m in mism if not m.get("terminal")):
        missing = CORE_LABELS - set(cmpr.labels)
        if missing:
            raise vlib.ToolError(f"vacuous replay: command classes never executed: {sorted(missing)}")
        if cmpr.steps < 300:
            raise vlib.ToolError(f"vacuous replay: only {cmpr.steps} commands compared")
    vlib.log(f"[replay] {validated}/{len(scripts)} sessions clean, {cmpr.steps} commands compared, "
             f"{cmpr.tasks_checked} task register images, {len(replayed_edges)}/{len(g.e)} graph edges, "
             f"{len(mism)} mismatching sessions, {cut} cut short; {time.time() - t0:.0f}s")
    cov = {"states": E.distinct, "transitions": E.generated, "depth": E.depth,
           "traces_validated_against_impl": validated,
           "sessions_run": len(scripts) - sum(1 for s, _ in scripts if res.get(s, {}).get("rc") == "not_run"),
           "commands_compared": cmpr.steps, "task_register_images_compared": cmpr.tasks_checked,
           "distinct_command_expectation_pairs": len(cmpr.hashes),
           "graph_nodes": len(g.out), "graph_edges": len(g.e), "graph_edges_replayed": len(replayed_edges),
           "labels_replayed": dict(cmpr.labels), "dr7_table_rows": n_dr7, "dr7_rows_disagreeing": bad_dr7,
           "as_written_model": W.violated or "no violation", "hardware_delivers_data_breakpoints": delivered,
           "model_bound": not notes, "sessions_cut_short": cut,
           "commands_not_compared_after_listed_defect": cmpr.skipped,
           "sessions_abandoned_after_listed_defect": cmpr.abandoned,
           "exhaustive": False, "samples": samples or [{"note": "no session completed"}]}
    if not quick:
        cov["tlc_action_coverage"] = {a: E.coverage.get(a, (0, 0))[1] for a in E_ACTIONS}
    assumptions = [
        "delivery sentence (old/new value, one stop per access): decided on the model only; this host "
        + ("DELIVERS data breakpoints - stops are not asserted by this version" if delivered else
           "never delivers hardware data breakpoints (self-test at start), reading rule R4"),
        "the puppet creates threads at two fixed program points; 'thread creation at any point' is covered as "
        "'with any watchpoint state' (all add/remove sequences before and after each creation)",
        "generation graph: 4 globals + 2 scoped locals, one request kind per location; the other sizes/conditions "
        "are covered by the exhaustive model run and the 9^4 DR7 table against the real encoder",
    ]
    return rep.finish("model_checking", cov, assumptions=assumptions)

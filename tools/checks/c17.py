"""C17 -- names select exactly the functions, files and symbols they denote.

Leg (i)  spec/PathIndex.tla: TLC checks the transcribed heads/tails/data algorithm against the declarative
         SpecGet over every insert sequence, and prints one CASE per reachable index state (insert sequence +
         expected answers).  harness `c17 index` replays every case into the real PathSearchIndex.
Leg (ii) spec/PathGT.tla: TLC evaluates the declarative Match over the ground truth of a real two-object puppet
         (llvm-dwarfdump / readelf / c++filt, tools/c17_gt.py) for every needle; harness `c17 e2e` asks the real
         Debugger (set_breakpoint_at_fn / set_breakpoint_at_line / get_symbols), before and after start.
Expected answers always come from TLC; Python decodes, orchestrates and compares.
"""
import hashlib
import json
import os
import re
from pathlib import Path

import vlib
import c17_gt

W = vlib.WORK / "c17"
SAMPLES = []          # actual cases of this run, for the evidence file


def sample(kind, limit, **kw):
    if sum(1 for x in SAMPLES if x["kind"] == kind) < limit:
        SAMPLES.append(dict(kind=kind, **kw))
ACTION = {"fn": "set_breakpoint_at_fn", "line": "set_breakpoint_at_line", "sym": "get_symbols"}


def _txt(chars):
    return "".join(chars)


# =====================================================================================================
# leg (i): index
# =====================================================================================================
INDEX_CFGS = {
    "quick": [("PathIndex_quick.cfg", "::", 300, 4), ("PathIndex_quick_len3.cfg", "::", 200, 2),
              ("PathIndex_quick_slash.cfg", "/", 200, 2)],
    "thorough": [("PathIndex_E.cfg", "::", 1700, 8), ("PathIndex_E3.cfg", "::", 900, 4),
                 ("PathIndex_E_slash.cfg", "/", 900, 4)],
}


def classify_index(delim, ins, needle, exp, got):
    extra, missing = sorted(set(got) - set(exp)), sorted(set(exp) - set(got))
    if len(got) != len(set(got)):
        return "duplicate_result"
    if extra:
        for v in extra:
            p = ins[v - 1]
            text = delim.join(p)
            if text.endswith(needle):
                return "partial_component_match"
        return "foreign_match"
    if missing:
        return "missed_match"
    return None


def run_index_cases(rep, exe, name, delim, needles, cases, stats):
    """cases: list of (ins, {needle_text: sorted values}).  Replays into the real index, compares."""
    W.mkdir(parents=True, exist_ok=True)
    inp, outp = W / f"index-{name}-{os.getpid()}.in.ndjson", W / f"index-{name}-{os.getpid()}.out.ndjson"
    with open(inp, "w") as f:
        f.write(json.dumps({"delim": delim, "needles": needles}) + "\n")
        for ins, _ in cases:
            f.write(json.dumps({"ins": ins}) + "\n")
    rc, so, se = vlib.sh([str(exe), "index", str(inp), str(outp)], timeout=900, check=False)
    rows = vlib.ndjson_read(outp)
    if rc != 0 or not rows or not rows[-1].get("done"):
        raise vlib.ToolError(f"harness c17 index failed rc={rc}: {se[-1000:]}")
    rows = rows[:-1]
    if len(rows) != len(cases):
        raise vlib.ToolError(f"harness answered {len(rows)} of {len(cases)} cases")
    bad = 0
    for (ins, exp), row in zip(cases, rows):
        stats["index_cases"] += 1
        stats["index_gets"] += len(needles)
        if "panic" in row:
            bad += 1
            if bad <= 40:
                rep.mismatch("panic", "index_get", expected="no panic", actual=row["panic"],
                             script={"leg": "index", "delim": delim, "ins": ins, "needle": None})
            continue
        got = {needles[i]: vals for i, vals in row["got"]}
        for nd in set(exp) | set(got):
            e, g = exp.get(nd, []), got.get(nd, [])
            if sorted(g) != e:
                bad += 1
                if bad <= 40:
                    rep.mismatch(classify_index(delim, ins, nd, e, g), "index_get", expected=e, actual=g,
                                 script={"leg": "index", "delim": delim, "ins": ins, "needle": nd})
        if any(len(v) > 1 for v in exp.values()):
            nd = sorted(exp, key=lambda k: -len(exp[k]))[0]
            sample(f"index {name}", 2, delim=delim, inserts=[delim.join(p) for p in ins], needle=nd,
                   expected_from_tlc=exp[nd], real_index=got.get(nd, []))
        stats["index_nonempty"] += len(exp)
        stats["index_multi"] += sum(1 for v in exp.values() if len(v) > 1)
    stats["index_disagreements"] += bad
    for p in (inp, outp):
        p.unlink(missing_ok=True)


def index_leg(rep, tier, exe, stats, tlc_stats):
    from concurrent.futures import ThreadPoolExecutor
    cfgs = INDEX_CFGS[tier]
    # quick: the three small configurations side by side (4+2+2 workers); thorough: the big one alone first
    groups = [cfgs] if tier == "quick" else [cfgs[:1], cfgs[1:]]
    # development on a shared machine: VERIF_TLC_WORKERS caps the workers and serialises the runs
    cap = int(os.environ.get("VERIF_TLC_WORKERS", "8"))
    if cap < 8:
        groups = [[c] for c in cfgs]
    results = {}
    for g in groups:
        with ThreadPoolExecutor(len(g)) as ex:
            # -coverage roughly doubles TLC's time: the big configuration runs without it, the other thorough
            # configurations (same module, same actions) with it
            futs = {c[0]: ex.submit(vlib.tlc, "PathIndex", c[0], workers=min(c[3], cap),
                                    coverage=(tier == "thorough" and c[0] != "PathIndex_E.cfg"),
                                    timeout=c[2] * (3 if cap < 8 else 1), heap="3g" if cap < 8 else "4g") for c in g}
            for k, f in futs.items():
                results[k] = f.result()
    for cfg, delim, tmo, _w in cfgs:
        r = results[cfg]
        vlib.tlc_expect_ok(r, cfg)
        if r.violated == "assumption":
            raise vlib.ToolError(f"{cfg}: a self-consistency ASSUME of the specification is false\n{r.out[-1500:]}")
        if r.violated:
            # the transcribed algorithm disagrees with the reference: a statement about the algorithm in utils.rs
            rep.mismatch("model_invariant", "index_get", expected=f"{r.violated} holds", actual="violated",
                         detail=r.out[-1500:], script={"leg": "model", "cfg": cfg})
        if tier == "thorough" and cfg != "PathIndex_E.cfg":
            vac = vlib.vacuous_actions(r)
            if vac or "Next" not in r.coverage:
                raise vlib.ToolError(f"{cfg}: vacuous actions {vac} (coverage {list(r.coverage)[:5]})")
        tlc_stats["states"] += r.distinct
        tlc_stats["transitions"] += r.generated
        tlc_stats["runs"].append({"cfg": cfg, "distinct": r.distinct, "generated": r.generated, "depth": r.depth,
                                  "wall_s": round(r.wall, 1)})
        vlib.log(f"[tlc] {cfg}: {r.distinct} states, {r.wall:.0f}s")
        if "Emit = TRUE" not in (vlib.SPEC / cfg).read_text():
            continue
        nd = vlib.printed(r.out, "NEEDLES")
        raw = vlib.printed(r.out, "CASE")
        if len(nd) != 1 or len(raw) != r.distinct or r.violated:
            if r.violated:
                continue
            raise vlib.ToolError(f"{cfg}: {len(raw)} CASE lines for {r.distinct} states (interleaved output?)")
        needles = sorted(_txt(n) for n in nd[0])
        cases = []
        for c in raw:
            ins = [[_txt(comp) for comp in p] for p in c["ins"]]
            exp = {_txt(n): sorted(vs) for n, vs in c["exp"]}
            cases.append((ins, exp))
        if not any(len(v) > 1 for _, e in cases for v in e.values()) or not any(e for _, e in cases):
            raise vlib.ToolError(f"{cfg}: vacuous case set")
        run_index_cases(rep, exe, Path(cfg).stem, delim, needles, cases, stats)


# =====================================================================================================
# leg (ii): end to end
# =====================================================================================================
def gt_tlc(fns, files, syms, fn_needles, file_needles, pats, tlc_stats, fn_delim="::"):
    """Evaluate PathGT over the data; returns (fn answers, file answers, sym answers) as lists of (must, may)
    with 0-based entity indexes."""
    mod = W / "mod.tmp" / "C17Data.tla"
    c17_gt.write_data_module(mod, fns, files, syms, fn_needles, file_needles, pats, fn_delim=fn_delim)
    h = hashlib.sha1(mod.read_bytes() + (vlib.SPEC / "PathGT.tla").read_bytes()
                     + (vlib.SPEC / "PathMatch.tla").read_bytes()).hexdigest()[:16]
    d = W / f"gt-{h}"
    out = d / "answers.ndjson"
    if not (d / "ok").exists():
        d.mkdir(parents=True, exist_ok=True)
        os.replace(mod, d / "C17Data.tla")
        r = vlib.tlc("PathGT", "PathGT.cfg", workers=1, timeout=1500, heap="3g",
                     jvm=[f"-DTLA-Library={d}"], env={"OUT": str(out)}, name=f"PathGT-{h}")
        vlib.tlc_expect_ok(r, "PathGT")
        if r.violated:
            raise vlib.ToolError(f"PathGT: {r.violated}\n{r.out[-1500:]}")
        info = vlib.printed(r.out, "GT")
        if not info or info[0]["answers"] != len(fn_needles) + len(file_needles) + len(pats):
            raise vlib.ToolError(f"PathGT: unexpected summary {info}")
        (d / "ok").write_text(json.dumps({"wall_s": round(r.wall, 1)}))
        tlc_stats["runs"].append({"cfg": "PathGT", "answers": info[0]["answers"], "wall_s": round(r.wall, 1)})
        vlib.log(f"[tlc] PathGT: {info[0]['answers']} answers, {r.wall:.0f}s")
    else:
        tlc_stats["runs"].append({"cfg": "PathGT", "cached": str(d)})
    ans = {"fn": {}, "file": {}, "sym": {}}
    for row in vlib.ndjson_read(out):
        ans[row["q"]][row["k"] - 1] = (sorted(i - 1 for i in row["must"]), sorted(i - 1 for i in row["may"]))
    tlc_stats["gt_answers"] += sum(len(v) for v in ans.values())
    return ([ans["fn"][k] for k in range(len(fn_needles))], [ans["file"][k] for k in range(len(file_needles))],
            [ans["sym"][k] for k in range(len(pats))])


def run_e2e_harness(exe, gt, queries, start_at="c17p::main"):
    W.mkdir(parents=True, exist_ok=True)
    sp, op = W / f"e2e-{os.getpid()}.json", W / f"e2e-{os.getpid()}.out.ndjson"
    sp.write_text(json.dumps({"prog": gt["exe"], "args": [], "queries": queries, "start_at": start_at}))
    rc, so, se = vlib.sh(f"exec setsid {exe} e2e {sp} {op}", timeout=900, check=False)
    rows = vlib.ndjson_read(op) if op.exists() else []
    sp.unlink(missing_ok=True)
    op.unlink(missing_ok=True)
    return rc, rows, se


PROGRAM = "puppets/c17 (c17p + libc17dep.so, rustc 1.89 -g)"


class E2E:
    def __init__(self, gt):
        self.gt = gt
        self.live = [f for f in gt["functions"] if f["live"]]
        self.dead = [f for f in gt["functions"] if not f["live"]]
        self.objs = [os.path.realpath(o) for o in gt["objects"]]
        self.files = gt["files"]
        self.file_by_text = {}
        for i, f in enumerate(self.files):
            for r in f["readings"]:
                self.file_by_text["/" + "/".join(r[1:]) if r and r[0] == "/" else "/".join(r)] = i
        self.syms = gt["symbols"]
        self.sym_by_key = {}
        for i, s in enumerate(self.syms):
            self.sym_by_key.setdefault((s["addr"], s["forms"][-1]), []).append(i)

    def known_file(self, path):
        comps = c17_gt.path_components(path or "")
        key = "/" + "/".join(comps[1:]) if comps and comps[0] == "/" else "/".join(comps)
        return self.file_by_text.get(key)

    def fn_at(self, obj, addr):
        return [i for i, f in enumerate(self.live) if f["lo"] <= addr < f["hi"] and (obj is None or f["obj"] == obj)]

    def dead_at(self, obj, addr):
        return [f for f in self.dead if f["lo"] <= addr < f["hi"] and (obj is None or f["obj"] == obj)]

    def obj_index(self, path):
        if path is None:
            return None
        rp = os.path.realpath(path)
        return self.objs.index(rp) if rp in self.objs else -1

    def fpath(self, i):
        return self.live[i]["path"]


def compare_fn(rep, e, needle, phase, row, must, may, stats):
    script = {"leg": "e2e", "kind": "fn", "needle": needle, "phase": phase}
    act = ACTION["fn"]
    if "panic" in row:
        rep.mismatch("panic", act, needle=needle, expected="no panic", actual=row["panic"], program=PROGRAM, script=script)
        return
    if not row.get("ok") and "no suitable place" not in row.get("err", ""):
        rep.mismatch("error", act, needle=needle, expected="a result set", actual=row.get("err"), program=PROGRAM, script=script)
        return
    selected, stray = set(), []
    for b in row["bps"]:
        obj = e.obj_index(b["obj"]) if phase == "running" else None
        if obj == -1 or (phase == "static" and not e.fn_at(None, b["faddr"]) and not e.known_file(b["file"])):
            stats["out_of_scope_breakpoints"] += 1      # a system library (functions not in the compared universe)
            continue
        c = e.fn_at(obj, b["faddr"])
        if not c:
            stray.append(b)
        elif len(c) == 1 or phase == "running":
            selected.update(c)
        else:
            # static phase: a file address can lie in a function of either object; attribute it to the
            # candidates the needle may denote (exact attribution happens in the running phase)
            selected.update([i for i in c if i in may] or c)
    if stray:
        dead = [d for b in stray for d in e.dead_at(e.obj_index(b["obj"]) if phase == "running" else None, b["faddr"])]
        cause = "dead_die_low_pc_zero" if dead and all(b["faddr"] < 0x1000 for b in stray) else "no_function_at_address"
        rep.mismatch("not_a_function", act, needle=needle, cause=cause, phase=phase,
                     expected="every breakpoint inside a function the needle denotes",
                     actual=[{"faddr": b["faddr"], "obj": b["obj"], "file": b["file"], "line": b["line"]} for b in stray[:5]],
                     n=len(stray), dead_dies=sorted({d["path"] for d in dead})[:5], program=PROGRAM, script=script)
    missing = sorted(set(must) - selected)
    extra = sorted(selected - set(may))
    if missing:
        by_cause = {}
        for i in missing:
            f = e.live[i]
            cause = "name_only_via_abstract_origin" if f["via"] == "abstract_origin" else "none"
            by_cause.setdefault(cause, []).append(i)
        for cause, ids in by_cause.items():
            rep.mismatch("missed_match", act, needle=needle, cause=cause, phase=phase,
                         expected=[f"{e.fpath(i)} @{e.live[i]['obj']}:{e.live[i]['lo']:#x}" for i in ids[:8]],
                         actual=f"{len(selected)} function(s) selected, these {len(ids)} not among them", program=PROGRAM, script=script)
    if extra:
        partial = [i for i in extra if e.fpath(i).endswith(needle)]
        rep.mismatch("partial_component_match" if partial else "foreign_match", act, needle=needle, phase=phase,
                     expected=f"only functions among the {len(may)} the needle may denote",
                     actual=[f"{e.fpath(i)} @{e.live[i]['obj']}:{e.live[i]['lo']:#x}" for i in extra[:8]], program=PROGRAM, script=script)
    if row.get("left"):
        stats["leftover_breakpoints"] += 1
    stats["fn_queries"] += 1
    if len(must) > 1 or (not must and selected == set() and "::" in needle):
        sample("fn " + ("hit" if must else "near-miss"), 3, needle=needle, phase=phase, must_from_tlc=[e.fpath(i) for i in must[:6]],
               n_must=len(must), n_may=len(may), selected=[e.fpath(i) for i in sorted(selected)[:6]], n_selected=len(selected))
    stats["fn_selected"] += len(selected)
    if must:
        stats["fn_nonempty"] += 1
    if len(must) > 1:
        stats["fn_multi"] += 1


def compare_line(rep, e, needle, phase, row, must, may, stats):
    script = {"leg": "e2e", "kind": "line", "needle": needle, "phase": phase}
    act = ACTION["line"]
    if "panic" in row:
        rep.mismatch("panic", act, needle=needle, expected="no panic", actual=row["panic"], program=PROGRAM, script=script)
        return
    if not row.get("ok") and "no suitable place" not in row.get("err", ""):
        rep.mismatch("error", act, needle=needle, expected="a result set", actual=row.get("err"), program=PROGRAM, script=script)
        return
    selected, unknown = set(), []
    for b in row["bps"]:
        fi = e.known_file(b["file"])
        if fi is not None:
            selected.add(fi)
        elif phase == "running" and e.obj_index(b["obj"]) >= 0:
            unknown.append(b["file"])
        else:
            stats["out_of_scope_breakpoints"] += 1      # a system library
    if unknown:
        rep.mismatch("unknown_file", act, needle=needle, phase=phase, expected="a file of some line table",
                     actual=sorted(set(unknown))[:5], program=PROGRAM, script=script)
    need = [i for i in must if e.files[i]["has_line3"]]
    missing = sorted(set(need) - selected)
    extra = sorted(selected - set(may))
    if missing:
        rep.mismatch("missed_match", act, needle=needle, cause="none", phase=phase,
                     expected=[e.files[i]["path"] for i in missing[:8]],
                     actual=[e.files[i]["path"] for i in sorted(selected)[:8]], program=PROGRAM, script=script)
    if extra:
        partial = [i for i in extra if e.files[i]["path"].endswith(needle)]
        rep.mismatch("partial_component_match" if partial else "foreign_match", act, needle=needle, phase=phase,
                     expected=f"only files among the {len(may)} the needle may denote",
                     actual=[e.files[i]["path"] for i in extra[:8]], program=PROGRAM, script=script)
    stats["line_queries"] += 1
    if len(need) > 1:
        sample("line", 2, needle=needle, line=3, phase=phase, must_from_tlc=[e.files[i]["path"] for i in need[:6]],
               selected=[e.files[i]["path"] for i in sorted(selected)[:6]])
    if need:
        stats["line_nonempty"] += 1
    if len(need) > 1:
        stats["line_multi"] += 1


def compare_sym(rep, e, pat, phase, row, must, may, stats):
    rx = c17_gt.regex_of(pat)
    script = {"leg": "e2e", "kind": "sym", "pat": pat, "regex": rx, "phase": phase}
    act = ACTION["sym"]
    if "panic" in row:
        rep.mismatch("panic", act, needle=rx, expected="no panic", actual=row["panic"], program=PROGRAM, script=script)
        return
    if not row.get("ok"):
        rep.mismatch("error", act, needle=rx, expected="a result set", actual=row.get("err"), program=PROGRAM, script=script)
        return
    got, foreign = set(), []
    for s in row["syms"]:
        ids = e.sym_by_key.get((s["addr"], s["name"]))
        if ids is None:
            # tolerate a demangler disagreement on spelling: same address, same name up to the hash component
            base = re.sub(r"::h[0-9a-f]{16}$", "", s["name"])
            ids = [i for i, g in enumerate(e.syms) if g["addr"] == s["addr"] and g["forms"][0] == base] or None
            if ids:
                vlib.log(f"MODEL-DRIFT: demangled spelling differs for {s['name']!r}")
                stats["demangler_drift"] += 1
        if ids is None:
            foreign.append(s)
        else:
            got.update(ids)
    # entities sharing (addr, name) are indistinguishable in the answer: compare on keys
    key = lambda i: (e.syms[i]["addr"], e.syms[i]["forms"][-1])
    gotk = {key(i) for i in got}
    missing = [i for i in must if key(i) not in gotk]
    mayk = {key(i) for i in may}
    extra = [i for i in got if key(i) not in mayk]
    if foreign:
        rep.mismatch("symbol_foreign", act, needle=rx, phase=phase, expected="entries of some .symtab",
                     actual=foreign[:5], program=PROGRAM, script=script)
    if missing:
        by_cause = {}
        for i in missing:
            s = e.syms[i]
            dup = any(t["obj"] == s["obj"] and t["mangled"] == s["mangled"] and t["addr"] != s["addr"] for t in e.syms)
            by_cause.setdefault("duplicate_name_in_object" if dup else "none", []).append(i)
        for cause, ids in by_cause.items():
            rep.mismatch("symbol_missed", act, needle=rx, cause=cause, phase=phase,
                         expected=[f"{e.syms[i]['forms'][-1]} @{e.syms[i]['obj']}:{e.syms[i]['addr']:#x}" for i in ids[:8]],
                         actual=f"{len(row['syms'])} symbol(s) listed, these {len(ids)} not among them", program=PROGRAM, script=script)
    if extra:
        rep.mismatch("symbol_foreign", act, needle=rx, phase=phase, expected="only symbols whose name matches",
                     actual=[e.syms[i]["forms"][-1] for i in extra[:8]], program=PROGRAM, script=script)
    stats["sym_queries"] += 1
    if must:
        sample("sym", 2, regex=rx, must_from_tlc=[e.syms[i]["forms"][-1] for i in must[:4]], n_must=len(must),
               n_may=len(may), listed=[x["name"] for x in row["syms"][:4]], n_listed=len(row["syms"]))
    if must:
        stats["sym_nonempty"] += 1


def e2e_leg(rep, tier, exe, stats, tlc_stats, only=None):
    gt = c17_gt.ground_truth()
    e = E2E(gt)
    fn_needles, file_needles, pats = c17_gt.choose_inputs(gt, tier, vlib.seed())
    if only is not None:
        fn_needles = [only["needle"]] if only["kind"] == "fn" else []
        file_needles = [only["needle"]] if only["kind"] == "line" else []
        pats = [only["pat"]] if only["kind"] == "sym" else []
    fa, la, sa = gt_tlc([f["readings"] for f in e.live], [f["readings"] for f in e.files],
                        [s["forms"] for s in e.syms], fn_needles, file_needles, pats, tlc_stats)
    queries = [{"kind": "fn", "needle": n} for n in fn_needles]
    queries += [{"kind": "line", "needle": n, "line": 3} for n in file_needles]
    queries += [{"kind": "sym", "regex": c17_gt.regex_of(p), "static_only": True} for p in pats]
    rc, rows, se = run_e2e_harness(exe, gt, queries)
    if not rows or not rows[-1].get("done"):
        # the debugger died under one of the queries: that query is the datum
        lastq = max([r.get("q", -1) for r in rows] or [-1])
        nxt = queries[min(lastq + 1, len(queries) - 1)] if queries else {}
        rep.mismatch("crash", ACTION.get(nxt.get("kind"), "session"), needle=nxt.get("needle", nxt.get("regex")),
                     expected="an answer", actual=f"driver exited rc={rc}: {se[-500:]}",
                     script={"leg": "e2e", "kind": nxt.get("kind"), "needle": nxt.get("needle"), "phase": "any"})
    start = [r for r in rows if r.get("phase") == "start"]
    if start and "Ok(Ok(()))" not in start[0]["started"]:
        raise vlib.ToolError(f"puppet did not start: {start[0]}")
    nrun = 0
    for r in rows:
        if "q" not in r:
            continue
        q = queries[r["q"]]
        k = r["q"]
        if only is not None and only.get("phase") in ("static", "running") and r["phase"] != only["phase"]:
            continue
        nrun += 1
        if q["kind"] == "fn":
            compare_fn(rep, e, q["needle"], r["phase"], r, fa[k][0], fa[k][1], stats)
        elif q["kind"] == "line":
            kk = k - len(fn_needles)
            compare_line(rep, e, q["needle"], r["phase"], r, la[kk][0], la[kk][1], stats)
        else:
            kk = k - len(fn_needles) - len(file_needles)
            compare_sym(rep, e, pats[kk], r["phase"], r, sa[kk][0], sa[kk][1], stats)
    stats["e2e_queries"] += nrun
    if only is None:
        if not stats["fn_multi"] or not stats["line_multi"] or not stats["sym_nonempty"]:
            raise vlib.ToolError(f"vacuous end-to-end run: {stats}")
        # near-miss coverage: needles that must select nothing although a longer/shorter spelling does
        stats["fn_empty_expectations"] = sum(1 for m, _ in fa if not m)
        stats["line_empty_expectations"] = sum(1 for m, _ in la if not m)
        stats["universe"] = {"functions_live": len(e.live), "functions_dead_dies": len(e.dead), "files": len(e.files),
                             "symbols": len(e.syms), "objects": len(gt["objects"]),
                             "fn_needles": len(fn_needles), "file_needles": len(file_needles), "patterns": len(pats)}
    return gt


# =====================================================================================================
def replay_index(rep, exe, sc, stats, tlc_stats):
    ins, nd, delim = sc["ins"], sc["needle"], sc["delim"]
    if nd is None:
        raise vlib.ToolError("replay of a panic case without needle is not supported")
    fa, _, _ = gt_tlc([[p] for p in ins], [], [], [nd], [], [], tlc_stats, fn_delim=delim)
    exp = {nd: [i + 1 for i in fa[0][0]]} if fa[0][0] else {}
    run_index_cases(rep, exe, "replay", delim, [nd], [(ins, exp)], stats)


def run(rep, tier, replay):
    from collections import Counter
    stats, tlc_stats = Counter(), {"states": 0, "transitions": 0, "runs": [], "gt_answers": 0}
    exe = vlib.cargo_build("c17")
    if replay:
        rec = json.loads(Path(replay).read_text())
        sc = rec["script"]
        if sc["leg"] == "index":
            replay_index(rep, exe, sc, stats, tlc_stats)
        elif sc["leg"] == "e2e":
            e2e_leg(rep, tier, exe, stats, tlc_stats, only=sc)
        else:
            raise vlib.ToolError("this record is a model-level result; re-run the tier instead")
        n = stats["index_cases"] + stats["e2e_queries"]
        return rep.finish("model_checking", {"states": tlc_stats["states"], "transitions": tlc_stats["transitions"],
                                             "traces_validated_against_impl": n, "samples": SAMPLES + [sc], "replay": True,
                                             "tlc_runs": tlc_stats["runs"]})
    index_leg(rep, tier, exe, stats, tlc_stats)
    e2e_leg(rep, tier, exe, stats, tlc_stats)
    samples = SAMPLES or [{"kind": "none"}]
    cov = {"states": tlc_stats["states"], "transitions": tlc_stats["transitions"],
           "traces_validated_against_impl": stats["index_cases"] + stats["e2e_queries"],
           "samples": samples, "tlc_runs": tlc_stats["runs"], "gt_answers_from_tlc": tlc_stats["gt_answers"],
           "counts": {k: v for k, v in stats.items() if k != "universe"}, "universe": stats.get("universe"),
           "model_bound": stats["index_disagreements"] == 0}
    return rep.finish("model_checking", cov, assumptions=[
        "ground truth = llvm-dwarfdump 14 (DIEs, line tables), readelf (.symtab), c++filt -s rust (demangling)",
        "fully-qualified path of a function = demangled linkage name without the hash, split at top-level `::`; "
        "where `::` occurs inside <...> both the top-level and the flat split are admitted (must/may), design/C17.md",
        "symbol names: legacy-mangled symbols are admitted with and without the ::h<hash> component (must/may)",
        "regex family: ^lit$, ^lit, lit$, lit over escaped literals; semantics in spec/PathGT.tla",
        "string interner abstracted to identity in PathIndex.tla"])

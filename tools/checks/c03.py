"""C03 - step commands land where their definition says, relative to the real execution."""
import json
import random

import vlib
import sesslib
from checks import sess_common as sc


def run(rep, tier, replay):
    return run_family(rep, tier, replay, "C03", mix="steps",
                      probes=["text"],
                      quick=dict(maxcmd=16, maxbps=2, ncands=3, nhist=10, signals=True, frames=True),
                      thorough=dict(maxcmd=20, maxbps=3, ncands=5, nhist=40, signals=True, frames=True, nopie=True))


def pick_cands(p, n, rng):
    """Candidate breakpoint addresses: statement rows of lines the execution reaches.  First the
    first body line of each function (deepest-reaching functions first: recursion, nesting), then
    random other lines, spread over the functions."""
    sl = p.stmt_lines()
    byfn, depth = {}, {}
    for x in p.X:
        depth[x["fn"]] = max(depth.get(x["fn"], 0), x["d"])
    for ln, a in sorted(sl.items()):
        byfn.setdefault(p.fn_of(a), []).append(a)
    fns = sorted(byfn, key=lambda f: (-depth.get(f, 0), f))
    cands = []
    for f in fns:
        if len(cands) < n and byfn[f]:
            cands.append(byfn[f].pop(0))
    while len(cands) < n and any(byfn.values()):
        for f in fns:
            if byfn[f] and len(cands) < n:
                a = rng.choice(byfn[f])
                byfn[f].remove(a)
                cands.append(a)
    return set(cands)


def run_family(rep, tier, replay, prop, mix, probes, quick, thorough, by_kinds=False, run_out=False, extra_cov=None):
    cfg = quick if tier == "quick" else thorough
    rng = random.Random(vlib.seed())
    own = sc.OWN[prop]
    states = trans = sessions = events = pairs_covered = 0
    samples, predictions, distinct = [], {}, set()

    if replay:
        rec = json.loads(open(replay).read())
        p = sesslib.Puppet(sesslib.SESS_SRC / rec["puppet_src"], *rec.get("build", ["1.89", 0, True]))
        res = sc.run_and_judge(p, [rec["script"]], f"{prop}-replay")
        for scr, evs, vs, info in res:
            report(rep, prop, own, p, scr, evs, vs, info)
        return rep.finish("model_checking", {"states": 1, "transitions": 1, "traces_validated_against_impl": 1,
                                             "samples": [rec["script"]["cmds"]]})

    builds = [("1.89", 0, True)]
    if tier == "thorough":
        builds += [("1.95", 0, True), ("nightly", 0, True)]
    if cfg.get("nopie"):
        builds += [("1.89", 0, False)]           # position-dependent executable (link address = run address)
    plist = sc.puppet_list(tier, deep=(prop == "C05"))
    if cfg.get("mixed"):
        plist = plist + [sesslib.SESS_SRC / f"{n}.rs" for n in sc.PUPPETS_MIXED]
    for src in plist:
        for b in builds:
            if src.stem in sc.PUPPETS_DEEP and b != builds[0]:
                continue                       # one build of the long execution is enough
            if not b[2] and (src.stem in sc.PUPPETS_MIXED or (tier == "quick" and src.stem != plist[0].stem)):
                continue                       # quick: one position-dependent puppet
            p = sesslib.Puppet(src, *b)
            p.lifecycle = bool(cfg.get("lifecycle"))
            p.signals = bool(cfg.get("signals"))
            p.extras = bool(cfg.get("extras"))
            p.frames = bool(cfg.get("frames"))
            if p.ambiguous:
                raise vlib.ToolError(f"{p.key}: {p.ambiguous} (pc, TICK) pairs are not unique; stops cannot be identified")
            cands = pick_cands(p, cfg["ncands"], rng)
            pmix = mix
            if src.stem in sc.PUPPETS_MIXED:
                # Rust + C (CFI of the C functions in .debug_frame only): stops in Rust callbacks called from C
                # and inside the C functions themselves; run/breakpoint commands only (the reference's line
                # annotation covers the Rust source alone, so step commands are not judged here)
                cands |= c_return_addrs(p)
                pmix = "bps"
            r = sc.model_check(p, set(sorted(cands)[:4]), min(cfg["maxcmd"], 5), min(cfg["maxbps"], 2))   # exhaustive leg: small bounds
            states += r.distinct
            trans += r.generated
            if prop == "C03" and b == builds[0]:
                predictions[p.key] = sc.design_prediction(p, cands, 8, 1)
            # the long execution (recursion depth 100): fewer histories, TLC evaluates the scanners over 10^4 positions
            nh = min(cfg["nhist"], 10) if src.stem in sc.PUPPETS_DEEP else cfg["nhist"]
            hists, npairs = sc.gen_histories(p, cands, cfg["maxcmd"], cfg["maxbps"], nh, vlib.seed(), pmix,
                                             maxbk=cfg.get("maxbk", 3))
            if cfg.get("also_mixed") and pmix == mix:
                h2, n2 = sc.gen_histories(p, cands, cfg["maxcmd"], cfg["maxbps"], cfg["also_mixed"], vlib.seed() + 1, "all",
                                          maxbk=cfg.get("maxbk", 3))
                hists += h2
                npairs += n2
            if cfg.get("also_adjacent"):
                # breakpoints on neighbouring instructions (their patched words overlap): both orders of
                # setting, removing and hitting them
                adj = adjacent_cands(p, cands)
                if adj:
                    h3, n3 = sc.gen_histories(p, adj, cfg["maxcmd"], 2, cfg["also_adjacent"], vlib.seed() + 2, "adjacent",
                                              maxbk=cfg.get("maxbk", 3))
                    hists += h3
                    npairs += n3
            pairs_covered += npairs
            if not hists:
                raise vlib.ToolError(f"{p.key}: TLC generated no usable history")
            by = None
            scripts = []
            for k, h in enumerate(hists):
                if by_kinds:
                    by = by_map(p, cands, k)
                scr = sc.to_script(p, [{kk: v for kk, v in c.items() if kk != "at"} for c in h], probes, by)
                if run_out:
                    scr["cmds"].append({"cmd": "run_to_exit"})
                if cfg.get("attach") and k % 2 == 1:
                    scr = attach_variant(p, scr, keep_restart=(k % 4 == 3))
                scripts.append(scr)
            res = sc.run_and_judge(p, scripts, f"{prop}-{p.key}")
            for scr, evs, vs, info in res:
                sessions += 1
                events += len(evs)
                for e in evs:
                    distinct.add((p.key, e["cmd"], e["idx"], tuple(e["patched"])))
                report(rep, prop, own, p, scr, evs, vs, info, build=list(b))
            if len(samples) < 3:
                samples.append({"puppet": p.key, "cmds": [c["cmd"] + (":%x" % c["addr"] if "addr" in c else "") for c in scripts[0]["cmds"]]})
    cov = {"states": states, "transitions": trans, "traces_validated_against_impl": sessions,
           "events_judged": events, "position_command_pairs_covered": pairs_covered, "distinct_observations": len(distinct), "samples": samples}
    if predictions:
        cov["design_level_prediction"] = predictions
    if extra_cov:
        cov.update(extra_cov)
    return rep.finish("model_checking", cov, assumptions=[
        "the reference execution is recorded by an independent ptrace single-stepper (harness/src/bin/reftrace.rs)",
        "line table decoded by llvm-dwarfdump; positions of real stops identified by (rip from /proc, the puppet's own TICK)",
        "programs are the puppets under puppets/sess (deterministic, single-threaded)"])


def attach_variant(p, scr, keep_restart=False):
    """The same history against an externally started process (real ASLR) that the debugger attaches
    to; the session ends by releasing it (detach or quit), after arming a watchpoint so that the
    debug-register post-condition is not vacuous.  With `keep_restart` a `restart` of the history is kept:
    the debugger kills the attached process and launches the program itself - from there on it is a
    launched program, and the session ends by quitting, which must leave nothing behind."""
    keep = keep_restart and any(c["cmd"] == "restart" for c in scr["cmds"])
    cmds, restarted = [], False
    for c in scr["cmds"]:
        if c["cmd"] == "run_to_exit" or (c["cmd"] in ("restart", "drop") and not keep):
            continue
        if c["cmd"] == "drop" and not restarted:
            continue
        if c["cmd"] == "restart":
            restarted = True
        if c["cmd"] == "start":
            c = {"cmd": "continue"}
        cmds.append(c)
    if restarted:
        if cmds[-1]["cmd"] != "drop":
            cmds.append({"cmd": "drop"})
    else:
        cmds.append({"cmd": "watch_addr", "addr": sesslib.nm_symbols(p.exe)["WATCHME"][0], "size": 8})
        cmds.append({"cmd": "detach"} if len(cmds) % 2 == 0 else {"cmd": "noop"})
    s2 = dict(scr)
    s2["cmds"] = cmds
    s2["attach"] = True
    return s2


def c_return_addrs(p, n=2):
    """Return addresses inside the puppet's C functions (taken from the reference call stacks): stops
    there have the C function as innermost frame."""
    cf = [(lo, hi) for name, lo, hi in p.funcs if name.startswith(p.crate + "_c_")]
    res = []
    for st in p.stacks:
        for a in st:
            if any(lo <= a < hi for lo, hi in cf) and a not in res:
                res.append(a)
    return set(res[:n])


def adjacent_cands(p, cands):
    """A candidate address that is reached more than once, plus the address of the instruction executed
    right after it when that lies less than 8 bytes further (same function, no call in between)."""
    count = {}
    for x in p.X:
        count[x["pc"]] = count.get(x["pc"], 0) + 1
    for a in sorted(cands, key=lambda a: -count.get(a, 0)):
        for j in range(len(p.X) - 1):
            x, y = p.X[j], p.X[j + 1]
            if x["pc"] == a and not x["ext"] and y["fn"] == x["fn"] and y["d"] == x["d"] and 0 < y["pc"] - a < 8 \
                    and j + 1 < p.tail:
                return {a, y["pc"]}
    return set()


def by_map(p, cands, k):
    """Alternate between address / file:line / function breakpoints for the same locations."""
    sl = p.stmt_lines()
    inv = {a: ln for ln, a in sl.items()}
    first_of_fn = {}
    for x in p.X:
        if x["st"] and x["pe"] and x["fn"] > 0:
            first_of_fn.setdefault(x["fn"], x["pc"])
    fn_at = {a: f for f, a in first_of_fn.items()}
    m = {}
    for n, a in enumerate(sorted(cands)):
        mode = (n + k) % 3
        if mode == 1 and a in inv:
            m[a] = ("line", inv[a])
        elif mode == 2 and a in fn_at:
            name = p.funcs[fn_at[a] - 1][0]
            last = name.split("::")[-1]
            if last.isidentifier():
                m[a] = ("fn", last)       # a generic selects every instantiation: the debugger's answer says which
    return m


def epilogue_addr(p, fn):
    """lowest address of an epilogue_begin row inside function `fn` (1-based index into p.funcs)."""
    if fn <= 0:
        return None
    _, lo, hi = p.funcs[fn - 1]
    c = [r["addr"] for r in p.rows if lo <= r["addr"] < hi and r["epilogue_begin"]]
    return min(c) if c else None


def cause_of(p, v):
    """Independent facts about a verdict, used to keep known-finding matches narrow."""
    c = {}
    exp, act = v.get("expected"), v.get("actual")
    if v["class"] in ("past_first_line_boundary", "inside_callee_past_boundary") and isinstance(exp, list) and exp and isinstance(act, int):
        u = max(exp)
        if 1 <= u <= len(p.X):
            x = p.X[u - 1]
            ea = epilogue_addr(p, x["fn"])
            c["skipped_row_after_epilogue_addr"] = bool(ea is not None and x["pc"] > ea)
            c["skipped_line_differs_from_landing_line"] = bool(1 <= act <= len(p.X) and p.X[act - 1]["ln"] != x["ln"])
    if v["class"] in ("stopped_before_return", "wrong_caller_frame") and isinstance(exp, list) and exp and isinstance(act, int):
        e0 = exp[0]
        if 1 <= e0 <= len(p.X) and 1 <= act <= len(p.X):
            c["recursive_return_address"] = p.X[e0 - 1]["pc"] == p.X[act - 1]["pc"]
    if v["class"] in ("backtrace_truncated", "backtrace_wrong_frame") and isinstance(exp, list):
        c["repeated_return_address"] = len(set(exp)) < len(exp)
        if isinstance(act, list) and act:
            k = 0
            while k < min(len(exp), len(act)) and exp[k] == act[k]:
                k += 1
            c["first_missing_is_repeat"] = bool(k < len(exp) and exp[k] in exp[:k])
    return c


def report(rep, prop, own, p, scr, evs, vs, info, build=None):
    cmds = [c["cmd"] for c in scr["cmds"]]
    for v in vs:
        if v["class"] not in own:
            continue
        # attribute place/pc classes to the property that owns the command kind
        if v["class"] in ("place_ne_pc", "line_ne_pc_line", "pc_not_in_execution", "command_failed"):
            if prop == "C01" and v["action"] not in sc.RUN_CMDS:
                continue
            if prop == "C03" and v["action"] not in sc.STEP_CMDS:
                continue
            if prop == "C11" and v["action"] != "restart":
                continue
        rep.mismatch(v["class"], v["action"], expected=v["expected"], actual=v["actual"], at_event=v["k"],
                     puppet=p.key, puppet_src=p.src.name, build=build or ["1.89", 0, True], script=scr,
                     **cause_of(p, v))
    if prop == "C02" and scr["cmds"] and scr["cmds"][-1]["cmd"] == "run_to_exit" and info["complete"]:
        last = info.get("last_res") or {}
        if info.get("stdout") != p.native_stdout:
            rep.mismatch("output_differs", "session", expected=p.native_stdout, actual=info.get("stdout"),
                         puppet=p.key, puppet_src=p.src.name, build=build or ["1.89", 0, True], script=scr)
        code = (last.get("ret") or {}).get("code")
        if last.get("ok") and code != p.native_exit:
            rep.mismatch("exit_status_differs", "session", expected=p.native_exit, actual=code,
                         puppet=p.key, puppet_src=p.src.name, build=build or ["1.89", 0, True], script=scr)
        if not last.get("ok") and "exit" not in str(last.get("err", "")) and not any(e.get("said") == "exit" for e in evs):
            rep.mismatch("run_to_exit_failed", "session", actual=last, puppet=p.key, puppet_src=p.src.name,
                         build=build or ["1.89", 0, True], script=scr)
    for pm in info.get("panics", []):
        rep.mismatch("panic", "session", actual=str(pm)[:300], puppet=p.key, puppet_src=p.src.name,
                     build=build or ["1.89", 0, True], script=scr)
    if not info["complete"]:
        rep.mismatch("session_died", "session", actual=info["stderr"][-300:], puppet=p.key, puppet_src=p.src.name,
                     build=build or ["1.89", 0, True], script=scr)

"""C19 - only what is in scope is shown, and it belongs to the selected frame.

Oracle: spec/Scope.tla (declarative InScope / Resolve / frame selection) evaluated by TLC over the binary's own
DWARF as decoded by llvm-dwarfdump (tools/c19_dwarf.py) and over raw memory / registers read by the driver
(harness/src/bin/c19.rs) without BugStalker's variable machinery.  Binding: TLC generates command histories with
`frame k` commands (spec/ScopeSession.tla), the real Debugger replays them, TLC judges every recorded observation
(spec/TraceScope.tla).  The operators themselves are model-checked over all small block trees (spec/ScopeMC.tla).
"""
import json
import os
import random
import subprocess
import threading
import re
import time
from concurrent.futures import ThreadPoolExecutor
from pathlib import Path

import vlib
import sesslib
import c19_dwarf
from vlib import ToolError, log, WORK

PUPPETS = ["scope5", "rec6", "align7"]
PUPPETS_O1 = ["regs8"]       # built at opt-level 1 in both tiers
CLASSES = {"out_of_scope_variable_listed", "sibling_block_variable_listed", "declared_later_listed",
           "in_scope_variable_missing", "shadowed_name_resolves_to_outer", "wrong_frame_value", "wrong_value",
           "wrong_register", "query_failed", "value_from_callers_frame_base",
           "location_list_end_inclusive"}
STEP_CMDS = {"stepi", "step", "next", "finish"}
QUICK = dict(builds=[("1.89", 0, True)], maxcmd=14, maxbps=2, ncands=4, nhist=7, mc="ScopeMC_q.cfg", session_e=0)
THOROUGH = dict(builds=[(tc, o, True) for tc in ("1.89", "1.95", "nightly") for o in (0, 1)],
                maxcmd=16, maxbps=3, ncands=6, nhist=12, mc="ScopeMC_t.cfg", session_e=5)


# ------------------------------------------------------------------------------------------
# puppet + independent scope facts
# ------------------------------------------------------------------------------------------
class Subject:
    def __init__(self, src, build):
        self.build = list(build)
        self.p = sesslib.Puppet(src, *build)
        p = self.p
        if p.ambiguous:
            raise ToolError(f"{p.key}: {p.ambiguous} (pc, TICK) pairs are not unique; stops cannot be identified")
        cache = p.exe.parent / "c19_dwarf.json"
        if cache.exists():
            dw = json.loads(cache.read_text())
            dw["globals"] = set(dw["globals"])
            for v in dw["vars"]:
                v["locs"] = [tuple(l) for l in v["locs"]]
        else:
            dw = c19_dwarf.decode(p.exe, p.src.name, crate=p.crate)
            tmp = dict(dw)
            tmp["globals"] = sorted(dw["globals"])
            cache.write_text(json.dumps(tmp))
        self.dw = dw
        user = {lo for _, lo, hi in p.funcs}
        self.fnblocks = [b for b in dw["blocks"] if b["kind"] == "fn"]
        if not self.fnblocks or not dw["vars"]:
            raise ToolError(f"{p.key}: no scope facts decoded from DWARF")
        # every function the reference tracer follows must be known to the scope table (else frames are unjudgeable)
        known = {b["ranges"][0][0] for b in self.fnblocks}
        self.names = sorted({v["name"] for v in dw["vars"] if re.fullmatch(r"[a-z_][a-z0-9_]*", v["name"] or "")})
        self.opt = build[1]
        self.dir = None

    def depth_at(self, pc):
        """number of blocks open at pc (input selection only, never used for a verdict)"""
        return sum(1 for b in self.dw["blocks"] if any(lo <= pc < hi for lo, hi in b["ranges"]))

    def data(self, cands, maxcmd, maxbps, root, base):
        d, cfg = self.p.tla_data(cands, maxcmd, maxbps, root=root, base=base)
        (d / "ScopeData.tla").write_text(c19_dwarf.tla_module(self.dw, self.opt, self.names))
        self.dir = d
        return d, cfg

    def script(self, cmds):
        p = self.p
        return {"tick": p.meta["tick_addr"], "src": p.src.name, "cmds": cmds, "names": self.names,
                "fns": [[lo, hi] for _, lo, hi in p.funcs], "vars": c19_dwarf.driver_table(self.dw)}


def pick_cands(s, n, rng):
    """breakpoint candidates: per function the reached statement line with the most open blocks, then random ones"""
    p = s.p
    sl = p.stmt_lines()
    byfn = {}
    for ln, a in sorted(sl.items()):
        f = p.fn_of(a)
        name = p.funcs[f - 1][0] if f else ""
        if f and not name.endswith(("::main", "::report", "::gate", "::gate2", "::GATE")):
            byfn.setdefault(f, []).append(a)
    cands = []
    for f in sorted(byfn):
        best = max(byfn[f], key=lambda a: (s.depth_at(a), a))
        cands.append(best)
        byfn[f].remove(best)
    rest = [a for f in sorted(byfn) for a in byfn[f]]
    rng.shuffle(rest)
    return set((cands + rest)[:max(n, len(cands))])


# ------------------------------------------------------------------------------------------
# TLC: operators over all small trees (E), histories with frame commands (E small / G)
# ------------------------------------------------------------------------------------------
def model_check_operators(cfgname, workers, coverage=False):
    r = vlib.tlc("ScopeMC", cfgname, workers=workers, timeout=1500, heap="3g", coverage=coverage)
    vlib.tlc_expect_ok(r, "ScopeMC (E)")
    if coverage:
        vac = vlib.vacuous_actions(r)
        if vac or not r.coverage:
            raise ToolError(f"ScopeMC: vacuous actions {vac} (coverage entries: {len(r.coverage)})")
    if r.violated:
        raise ToolError(f"the scope specification violates its own theorem {r.violated}:\n{r.out[-2500:]}")
    pr = vlib.tlc("ScopeMC", "ScopeMC_pred.cfg", workers=1, timeout=600, heap="2g")
    pred = "violated" if pr.violated else ("error" if pr.error else "holds")
    return r, pred


def session_model_check(s, cands, maxcmd, maxbps, workers):
    d, cfg = s.data(cands, maxcmd, maxbps, "MCS", "ScopeSession")
    r = sesslib.tlc_in(d, "MCS", cfg + "SPECIFICATION SSpec\nINVARIANT STypeOK\nVIEW SView\n", "MCS_E.cfg",
                       workers=workers, timeout=900, heap="3g")
    vlib.tlc_expect_ok(r, f"ScopeSession (E) {s.p.key}")
    if r.violated:
        raise ToolError(f"ScopeSession violates {r.violated} on {s.p.key}")
    return r


def gen_histories(s, cands, cfg, seed):
    d, c = s.data(cands, cfg["maxcmd"], cfg["maxbps"], "MCS", "ScopeSession")
    r = sesslib.tlc_in(d, "MCS", c + "SPECIFICATION SSpec\nINVARIANT EmitHist\n", "MCS_G.cfg", workers=1,
                       simulate=max(600, cfg["nhist"] * 60), depth=cfg["maxcmd"] + 1, seed_arg=seed, timeout=600, heap="3g")
    hs = vlib.printed(r.out, "HIST")
    if r.error and not hs:
        raise ToolError(f"history generation failed: {r.error}\n{r.out[-2000:]}")
    pool, seen = [], set()
    for h in hs:
        if not isinstance(h, list):
            continue
        kinds = [c_["cmd"] for c_ in h]
        if kinds.count("frame") < 2 or not any(k in ("start", "continue") for k in kinds):
            continue
        key = json.dumps(h, sort_keys=True)
        if key in seen:
            continue
        seen.add(key)
        pairs = set()
        for c_ in h:
            if c_["cmd"] == "frame":
                pairs.add((c_["at"], c_["k"]))
            elif c_["cmd"] in STEP_CMDS or c_["cmd"] in ("start", "continue"):
                pairs.add((c_.get("at", 0), 0))
        pairs = {x for x in pairs if 1 <= x[0] < s.p.tail}
        pool.append((h, pairs))
    res, covered = [], set()
    # deep stops and outer frames weigh more: (position, frame k) counts 1 + 2 * call depth of the position + k
    def gain(ps):
        return sum(1 + 2 * s.p.X[at - 1]["d"] + k for at, k in ps - covered)
    while pool and len(res) < cfg["nhist"]:
        best = max(range(len(pool)), key=lambda k: gain(pool[k][1]))
        h, pairs = pool.pop(best)
        if res and not (pairs - covered):
            break
        covered |= pairs
        res.append(h)
    return res, len(covered), r


# ------------------------------------------------------------------------------------------
# the real debugger
# ------------------------------------------------------------------------------------------
_DRV = []
_LOCK = threading.Lock()


def driver():
    if not _DRV:
        _DRV.append(vlib.cargo_build("c19"))       # remember the first answer (it honours VERIF_TARGET_DIR)
    return _DRV[0]


def run_session(exe, script, tag, timeout=240):
    drv = driver()
    d = WORK / "c19" / "runs"
    d.mkdir(parents=True, exist_ok=True)
    sp, op = d / f"{tag}.script.json", d / f"{tag}.out.ndjson"
    sp.write_text(json.dumps(script))
    if op.exists():
        op.unlink()
    try:
        pr = subprocess.run([str(drv), str(exe), str(sp), str(op)], stdout=subprocess.PIPE, stderr=subprocess.PIPE,
                            timeout=timeout, text=True, start_new_session=True)
        rc, err = pr.returncode, pr.stderr
    except subprocess.TimeoutExpired:
        rc, err = -9, "watchdog timeout"
        vlib.sh("pkill -9 -f %s || true" % re.escape(str(exe)), check=False)
    obs = vlib.ndjson_read(op) if op.exists() else []
    return rc, err, obs


def _pairs(v):
    """driver list -> ([[name, value]..], failed)"""
    if isinstance(v, list):
        return [[str(a or ""), str(b)] for a, b in v], False
    return [], True


def to_events(s, obs):
    """driver observations -> TraceScope events (one per command that left the program stopped)"""
    p = s.p
    evs = []
    fr = 0
    for o in obs:
        if o.get("ev") != "obs":
            continue
        c, res, after = o["cmd"], o["res"], o.get("after") or {}
        name = c["cmd"]
        ok = bool(res.get("ok"))
        if name == "frame":
            if ok:
                fr = c["k"]
        elif name in ("start", "continue") or name in STEP_CMDS:
            fr = 0
        else:
            continue
        facts = after.get("facts") or {}
        rip, tick = after.get("rip"), after.get("tick")
        idx = p.index.get((rip, tick), 0) if after.get("started") else 0
        good = ok and idx > 0 and "raw" in facts
        loc, lerr = _pairs(after.get("locals"))
        arg, aerr = _pairs(after.get("args"))
        rs = []
        for q in after.get("res") or []:
            vals, err = _pairs(q["got"])
            rs.append({"name": q["name"], "vals": [v for _, v in vals], "err": err})
        raw = [[{"v": x["v"], "e": x["e"], "val": x["val"], "alt": x.get("alt") or [], "up": x.get("up") or "unk"} for x in fr_] for fr_ in facts.get("raw") or []]
        evs.append({"cmd": "obs" if name == "frame" or ok or idx > 0 else "skip", "k": o["k"], "idx": idx, "fr": fr, "ok": good,
                    "chain": facts.get("chain") or [], "locals": loc, "lerr": lerr, "args": arg, "aerr": aerr, "res": rs,
                    "raw": raw, "action": name, "frame_ok": ok, "ecx_pc": after.get("ecx_pc"), "frame_num": after.get("frame_num"),
                    "err": str(res.get("err") or res.get("panic") or "")[:160]})
    return evs


RESET = {"cmd": "reset", "k": -1, "idx": 0, "fr": 0, "ok": False, "chain": [], "locals": [], "lerr": False, "args": [],
         "aerr": False, "res": [], "raw": []}


def judge(s, events, tag):
    d, _cfg = s.data(set(), 0, 0, "MCV", "TraceScope")
    cfg = ""
    tf = d / f"{tag}.trace.ndjson"
    keep = ("cmd", "k", "idx", "fr", "ok", "chain", "locals", "lerr", "args", "aerr", "res", "raw")
    vlib.ndjson_write(tf, [{k: e[k] for k in keep} for e in events], tla=True)
    r = sesslib.tlc_in(d, "MCV", cfg + "SPECIFICATION TraceSpec\nINVARIANT TraceDone\n", "MCV.cfg", workers=1,
                       env={"TRACE": str(tf)}, timeout=900, heap="3g")
    if r.error or r.violated:
        raise ToolError(f"trace validation could not run ({r.violated or r.error}):\n{r.out[-3000:]}")
    v = vlib.printed(r.out, "VERDICT")
    if not v:
        raise ToolError(f"trace validation printed no verdict:\n{r.out[-2000:]}")
    if v[-1]["n"] != len(events):
        raise ToolError("trace validation consumed a different number of events")
    return v[-1]["viol"], v[-1]["stats"], r


def run_and_judge(s, scripts, tag):
    par = int(os.environ.get("VERIF_PAR", "4"))
    driver()
    t0 = time.time()
    with ThreadPoolExecutor(max_workers=par) as ex:
        outs = list(ex.map(lambda a: run_session(s.p.exe, a[1], f"{tag}-{a[0]}"), list(enumerate(scripts))))
    log(f"[c19] {len(scripts)} sessions on {s.p.key} in {time.time()-t0:.1f}s")
    batch, spans = [], []
    for n, sc in enumerate(scripts):
        rc, err, obs = outs[n]
        evs = to_events(s, obs)
        info = {"rc": rc, "stderr": err[-400:], "complete": any(o.get("ev") == "end" for o in obs),
                "panics": [o["res"].get("panic") for o in obs if o.get("ev") == "obs" and o["res"].get("panic")]}
        a = len(batch)
        batch.append(dict(RESET))
        batch += evs
        spans.append((sc, evs, info, a + 1, len(batch)))
    for n, e in enumerate(batch):
        e["ck"], e["k"] = e["k"], n            # k: unique within the batch (what TLC sees); ck: command index in its session
    t0 = time.time()
    viol, stats, r = judge(s, batch, tag)
    log(f"[c19] judged {len(batch)} events of {s.p.key} in {time.time()-t0:.1f}s: {stats}")
    return viol, stats, batch, spans


def first_die_value(s, ev, v):
    """independent fact for the known-finding match: does the shown value equal the value of the FIRST in-scope
    binding of the name in DIE order (what die_ref.rs:328 would pick)?"""
    name, k, pc = v["name"], v["frame"], v["pc"]
    blocks = {b["id"]: b for b in s.dw["blocks"]}

    def live(b):
        while b:
            if not any(lo <= pc < hi for lo, hi in blocks[b]["ranges"]):
                return False
            b = blocks[b]["parent"]
        return True
    c = [x for x in s.dw["vars"] if x["name"] == name and x["kind"] == "local" and live(x["block"])]
    if len(c) < 2 or k >= len(ev["raw"]):
        return False
    first = min(c, key=lambda x: x["id"])
    vals = {r["val"] for r in ev["raw"][k] if r["v"] == first["id"]}
    return bool(set(v["actual"]) & vals)


# ------------------------------------------------------------------------------------------
def process(rep, s, scripts, tag, acc):
    viol, stats, batch, spans = run_and_judge(s, scripts, tag)
    _LOCK.acquire()
    try:
        return _account(rep, s, acc, viol, stats, spans)
    finally:
        _LOCK.release()


def _account(rep, s, acc, viol, stats, spans):
    owner = {}
    for n, (sc, evs, info, a, b) in enumerate(spans):
        for e in evs:
            owner[e["k"]] = (sc, e)
    for v in viol:
        if v["class"] not in CLASSES:
            raise ToolError(f"verdict class {v['class']} is not in the vocabulary")
        sc, e = owner[v["k"]]
        extra = {}
        if v["class"] == "shadowed_name_resolves_to_outer":
            extra["resolves_to_first_valid_die"] = first_die_value(s, e, v)
        rep.mismatch(v["class"], v["action"], name=v["name"], frame=v["frame"], pc=v["pc"], expected=sorted(v["expected"]),
                     actual=sorted(v["actual"]), at_event=e["ck"], position=e["idx"], line=s.p.X[e["idx"] - 1]["ln"],
                     puppet=s.p.key, puppet_src=s.p.src.name, build=s.build, script={"cmds": sc["cmds"]}, **extra)
    for sc, evs, info, a, b in spans:
        acc["sessions"] += 1
        acc["events"] += len(evs)
        acc["frame_cmds_failed"] += sum(1 for e in evs if e["action"] == "frame" and not e["frame_ok"])
        for e in evs:
            acc["distinct"].add((s.p.key, e["idx"], e["fr"], json.dumps(e["locals"]), json.dumps(e["res"])))
        for pm in info["panics"]:
            rep.mismatch("panic", "session", actual=str(pm)[:300], puppet=s.p.key, puppet_src=s.p.src.name, build=s.build,
                         script={"cmds": sc["cmds"]})
        if not info["complete"]:
            rep.mismatch("session_died", "session", actual=info["stderr"][-300:], puppet=s.p.key, puppet_src=s.p.src.name,
                         build=s.build, script={"cmds": sc["cmds"]})
    for k, v in stats.items():
        acc["stats"][k] = acc["stats"].get(k, 0) + v
    return stats


def run(rep, tier, replay):
    cfg = QUICK if tier == "quick" else THOROUGH
    rng = random.Random(vlib.seed())
    workers = int(os.environ.get("VERIF_TLC_WORKERS", "4" if tier == "quick" else "8"))
    acc = {"sessions": 0, "events": 0, "frame_cmds_failed": 0, "distinct": set(), "stats": {}}
    if replay:
        rec = json.loads(open(replay).read())
        s = Subject(sesslib.SESS_SRC / rec["puppet_src"], tuple(rec.get("build", ["1.89", 0, True])))
        process(rep, s, [s.script(rec["script"]["cmds"])], "C19-replay", acc)
        return rep.finish("model_checking", {"states": 1, "transitions": 1, "traces_validated_against_impl": 1,
                                             "observations_judged": acc["stats"].get("judged", 0),
                                             "samples": [[c["cmd"] for c in rec["script"]["cmds"]]]})
    # development-only switches (mutant runs): restrict the build matrix / skip the operator model check
    if os.environ.get("VERIF_C19_BUILDS"):
        cfg = dict(cfg, builds=[(b.split(":")[0], int(b.split(":")[1]), True) for b in os.environ["VERIF_C19_BUILDS"].split(",")])
    samples, per = [], {}
    pairs = []
    extra_states = []
    vlib.cargo_build("reftrace")
    driver()

    def one(name, b):
        s = Subject(sesslib.SESS_SRC / f"{name}.rs", b)
        cands = pick_cands(s, cfg["ncands"], random.Random(vlib.seed()))
        if cfg["session_e"] and b == cfg["builds"][0]:
            re_ = session_model_check(s, cands, cfg["session_e"], cfg["maxbps"], max(1, workers // 2))
            extra_states.append((re_.distinct, re_.generated))
        hists, npairs, rg = gen_histories(s, cands, cfg, vlib.seed())
        extra_states.append((0, rg.generated))
        pairs.append(npairs)
        if not hists:
            raise ToolError(f"{s.p.key}: TLC generated no usable history")
        scripts = [s.script([{k: v for k, v in c.items() if k != "at"} for c in h]) for h in hists]
        st = process(rep, s, scripts, f"C19-{s.p.key}", acc)
        per[s.p.key] = st
        # vacuity per build: something was judged, in outer frames too, and values were compared
        if st["judged"] == 0 or st["outer"] == 0 or st["values"] == 0:
            raise ToolError(f"{s.p.key}: vacuous run (judged={st['judged']} outer={st['outer']} values={st['values']})")
        samples.append({"puppet": s.p.key, "cmds": [c["cmd"] + (":%x" % c["addr"] if "addr" in c else "") +
                                                   (":%d" % c["k"] if "k" in c else "") for c in scripts[0]["cmds"]]})

    def mc():
        r, pred = model_check_operators(cfg["mc"], workers, coverage=(tier == "thorough"))
        log(f"[c19] ScopeMC {cfg['mc']}: {r.distinct} trees/states, {r.generated} transitions, {r.wall:.0f}s; "
            f"design-level 'first valid DIE wins' vs Resolve: {pred}")
        return r.distinct, r.generated, pred

    # the operator model check and the per-build pipelines (TLC generate -> real debugger -> TLC judge) are independent
    jobs = int(os.environ.get("VERIF_C19_JOBS", "3"))
    with ThreadPoolExecutor(max_workers=jobs) as ex:
        fmc = None if os.environ.get("VERIF_C19_SKIP_MC") else ex.submit(mc)
        futs = [ex.submit(one, name, b) for name in PUPPETS for b in cfg["builds"]]
        # arguments living in their argument registers (DWARF registers 5, 4, 1, 2, 8, 9): optimised builds only
        o1 = sorted({(b[0], 1, True) for b in cfg["builds"]})
        futs += [ex.submit(one, name, b) for name in PUPPETS_O1 for b in o1]
        for f in futs:
            f.result()
        states, trans, pred = fmc.result() if fmc else (0, 0, "skipped")
    states += sum(x for x, _ in extra_states)
    trans += sum(y for _, y in extra_states)
    pairs_total = sum(pairs)
    samples = sorted(samples, key=lambda x: x["puppet"])[:4]
    st = acc["stats"]
    if st.get("shadow", 0) == 0 or st.get("recur", 0) == 0:
        raise ToolError(f"vacuous run: no judged position had shadowed bindings / recursive activations ({st})")
    if any(b[1] == 0 for b in cfg["builds"]) and st.get("sprel", 0) == 0:
        raise ToolError("vacuous run: no rsp-relative (DW_OP_breg7) variable of an outer frame was judged (puppet align7)")
    if st.get("regvals", 0) == 0:
        raise ToolError("vacuous run: no register-located value was judged in the opt-level 1 builds")
    cov = {"states": states, "transitions": trans, "traces_validated_against_impl": acc["sessions"],
           "events_recorded": acc["events"], "observations_judged": st.get("judged", 0),
           "observations_not_judgeable": st.get("skipped", 0), "outer_frame_observations": st.get("outer", 0),
           "observations_with_shadowing": st.get("shadow", 0), "observations_with_recursive_activations": st.get("recur", 0),
           "in_scope_bindings_judged": st.get("names", 0), "values_compared_with_raw_memory_or_registers": st.get("values", 0),
           "register_located_values_compared": st.get("regvals", 0),
           "rsp_relative_outer_frame_values_compared": st.get("sprel", 0), "frame_commands_refused": acc["frame_cmds_failed"],
           "position_frame_pairs_covered": pairs_total, "distinct_observations": len(acc["distinct"]),
           "design_level_prediction_first_valid_die_wins": pred, "per_build": per, "samples": samples}
    if os.environ.get("VERIF_C19_DUMP"):
        Path(os.environ["VERIF_C19_DUMP"]).write_text(json.dumps(rep.records, indent=1, default=str))
    return rep.finish("model_checking", cov, assumptions=[
        "scope facts (blocks, ranges, variables, locations) are the binary's DWARF as printed by llvm-dwarfdump",
        "expected values are raw bytes at [rbp_k + N] / raw PTRACE_GETREGS registers read by the driver; frame k's rbp from the "
        "saved-rbp chain (puppets are built with force-frame-pointers); observations whose chain differs from the reference "
        "call stack (prologue/epilogue) are not judged",
        "positions of real stops identified by (rip, the puppet's own TICK) in the independently recorded execution",
        "the location of an outer frame is its call site: return address and return address - 1 are both accepted",
        "opt-level 1 (R5): completeness of the listing is not required, opaque DWARF expressions and registers of outer "
        "frames are not compared"])

"""C11 - start, restart, exit, quit and detach leave the world in the promised state."""
import vlib
import sesslib
from checks import c03
from checks import sess_common as sc


def mt_leg(rep, tier):
    """Quit with several live threads (stopped at a breakpoint / after restart / not started):
    no task of the launched program may remain.  Judged by TraceSession's `drop` clause."""
    src = vlib.VERIF / "puppets" / "mt" / "mt7.rs"
    exe = sesslib.build_puppet(src)
    ref = sesslib.Puppet(sesslib.SESS_SRC / "rec1.rs")          # any execution: `drop` does not look at X
    work_line = next(n + 1 for n, l in enumerate(src.read_text().splitlines()) if "COUNT.fetch_add" in l)
    shapes = [
        [{"cmd": "drop"}],
        [{"cmd": "restart"}, {"cmd": "drop"}],          # restart of a process that was never started
        [{"cmd": "break_line", "file": "mt7.rs", "line": work_line}, {"cmd": "start"}, {"cmd": "drop"}],
        [{"cmd": "break_line", "file": "mt7.rs", "line": work_line}, {"cmd": "start"}, {"cmd": "continue"},
         {"cmd": "continue"}, {"cmd": "drop"}],
        [{"cmd": "break_line", "file": "mt7.rs", "line": work_line}, {"cmd": "start"}, {"cmd": "restart"}, {"cmd": "drop"}],
        [{"cmd": "break_line", "file": "mt7.rs", "line": work_line}, {"cmd": "start"},
         {"cmd": "remove_line", "file": "mt7.rs", "line": work_line}, {"cmd": "continue"}, {"cmd": "drop"}],
    ]
    nthreads = [2, 5] if tier == "quick" else [1, 2, 5, 16, 48]
    n = 0
    for nt in nthreads:
        for k, cmds in enumerate(shapes):
            scr = {"tick": 0, "src": "mt7.rs", "probes": ["tasks"], "cmds": cmds, "args": [str(nt)]}
            rc, err, obs = sesslib.run_session(exe, scr, f"C11-mt-{nt}-{k}")
            n += 1
            evs = [e for e in sesslib.to_events(ref, obs) if e["cmd"] == "drop"]
            if not evs:
                rep.mismatch("session_died", "session", actual=err[-300:], script=scr, puppet="mt7", threads=nt)
                continue
            viol, _ = sesslib.judge(ref, [dict(evs[0], k=0)], f"C11-mt-{nt}-{k}")
            for v in viol:
                rep.mismatch(v["class"], v["action"], expected=v["expected"], actual=v["actual"], script=scr,
                             puppet="mt7", threads=nt)
    return n


def run(rep, tier, replay):
    extra = {}
    if not replay:
        extra["mt_sessions"] = mt_leg(rep, tier)
    return c03.run_family(rep, tier, replay, "C11", mix="life", probes=["text", "tasks"], extra_cov=extra,
                          quick=dict(maxcmd=10, maxbps=2, ncands=3, nhist=8, maxbk=3, lifecycle=True, attach=True),
                          thorough=dict(maxcmd=14, maxbps=3, ncands=5, nhist=40, maxbk=4, lifecycle=True, attach=True, nopie=True))

"""C11 - start, restart, exit, quit and detach leave the world in the promised state."""
from checks import c03


def run(rep, tier, replay):
    return c03.run_family(rep, tier, replay, "C11", mix="life", probes=["text", "tasks"],
                          quick=dict(maxcmd=10, maxbps=2, ncands=3, nhist=8, maxbk=3, lifecycle=True, attach=True),
                          thorough=dict(maxcmd=14, maxbps=3, ncands=5, nhist=60, maxbk=4, lifecycle=True, attach=True))

"""C08 -- no input can crash, hang or corrupt the debugger.

Oracle: spec/Console.tla (console lines, command sequences, data query expressions for the poison leg) and
spec/DapInput.tla (DAP messages x argument shapes, envelopes, raw frames, message sequences).  TLC enumerates
the inputs bounded-exhaustively and prints, for every input and session state, the CLASS of admissible outcome
({ok, error}), the admissible next session states and what may happen to the breakpoint list.  Crash, abort
and hang are not outcomes of any action of the specification.

Binding: harness/src/bin/c08.rs is a WORKER process owning one real session (console: Debugger + generic
command handler + terminal hook; DAP: DebugSession::run on the real TCP transport).  This module runs workers
in their own process groups with a wall-clock watchdog per command, feeds them the TLC-generated inputs,
turns worker death (panic / abort / signal) and watchdog expiry into records and restarts a fresh worker.
After every input the worker answers a sentinel (`break info` / `threads`): the session is still usable.
Poison leg: the driver overwrites the puppet's locals through /proc/<pid>/mem with poison patterns before
every data query.  Probes (hook H3) report reads beyond the fetched bytes (`oob_read`).
"""
import base64
import hashlib
import json
import os
import random
import re
import select
import signal
import subprocess
import tempfile
import threading
import time
from concurrent.futures import ThreadPoolExecutor
from pathlib import Path

import vlib

PUPPET_SRC = vlib.VERIF / "puppets" / "c08_puppet.rs"
SCRATCH = vlib.WORK / "c08"
WATCHDOG = 30.0          # seconds per command (an idle 16-core copy of the sandbox needed 10-30 s for a few async / zero-poison queries: slow is not hung)
UTF8 = "é"

RULE = ("every TLC-enumerated console line / command sequence / DAP message / message sequence / (poison pattern, "
        "data query) is executed by a worker process owning a real session; the observed outcome class must be in "
        "the set spec/Console.tla resp. spec/DapInput.tla admits for the session state, the next session state "
        "must be admissible, the sentinel (`break info` / `threads`) must still be answered with an unchanged "
        "breakpoint list where the specification says so; worker death by panic/abort/signal, a watchdog expiry "
        "(10 s per command) or an out-of-buffer read reported by the H3 probes is a violation")


# ------------------------------------------------------------------------------------------------
# puppet
# ------------------------------------------------------------------------------------------------
def build_puppet():
    src = PUPPET_SRC.read_bytes()
    h = hashlib.sha1(src + b"rustc+1.89 --edition 2021 -g").hexdigest()[:12]
    out = vlib.PUPPET_BUILD / f"c08_puppet-{h}"
    if not out.exists():
        vlib.PUPPET_BUILD.mkdir(parents=True, exist_ok=True)
        tmp = vlib.PUPPET_BUILD / f"c08_puppet-{h}.tmp{os.getpid()}"
        vlib.sh(["rustc", "+1.89", "--edition", "2021", "-g", "--crate-name", "c08_puppet",
                 str(PUPPET_SRC), "-o", str(tmp)], timeout=300)
        os.replace(tmp, out)
    probe = None
    for i, l in enumerate(PUPPET_SRC.read_text().splitlines(), 1):
        if "// PROBE" in l:
            probe = i
    if probe is None:
        raise vlib.ToolError("puppet has no PROBE line")
    return str(out), probe


# ------------------------------------------------------------------------------------------------
# worker processes
# ------------------------------------------------------------------------------------------------
def grace():
    try:
        return min(6.0, max(1.0, 2.0 * os.getloadavg()[0] / (os.cpu_count() or 1)))
    except OSError:
        return 1.0


class Died(Exception):
    def __init__(self, cls, info):
        super().__init__(cls)
        self.cls, self.info = cls, info


class Worker:
    """One worker process in its own session/process group; line protocol with a watchdog."""
    count = 0
    lock = threading.Lock()

    def __init__(self, exe, mode, puppet, pargs=()):
        SCRATCH.mkdir(parents=True, exist_ok=True)
        self.err = tempfile.TemporaryFile(dir=SCRATCH)
        env = dict(os.environ)
        env["C08_REPO"] = str(vlib.REPO)
        env["RUST_BACKTRACE"] = "0"
        self.p = subprocess.Popen([str(exe), mode, puppet, *pargs], stdin=subprocess.PIPE, stdout=subprocess.PIPE,
                                  stderr=self.err, start_new_session=True, env=env)
        self.buf = b""
        self.dead = False
        with Worker.lock:
            Worker.count += 1
        r = self._recv(40.0)
        if not r.get("ready"):
            raise vlib.ToolError(f"worker did not come up: {r}")
        self.pid = r.get("pid")

    def _stderr(self):
        try:
            self.err.seek(0)
            return self.err.read().decode("utf-8", "replace")
        except Exception:
            return ""

    def _death(self):
        """classify the death of the worker process"""
        try:
            rc = self.p.wait(timeout=5)
        except subprocess.TimeoutExpired:
            self.kill()
            rc = self.p.wait()
        self.dead = True
        se = self._stderr()
        pan = None
        for l in se.splitlines():
            if l.startswith("C08-PANIC "):
                try:
                    pan = json.loads(l[10:])
                except json.JSONDecodeError:
                    pass
        if rc == 2 or "TOOL-ERROR" in se:
            raise vlib.ToolError(f"worker tool error: {se[-1500:]}")
        if rc < 0:
            sig = -rc
            if sig == signal.SIGABRT:
                m = re.search(r"(memory allocation of \d+ bytes failed|capacity overflow[^\n]*|double panic[^\n]*|"
                              r"panic in a function that cannot unwind[^\n]*|stack overflow[^\n]*)", se)
                return Died("abort", {"signal": "SIGABRT", "msg": (m.group(1) if m else se[-300:]),
                                      "site": (pan or {}).get("site", "abort"), "panic": pan})
            if sig == signal.SIGSEGV and "stack overflow" in se:
                return Died("abort", {"signal": "SIGSEGV", "msg": "stack overflow", "site": "stack-overflow"})
            return Died("signal", {"signal": signal.Signals(sig).name, "msg": se[-300:], "site": signal.Signals(sig).name})
        if pan is not None:
            return Died("panic", {"msg": pan.get("msg", ""), "site": pan.get("site", "?"), "func": pan.get("func", ""), "loc": pan.get("loc"),
                                  "thread": pan.get("thread")})
        return Died("exit", {"rc": rc, "msg": se[-300:], "site": f"exit:{rc}"})

    def _recv(self, timeout):
        # the watchdog is wall-clock; on an overloaded host a healthy command is slow, a hung one stays hung:
        # the limit is stretched by the load factor (1 on an idle machine, at most 6)
        timeout = timeout * grace()
        t_end = time.time() + timeout
        fd = self.p.stdout.fileno()
        while b"\n" not in self.buf:
            left = t_end - time.time()
            if left <= 0:
                self.kill()
                self.dead = True
                raise Died("hang", {"msg": f"no answer within {timeout:.0f}s", "site": "watchdog"})
            r, _, _ = select.select([fd], [], [], min(left, 0.5))
            if r:
                chunk = os.read(fd, 1 << 16)
                if not chunk:
                    raise self._death()
                self.buf += chunk
            elif self.p.poll() is not None:
                # drain what is left
                chunk = os.read(fd, 1 << 16)
                if chunk:
                    self.buf += chunk
                    continue
                raise self._death()
        line, self.buf = self.buf.split(b"\n", 1)
        try:
            return json.loads(line)
        except json.JSONDecodeError:
            raise vlib.ToolError(f"worker printed garbage: {line[:200]!r}")

    def call(self, req, timeout=WATCHDOG):
        if self.dead:
            raise Died("exit", {"msg": "worker already gone", "site": "gone"})
        if req.get("op") in ("msg", "raw"):
            # the worker's own wait for the response (and then for the sentinel) stays inside this watchdog
            req = dict(req, limit_ms=int(timeout * grace() * 1000 * 0.45))
        try:
            self.p.stdin.write((json.dumps(req) + "\n").encode())
            self.p.stdin.flush()
        except (BrokenPipeError, OSError):
            raise self._death()
        return self._recv(timeout)

    def kill(self):
        try:
            os.killpg(self.p.pid, signal.SIGKILL)
        except (ProcessLookupError, PermissionError):
            pass
        try:
            self.p.wait(timeout=5)
        except Exception:
            pass
        self.dead = True
        try:
            self.err.close()
        except Exception:
            pass


# ------------------------------------------------------------------------------------------------
# TLC
# ------------------------------------------------------------------------------------------------
class _Cached:
    def __init__(self, d):
        self.distinct, self.generated, self.wall = d["distinct"], d["generated"], 0.0


def tlc_cases(module, cfg, tags, coverage=False, timeout=900, workers=1):
    cache = None
    if os.environ.get("C08_TLC_CACHE"):          # development only: reuse the parsed output of an identical run
        h = hashlib.sha1((vlib.SPEC / (module + ".tla")).read_bytes() + (vlib.SPEC / "Dqe.tla").read_bytes()
                         + (vlib.SPEC / cfg).read_bytes() + ",".join(tags).encode()).hexdigest()[:16]
        cache = SCRATCH / "cache" / f"{Path(cfg).stem}-{h}.json"
        if cache.exists():
            d = json.loads(cache.read_text())
            return _Cached(d), d["out"]
    r = vlib.tlc(module, cfg, workers=workers, timeout=timeout, coverage=coverage, heap="3g", name=f"c08-{Path(cfg).stem}")
    vlib.tlc_expect_ok(r, cfg)
    if r.violated:
        raise vlib.ToolError(f"{module} is inconsistent with itself ({cfg}: {r.violated})\n{r.out[-1500:]}")
    out = {t: [c for c in vlib.printed(r.out, t) if not isinstance(c, str) or t == "POISONS"] for t in tags}
    vlib.log(f"[c08] TLC {cfg}: {r.distinct} states in {r.wall:.1f}s " + " ".join(f"{t}={len(v)}" for t, v in out.items()))
    if coverage:
        vac = vlib.vacuous_actions(r, ignore=VACUOUS_OK.get(Path(cfg).stem, ()))
        if vac:
            raise vlib.ToolError(f"vacuous TLC actions in {cfg}: {vac}")
    if cache is not None:
        cache.parent.mkdir(parents=True, exist_ok=True)
        cache.write_text(json.dumps({"distinct": r.distinct, "generated": r.generated, "out": out}))
    return r, out


# actions that belong to another mode of the same module
VACUOUS_OK = {
    "Console_lines_lean": ("Submit", "Extend"), "Console_lines_rich": ("Submit", "Extend"),
    "Console_seqs_lean": ("Token", "Extend"), "Console_seqs_rich": ("Token", "Extend"),
    "Console_dqe_d1": ("Token", "Submit"), "Console_dqe_d2": ("Token", "Submit"),
    "DapInput_msgs": ("Submit",), "DapInput_seqs_lean": (), "DapInput_seqs_rich": (),
}


# ------------------------------------------------------------------------------------------------
# shared state of a run
# ------------------------------------------------------------------------------------------------
class Ctx:
    def __init__(self, rep, exe, puppet, probe, tier):
        self.rep, self.exe, self.puppet, self.probe, self.tier = rep, exe, puppet, probe, tier
        self.lock = threading.Lock()
        self.evals = 0
        self.nontrivial = set()
        self.samples = []
        self.stats = {}
        self.subst = {}
        self.deadline = float("inf")

    def bump(self, k, n=1):
        with self.lock:
            self.stats[k] = self.stats.get(k, 0) + n

    def note(self, leg, key, obs):
        with self.lock:
            self.evals += 1
            self.nontrivial.add((leg, key, obs))

    def mismatch(self, cls, action, **kw):
        with self.lock:
            rec = self.rep.mismatch(cls, action, **kw)
            try:
                with open(SCRATCH / "progress.ndjson", "a") as f:      # scratch, for people
                    f.write(json.dumps(rec, default=str) + "\n")
            except OSError:
                pass

    def late(self, leg):
        """the tier's time budget is used up: legs stop taking new work (counted, reported in the evidence)"""
        if time.time() > self.deadline:
            self.bump("cut_short_" + leg)
            return True
        return False

    def sample(self, s):
        with self.lock:
            if len(self.samples) < 12:
                self.samples.append(s)

    def sub(self, text):
        for k, v in self.subst.items():
            text = text.replace(k, v)
        return text


def death_fields(d):
    return {"site": d.info.get("site", "?"), "func": d.info.get("func") or ((d.info.get("panic") or {}).get("func")) or "",
            "panic_msg": str(d.info.get("msg", ""))[:300], "detail": d.info}


# ------------------------------------------------------------------------------------------------
# console legs
# ------------------------------------------------------------------------------------------------
def console_prelude(ctx, state, pargs=()):
    """a fresh console worker brought into `state`"""
    w = Worker(ctx.exe, "console", ctx.puppet, pargs)
    try:
        if state == "stopped":
            r = w.call({"op": "line", "text": f"b c08_puppet.rs:{ctx.probe}"})
            if r.get("r") != "ok":
                raise vlib.ToolError(f"prelude: breakpoint at the probe line refused: {r}")
            r = w.call({"op": "line", "text": "run"}, timeout=40)
            if r.get("status") != "stopped":
                raise vlib.ToolError(f"prelude: puppet did not stop at the probe line: {r}")
        elif state == "exited":
            r = w.call({"op": "line", "text": "run"}, timeout=40)
            if r.get("status") != "exited":
                raise vlib.ToolError(f"prelude: puppet did not run to its end: {r}")
    except Died as d:
        raise vlib.ToolError(f"prelude of state {state} killed the worker: {d.cls} {d.info}")
    return w


def bootstrap(ctx):
    """addresses used by the placeholders of the specifications"""
    w = console_prelude(ctx, "stopped")
    try:
        r = w.call({"op": "line", "text": "reg read rip"})
        m = re.search(r"rip\s+0x([0-9A-Fa-f]+)", r.get("text", ""))
        if not m:
            raise vlib.ToolError(f"bootstrap: cannot read rip: {r}")
        pc = m.group(1).lstrip("0") or "0"
        ctx.note("bootstrap", "reg read rip", (r.get("r"), r.get("status")))
        v = w.call({"op": "vars"})["vars"]
        if "i64v" not in v:
            raise vlib.ToolError(f"bootstrap: puppet report incomplete: {list(v)[:5]}")
    finally:
        w.kill()
    ctx.subst = {"$probe$": str(ctx.probe), "$pc$": pc, "$var$": f"{v['i64v'][0]:X}", "$utf8$": UTF8}
    ctx.vars = v
    return v


def judge_line(ctx, leg, state, rec, text, res, n_before, script):
    """compare one console result with the specification's classes.  Returns the new sentinel count."""
    action = "console:" + (rec["toks"][0] if rec.get("toks") else "")
    base = dict(leg=leg, state=state, text=text, script=script)
    r = res.get("r")
    if r == "panic":
        ctx.mismatch("panic", action, site=res.get("site"), func=res.get("func") or "", panic_msg=res.get("msg"),
                     stage=res.get("stage"), expected=rec["exp"][state], actual="panic", **base)
    elif r not in rec["exp"][state]:
        ctx.mismatch("wrong_outcome_class", action, site="", expected=rec["exp"][state],
                     actual={"r": r, "text": res.get("text")}, **base)
    if res.get("fatal"):
        ctx.mismatch("fatal_error", action, site="", expected=rec["exp"][state], actual=res.get("text"), **base)
    if res.get("status") not in rec["after"][state]:
        ctx.mismatch("wrong_next_state", action, site="", expected=rec["after"][state], actual=res.get("status"), **base)
    for ev in res.get("events") or []:
        ctx.mismatch("oob_read", action, site=ev.split(" ")[0], expected="reads inside the fetched bytes", actual=ev, **base)
    s = res.get("sentinel") or {}
    n = s.get("n")
    if s.get("r") != "ok":
        ctx.mismatch("sentinel_failed", action, site="", expected="break info answers", actual=s, **base)
        n = n_before
    elif n_before is not None and res.get("status") == state:
        bp = rec["bp"]
        bad = (bp == "same" and n != n_before) or (bp == "up" and n < n_before) or (bp == "down" and n > n_before)
        if bad:
            ctx.mismatch("breakpoints_corrupted", action, site="", expected=f"{bp} (was {n_before})", actual=n, **base)
    key = (state, text) if leg != "poison" else (script.get("var"), script.get("poison"), text)
    ctx.note(leg, key, (r, res.get("status"), res.get("site")))
    return n


def reestablish(ctx, w, state, status):
    """bring a live worker back into `state` with console commands (a fresh worker costs seconds).
    Returns (worker or None, sentinel count or None)."""
    try:
        if state == "stopped":
            r = w.call({"op": "line", "text": "run", "yes": True}, timeout=40)
            if r.get("r") == "ok" and r.get("status") == "stopped" and "c08_puppet.rs:%d" % ctx.probe in (r.get("text") or ""):
                return w, (r.get("sentinel") or {}).get("n")
        elif state == "exited":
            for _ in range(4):
                if status == "exited":
                    return w, None
                r = w.call({"op": "line", "text": "continue"}, timeout=40)
                status = r.get("status")
    except Died:
        pass
    w.kill()
    return None, None


def run_console_lines(ctx, state, recs, tag):
    """all single lines in one session state; state-preserving lines first, resuming ones last"""
    recs = sorted(recs, key=lambda c: (c["resume"], c["form"] and c["resume"]))
    w, n = None, None
    t0 = time.time()
    fresh_left = 4 if state == "notstarted" else 40
    skipped = 0
    for rec in recs:
        text = ctx.sub(rec["text"])
        if ctx.late("lines_" + state):
            skipped += 1
            continue
        if w is None:
            if fresh_left <= 0:
                skipped += 1
                continue
            fresh_left -= 1
            w = console_prelude(ctx, state)
            n = 1 if state == "stopped" else 0
        script = {"leg": "lines", "cfg": tag, "state": state, "text": rec["text"]}
        try:
            res = w.call({"op": "line", "text": text, "yes": False})
        except Died as d:
            w.kill()
            w = None
            if d.cls == "hang":
                # the replay file of this leg is the single line in a fresh session of this state: a hang is
                # reported when it is a property of that (it reproduces there); a watchdog expiry that only
                # happened behind the several hundred earlier lines of a long session is counted, not reported
                w2 = console_prelude(ctx, state)
                again = w2 is None
                if w2 is not None:
                    try:
                        w2.call({"op": "line", "text": text, "yes": False})
                    except Died as d2:
                        again = d2.cls == "hang"
                    w2.kill()
                if not again:
                    ctx.bump("hangs_not_reproduced_in_fresh_session")
                    vlib.log(f"[c08] NOTE watchdog expired for {text!r} in a long {state} session; a fresh session answers")
                    continue
            ctx.mismatch(d.cls, "console:" + (rec["toks"][0] if rec["toks"] else ""), leg="lines", state=state, text=text,
                         expected=rec["exp"][state], actual=d.cls, script=script, **death_fields(d))
            ctx.note("lines", (state, text), (d.cls, d.info.get("site")))
            continue
        n = judge_line(ctx, "lines", state, rec, text, res, n, script)
        if res.get("ms", 0) > 300:
            ctx.bump("slow_lines_" + state)
            vlib.log(f"[c08] slow line ({res.get('ms')} ms) in {state}: {text!r}")
        moved = res.get("status") != state or (res.get("resuming") and res.get("r") == "ok")
        if moved:
            if state == "notstarted":
                w.kill()
                w = None
            else:
                t1 = time.time()
                w, n2 = reestablish(ctx, w, state, res.get("status"))
                ctx.bump("reestablish_" + state)
                ctx.bump("reestablish_s_" + state, time.time() - t1)
                n = n2 if n2 is not None else None
    if w is not None:
        w.kill()
    ctx.bump("lines_skipped_" + state, skipped)
    vlib.log(f"[c08] console lines in state {state}: {len(recs)} lines ({skipped} skipped) in {time.time() - t0:.1f}s")


def abs_key(a):
    return (a["st"], a["bp"], a["hit"], a["wild"])


def seq_groups(seqs, maxlen):
    """(from-state, command names) -> admissible traces.  TLC printed every behaviour of every sequence."""
    g = {}
    for h in seqs:
        st = h["steps"]
        if len(st) != maxlen:
            continue
        key = (abs_key(h["from"]), tuple(x["name"] for x in st))
        e = g.setdefault(key, {"cmds": [(x["name"], x["text"], x["yes"]) for x in st], "traces": []})
        e["traces"].append([(frozenset(x["exp"]), x["st"], abs_key(x["abs"])) for x in st])
    return g


def run_console_walk(ctx, groups, nseq, seed, tag, wid):
    """a walk through ONE real session: sequences chained, each starting where the previous one ended"""
    rng = random.Random(seed * 1000 + wid)
    by_from = {}
    for k in groups:
        by_from.setdefault(k[0], []).append(k)
    for v in by_from.values():
        v.sort()
        rng.shuffle(v)
    w, cur, done, fresh = None, None, 0, 0
    trail = []          # commands since the worker started: the replay script
    t0 = time.time()
    while done < nseq and not ctx.late("seqs"):
        if w is None:
            if fresh >= 6:
                break
            fresh += 1
            w = Worker(ctx.exe, "console", ctx.puppet)
            cur = ("notstarted", False, False, False)
            trail = []
        cands = by_from.get(cur) or []
        if not cands:
            w.kill()
            w = None
            continue
        key = cands.pop()
        grp = groups[key]
        done += 1
        obs = []
        ok = True
        for i, (name, text, yes) in enumerate(grp["cmds"]):
            t = ctx.sub(text)
            trail.append([name, t, yes])
            script = {"leg": "seqs", "cfg": tag, "trail": list(trail), "from": list(key[0]), "names": list(key[1])}
            line = " ; ".join(x[1] for x in trail[-(i + 1):])
            try:
                res = w.call({"op": "line", "text": t, "yes": yes}, timeout=40 if name.startswith("run") else WATCHDOG)
            except Died as d:
                ctx.mismatch(d.cls, "console:" + name, leg="seqs", text=line, step=i, state=cur[0],
                             expected=[sorted(tr[i][0]) for tr in grp["traces"]][:1], actual=d.cls, script=script,
                             **death_fields(d))
                obs.append((d.cls, d.info.get("site")))
                w.kill()
                w, ok = None, False
                break
            r = res.get("r")
            obs.append((r, res.get("status")))
            if r == "panic":
                ctx.mismatch("panic", "console:" + name, leg="seqs", text=line, step=i, state=cur[0], site=res.get("site"), func=res.get("func") or "",
                             panic_msg=res.get("msg"), expected="ok|error", actual="panic", script=script)
            for ev in res.get("events") or []:
                ctx.mismatch("oob_read", "console:" + name, leg="seqs", text=line, site=ev.split(" ")[0], actual=ev, script=script)
            if (res.get("sentinel") or {}).get("r") != "ok":
                ctx.mismatch("sentinel_failed", "console:" + name, leg="seqs", text=line, step=i, site="",
                             expected="break info answers", actual=res.get("sentinel"), script=script)
            live = [tr for tr in grp["traces"] if all(
                (o[0] if o[0] != "panic" else "error") in tr[j][0] and o[1] == tr[j][1] for j, o in enumerate(obs))]
            if not live:
                ctx.mismatch("sequence_divergence", "console:" + name, leg="seqs", text=line, step=i, site="", state=cur[0],
                             abstract_state=list(key[0]),
                             expected=[[sorted(tr[i][0]), tr[i][1]] for tr in grp["traces"]][:4],
                             actual={"r": res.get("r"), "status": res.get("status"), "text": res.get("text")}, script=script)
                w.kill()
                w, ok = None, False
                break
        ctx.note("seqs", key, tuple(obs))
        if ok:
            ends = {tr[-1][2] for tr in live}
            if len(ends) != 1:
                w.kill()
                w = None
            else:
                cur = ends.pop()
    if w is not None:
        w.kill()
    ctx.bump("sequences_run", done)
    vlib.log(f"[c08] console walk {wid}: {done} sequences, {fresh} sessions in {time.time() - t0:.1f}s")


# ------------------------------------------------------------------------------------------------
# poison leg
# ------------------------------------------------------------------------------------------------
def pattern_bytes(name, addr, size):
    if name == "zero":
        return bytes(size)
    if name == "ones":
        return b"\xff" * size
    if name == "high":
        return b"\x80" * size
    if name == "self":
        return (addr.to_bytes(8, "little") * (size // 8 + 1))[:size]
    if name == "max63":
        return ((2 ** 63 - 1).to_bytes(8, "little") * (size // 8 + 1))[:size]
    raise vlib.ToolError(f"unknown poison pattern {name}")


WORD_VALUES = {"w0": 0, "wones": 2 ** 64 - 1, "whigh": 2 ** 63, "wmax63": 2 ** 63 - 1, "wbig": 1 << 40}


def poisons_for(var, addr, size, patterns, tier, orig, maps):
    """list of (name, [(addr, bytes)])"""
    out = [(p, [(addr, pattern_bytes(p, addr, size))]) for p in patterns]
    if size >= 8:
        words = size // 8
        # one word at a time: a huge length next to a valid pointer, len > cap, a huge bucket mask, ...
        wl = list(WORD_VALUES.items()) + [("wself", addr)]
        if tier == "quick":
            wl = [("wmax63", 2 ** 63 - 1), ("wself", addr)]
        for i in range(min(words, 8)):
            for wn, wv in wl:
                out.append((f"{wn}@{i}", [(addr + 8 * i, wv.to_bytes(8, "little"))]))
    # pointees: what the words of the variable point to (heap nodes, control bytes, string data)
    def mapped(p, n):
        return any(m["start"] <= p and p + n <= m["end"] and "w" in m["perms"] for m in maps)
    for i in range(min(size // 8, 8)):
        p = int.from_bytes(orig[8 * i:8 * i + 8], "little")
        if p and p != addr and mapped(p, 256):
            out.append((f"pointee-ones@{i}", [(p, b"\xff" * 256)]))
            out.append((f"pointee-cycle@{i}", [(p, p.to_bytes(8, "little") * 32)]))   # every word points back at the node
            if tier != "quick":
                out.append((f"pointee-zero@{i}", [(p, bytes(256))]))
                out.append((f"pointee-max63@{i}", [(p, (2 ** 63 - 1).to_bytes(8, "little") * 32)]))
    return out


def run_poison_vars(ctx, variables, plan, patterns, tag, only=None, wid=0):
    """(poison, data query) for a list of locals in ONE worker; the worker is replaced whenever it dies
    (a fresh worker has fresh memory: the poison in force is applied again).  Addresses are stable: the
    debuggee runs without address randomisation; this is checked on every fresh worker."""
    rec = {"toks": ["var"], "exp": {"stopped": ["ok", "error"]}, "after": {"stopped": ["stopped"]}, "bp": "same"}
    w, table, todo, saved = None, None, None, None
    pi, ei, nline, fresh = 0, 0, 0, 0
    t0 = time.time()
    rng = random.Random(vlib.seed() * 77 + wid)
    while todo is None or pi < len(todo):
        if todo is not None and ctx.late("poison"):
            ctx.bump("poison_pairs_skipped", len(todo) - pi)
            break
        if w is None:
            fresh += 1
            if fresh > 60:
                raise vlib.ToolError("poison leg: workers keep dying")
            w = console_prelude(ctx, "stopped")
            v = w.call({"op": "vars"})["vars"]
            if table is None:
                table = v
                maps = w.call({"op": "maps"})["maps"]
                todo = []
                for var in variables:
                    if var not in v:
                        w.kill()
                        raise vlib.ToolError(f"puppet does not report {var}")
                    addr, size = v[var]
                    orig = bytes.fromhex(w.call({"op": "read", "addr": addr, "len": max(size, 1)})["hex"] or "")
                    ps = poisons_for(var, addr, size, patterns, ctx.tier, orig, maps) if size else [("none", [])]
                    if only is not None:
                        ps = [t for t in ps if t[0] == only]
                    for pname, writes in ps:
                        xs = plan[var]
                        if ctx.tier == "quick" and only is None:
                            # every affix form of the bare variable, a seeded part of the depth-1 forms
                            head = [x for x in xs if x in ctx.affix[var]]
                            rest = [x for x in xs if x not in ctx.affix[var]]
                            rng.shuffle(rest)
                            xs = head + rest[:14]
                        todo.append((var, pname, writes, xs))
                if not todo:
                    w.kill()
                    raise vlib.ToolError("poison pattern not applicable")
            elif v != table:
                w.kill()
                raise vlib.ToolError("puppet addresses differ between runs: poison plan invalid")
            saved = None
        var, pname, writes, exprs = todo[pi]
        if saved is None:
            saved = []
            for a, b in writes:
                r = w.call({"op": "write", "addr": a, "hex": b.hex()})
                if not r.get("ok"):
                    w.kill()
                    raise vlib.ToolError(f"cannot poison {var} at {a:#x}")
                saved.append((a, r["old"]))
        died = False
        while ei < len(exprs):
            text = exprs[ei]
            ei += 1
            line = "var " + ctx.sub(text)
            script = {"leg": "poison", "cfg": tag, "var": var, "poison": pname, "text": text}
            nline += 1
            try:
                res = w.call({"op": "line", "text": line})
            except Died as d:
                ctx.mismatch(d.cls, "poison:" + pname.split("@")[0], leg="poison", var=var, poison=pname, text=line,
                             expected=["ok", "error"], actual=d.cls, script=script, **death_fields(d))
                ctx.note("poison", (var, pname, text), (d.cls, d.info.get("site")))
                w.kill()
                w, died = None, True
                break
            if res.get("r") == "panic":
                ctx.mismatch("panic", "poison:" + pname.split("@")[0], leg="poison", var=var, poison=pname, text=line,
                             site=res.get("site"), func=res.get("func") or "", panic_msg=res.get("msg"), stage=res.get("stage"),
                             expected=["ok", "error"], actual="panic", script=script)
                ctx.note("poison", (var, pname, text), ("panic", res.get("site")))
                continue
            judge_line(ctx, "poison", "stopped", rec, line, res, None, script)
        if died:
            continue
        for a, old in saved:
            w.call({"op": "write", "addr": a, "hex": old})
        saved = None
        pi, ei = pi + 1, 0
    if w is not None:
        w.kill()
    ctx.bump("poison_lines", nline)
    ctx.bump("poison_cases", len(todo or []))
    vlib.log(f"[c08] poison worker {wid}: {len(variables)} locals, {len(todo or [])} (local, poison) pairs, {nline} queries, "
             f"{fresh} sessions in {time.time() - t0:.1f}s")


def run_poison_frame(ctx, patterns, tag):
    """every local poisoned at once, then the commands that walk the whole frame"""
    for pname in patterns:
        if ctx.late("poison_frame"):
            continue
        w = console_prelude(ctx, "stopped")
        v = w.call({"op": "vars"})["vars"]
        for var, (addr, size) in sorted(v.items()):
            if size:
                w.call({"op": "write", "addr": addr, "hex": pattern_bytes(pname, addr, size).hex()})
        for line in ("var locals", "vard locals", "arg all", "bt", "frame info"):
            rec = {"toks": [line.split()[0]], "exp": {"stopped": ["ok", "error"]}, "after": {"stopped": ["stopped"]}, "bp": "same"}
            script = {"leg": "poison-frame", "cfg": tag, "poison": pname, "text": line}
            try:
                res = w.call({"op": "line", "text": line}, timeout=WATCHDOG * 2)
            except Died as d:
                ctx.mismatch(d.cls, "poison:" + pname, leg="poison-frame", poison=pname, text=line, expected=["ok", "error"],
                             actual=d.cls, script=script, **death_fields(d))
                ctx.note("poison", ("*", pname, line), (d.cls, d.info.get("site")))
                w = None
                break
            if res.get("r") == "panic":
                ctx.mismatch("panic", "poison:" + pname, leg="poison-frame", poison=pname, text=line, site=res.get("site"), func=res.get("func") or "",
                             panic_msg=res.get("msg"), expected=["ok", "error"], actual="panic", script=script)
                continue
            judge_line(ctx, "poison", "stopped", rec, line, res, None, script)
        if w is not None:
            w.kill()


def dqe_by_root(cases, affix=None):
    """local -> query texts; `affix` (if given) receives local -> the bare variable and its affix forms"""
    by = {}
    for c in cases:
        xs = by.setdefault(c["root"], [])
        xs.append(c["text"])
        if c["d"] == 0:
            forms = [c["text"]] + [c["text"] + s for s in c["sfx"]] + [p + c["text"] for p in c["pfx"]]
            xs.extend(forms)
            if affix is not None:
                affix[c["root"]] = set(forms)
    return {k: list(dict.fromkeys(v)) for k, v in by.items()}


# ------------------------------------------------------------------------------------------------
# DAP legs
# ------------------------------------------------------------------------------------------------
def pyval(v, caps):
    """TLC's JSON -> the JSON value to send ({"raw": digits} -> number, {"null": true} -> null, $placeholders)"""
    if isinstance(v, dict):
        if set(v) == {"raw"}:
            return int(v["raw"])
        if set(v) == {"null"}:
            return None
        return {k: pyval(x, caps) for k, x in v.items()}
    if isinstance(v, list):
        return [pyval(x, caps) for x in v]
    if isinstance(v, str):
        if v in caps:
            return caps[v]
        for k, x in caps.items():
            if k.endswith("$") and k in v:
                v = v.replace(k, str(x))
        return v
    return v


def dap_request(m, caps):
    req = {"type": "request", "command": m["command"]}
    whole = m.get("whole", "object")
    if whole == "object":
        req["arguments"] = {k: pyval(v, caps) for k, v in m["args"]}
    elif whole == "null":
        req["arguments"] = None
    elif whole == "number":
        req["arguments"] = 5
    elif whole == "string":
        req["arguments"] = "x"
    elif whole == "array":
        req["arguments"] = [1, "a"]
    return req


def dap_prelude(ctx, state, pargs=("plain",), strict=True):
    """a fresh DAP worker, for `stopped` driven to the probe line.  The DAP legs launch the puppet in its
    `plain` mode (no self-referential local): with the self-referential one a VALID `scopes` request overflows
    the adapter's stack, which is recorded once by run_dap_selfref and would otherwise hide the whole leg."""
    w = Worker(ctx.exe, "dap", ctx.puppet)
    caps = {"$puppet": ctx.puppet, "$src": str(PUPPET_SRC), "$probe": ctx.probe, "$tid": 0, "$frame": 0, "$vref": 0,
            "$iref": "0x" + ctx.subst["$pc$"], "$var": "0x" + ctx.subst["$var$"], "$var$": ctx.subst["$var$"], "$utf8$": UTF8}
    if state == "fresh":
        return w, caps

    def must(req, what, timeout=40):
        try:
            r = w.call({"op": "msg", "msg": req, "want_body": True}, timeout=timeout)
        except Died as d:
            if not strict:
                d.what = what
                raise
            raise vlib.ToolError(f"DAP prelude ({what}) killed the worker: {d.cls} {d.info}")
        if r.get("r") != "ok":
            w.kill()
            raise vlib.ToolError(f"DAP prelude: {what} refused: {r}")
        return r

    must({"type": "request", "command": "initialize", "arguments": {"adapterID": "c08"}}, "initialize")
    must({"type": "request", "command": "launch", "arguments": {"program": ctx.puppet, "args": list(pargs)}}, "launch")
    must({"type": "request", "command": "setBreakpoints",
          "arguments": {"source": {"path": str(PUPPET_SRC)}, "breakpoints": [{"line": ctx.probe}]}}, "setBreakpoints")
    r = must({"type": "request", "command": "configurationDone"}, "configurationDone")
    t = must({"type": "request", "command": "threads"}, "threads")
    ths = (t.get("body") or {}).get("threads") or []
    if not ths:
        w.kill()
        raise vlib.ToolError(f"DAP prelude: no threads after configurationDone: {t} / {r}")
    frames = []
    for th in ths:          # the thread that stands at the probe line (the list is in no particular order)
        st = must({"type": "request", "command": "stackTrace", "arguments": {"threadId": th["id"]}}, "stackTrace")
        fr = (st.get("body") or {}).get("stackFrames") or []
        if fr and fr[0].get("line") == ctx.probe:
            caps["$tid"], frames = th["id"], fr
            break
    if not frames:
        w.kill()
        raise vlib.ToolError(f"DAP prelude: no thread stopped at the probe line: {str(ths)[:300]}")
    caps["$frame"] = frames[0]["id"]
    if isinstance(frames[0].get("instructionPointerReference"), str):
        caps["$iref"] = frames[0]["instructionPointerReference"]
    sc = must({"type": "request", "command": "scopes", "arguments": {"frameId": caps["$frame"]}}, "scopes")
    scopes = (sc.get("body") or {}).get("scopes") or []
    if scopes:
        caps["$vref"] = scopes[0]["variablesReference"]
    return w, caps


def dap_recapture(ctx, w, caps):
    """after a resuming request: is the session (still / again) stopped at the probe line?  refresh the ids."""
    def ask(cmd, args=None, timeout=WATCHDOG):
        req = {"type": "request", "command": cmd}
        if args is not None:
            req["arguments"] = args
        return w.call({"op": "msg", "msg": req, "want_body": True}, timeout=timeout)
    try:
        for attempt in (0, 1):
            t = ask("threads")
            ths = (t.get("body") or {}).get("threads") or []
            if t.get("r") == "ok" and ths:
                for th in ths:
                    st = ask("stackTrace", {"threadId": th["id"]})
                    frames = (st.get("body") or {}).get("stackFrames") or []
                    if st.get("r") == "ok" and frames and frames[0].get("line") == ctx.probe:
                        caps["$tid"], caps["$frame"] = th["id"], frames[0]["id"]
                        sc = ask("scopes", {"frameId": caps["$frame"]})
                        scopes = (sc.get("body") or {}).get("scopes") or []
                        if scopes:
                            caps["$vref"] = scopes[0]["variablesReference"]
                        return True
            if attempt == 0:
                r = ask("restart", None, timeout=40)
                if r.get("r") != "ok" or r.get("ended"):
                    return False
    except Died:
        return False
    return False


def run_dap_selfref(ctx, tag):
    """the well-formed prelude (initialize .. scopes) on the puppet WITH its self-referential local"""
    script = {"leg": "dap-selfref", "cfg": tag}
    try:
        w, _ = dap_prelude(ctx, "stopped", pargs=(), strict=False)
        w.kill()
        ctx.note("dap", ("selfref",), ("ok",))
    except Died as d:
        what = getattr(d, "what", "?")
        ctx.mismatch(d.cls, "dap:" + what, leg="dap-selfref", state="stopped", shape="request:valid", field="",
                     expected=["ok"], actual=d.cls, script=script, **death_fields(d))
        ctx.note("dap", ("selfref",), (d.cls, d.info.get("site")))


def judge_dap(ctx, leg, state, m, res, script, action):
    base = dict(leg=leg, state=state, shape=f"{m.get('kind')}:{m.get('shape')}", field=m.get("field", ""), script=script)
    r = res.get("r")
    ended = res.get("ended")
    kind = m.get("kind")
    if ended and str(ended).startswith("panic"):
        return  # the worker is about to die with the panic; recorded from its death
    if kind == "request":
        if r == "noresponse":
            cls = "session_lost" if ended else "hang"
            if not (m.get("mayend") and ended):
                ctx.mismatch(cls, action, site="", expected=m["exp"][state], actual={"r": r, "ended": ended}, **base)
        elif r not in m["exp"][state]:
            ctx.mismatch("wrong_outcome_class", action, site="", expected=m["exp"][state],
                         actual={"r": r, "text": res.get("text")}, **base)
    for ev in res.get("oob") or []:
        ctx.mismatch("oob_read", action, site=ev.split(" ")[0], expected="reads inside the fetched bytes", actual=ev, **base)
    if res.get("bad_stream"):
        ctx.mismatch("bad_stream", action, site="", expected="well-framed output", actual=res["bad_stream"], **base)
    s = res.get("sentinel")
    if kind == "raw" and m.get("final"):
        if not ended:
            ctx.mismatch("hang", action, site="", expected="the session ends when the client closes", actual=res, **base)
        return
    may_end = bool(m.get("mayend")) or (kind == "raw")
    if s is None or s.get("r") == "noresponse":
        if not (may_end and ended):
            ctx.mismatch("session_lost" if ended else "hang", action, site="", expected="threads is answered",
                         actual={"sentinel": s, "ended": ended}, **base)
    elif kind == "request" and state == "stopped" and m.get("eff") == "q" and not (s.get("r") == "ok" and (s.get("n") or 0) >= 1):
        ctx.mismatch("sentinel_failed", action, site="", expected="threads lists the debuggee's threads", actual=s, **base)


def run_dap_msgs(ctx, state, msgs, tag):
    """all single messages in one session state; queries share a session, everything else gets its own"""
    order = {"q": 0, "resume": 1, "start": 1, "end": 2}
    msgs = sorted(msgs, key=lambda m: (order.get(m.get("eff", "q"), 0) if m["kind"] == "request" else
                                       (0 if m["kind"] == "envelope" else 3)))
    w, caps = None, None
    t0 = time.time()
    nskip = 0
    for m in msgs:
        if ctx.late("dap_" + state):
            nskip += 1
            continue
        if w is None:
            w, caps = dap_prelude(ctx, state)
        kind = m["kind"]
        if kind == "request":
            req = {"op": "msg", "msg": dap_request(m, caps)}
            action = "dap:" + m["command"]
            key = (m["command"], m["shape"], m.get("field"), json.dumps(m.get("args"), sort_keys=True)[:200], m.get("whole"))
        elif kind == "envelope":
            req = {"op": "msg", "msg": pyval(m["value"], caps), "own_seq": False}
            action = "dap:envelope"
            key = ("envelope", m["shape"])
        else:
            raw = pyval(m["text"], caps).encode("utf-8").replace(b"$ff$", b"\xff").replace(b"$fe$", b"\xfe")
            req = {"op": "raw", "hex": raw.hex(), "close": bool(m["final"])}
            action = "dap:raw"
            key = ("raw", m["shape"])
        script = {"leg": "dap-msgs", "cfg": tag, "state": state, "key": list(key)}
        try:
            res = w.call(req, timeout=WATCHDOG * 2 + 2)
        except Died as d:
            ctx.mismatch(d.cls, action, leg="dap-msgs", state=state, shape=f"{kind}:{m.get('shape')}", field=m.get("field", ""),
                         expected=(m.get("exp") or {}).get(state), actual=d.cls, script=script, **death_fields(d))
            ctx.note("dap", (state,) + key, (d.cls, d.info.get("site")))
            w.kill()
            w = None
            continue
        judge_dap(ctx, "dap-msgs", state, m, res, script, action)
        ctx.note("dap", (state,) + key, (res.get("r"), (res.get("sentinel") or {}).get("r"), bool(res.get("ended"))))
        alive = not res.get("ended") and (res.get("sentinel") or {}).get("r") in ("ok", "error")
        keep = alive and (kind == "envelope" or (kind == "request" and m.get("eff") == "q"))
        if alive and not keep and kind == "request":
            if state == "fresh":
                keep = m.get("eff") == "resume" and (res.get("sentinel") or {}).get("r") == "error"   # still no debuggee
            elif m.get("eff") in ("resume", "start"):
                keep = dap_recapture(ctx, w, caps)
        if not keep:
            w.kill()
            w = None
    if w is not None:
        w.kill()
    ctx.bump("dap_msgs_skipped_" + state, nskip)
    vlib.log(f"[c08] DAP messages in state {state}: {len(msgs)} ({nskip} skipped) in {time.time() - t0:.1f}s")


SEQ_MSG = {
    "initialize": lambda c: {"command": "initialize", "arguments": {"adapterID": "c08"}},
    "launch": lambda c: {"command": "launch", "arguments": {"program": c["$puppet"], "args": ["plain"]}},
    "setBreakpoints": lambda c: {"command": "setBreakpoints", "arguments": {"source": {"path": c["$src"]},
                                                                              "breakpoints": [{"line": c["$probe"]}]}},
    "configurationDone": lambda c: {"command": "configurationDone"},
    "threads": lambda c: {"command": "threads"},
    "continue": lambda c: {"command": "continue", "arguments": {"threadId": 0}},
    "next": lambda c: {"command": "next", "arguments": {"threadId": 0}},
    "pause": lambda c: {"command": "pause", "arguments": {"threadId": 0}},
    "stackTrace": lambda c: {"command": "stackTrace", "arguments": {"threadId": 2 ** 63 - 1, "levels": 2 ** 63 - 1}},
    "restart": lambda c: {"command": "restart"},
    "terminate": lambda c: {"command": "terminate"},
    "disconnect": lambda c: {"command": "disconnect", "arguments": {"terminateDebuggee": True}},
    "evaluate-huge": lambda c: {"command": "evaluate", "arguments": {"expression": "arr[5]." + "9" * 23, "context": "watch"}},
    "readMemory-huge": lambda c: {"command": "readMemory", "arguments": {"memoryReference": "0x10", "count": 2 ** 40}},
}


def run_dap_seq(ctx, seq, tag):
    if ctx.late("dapseqs"):
        return
    w, caps = dap_prelude(ctx, "fresh")
    obs = []
    script = {"leg": "dap-seqs", "cfg": tag, "seq": list(seq)}
    try:
        for i, name in enumerate(seq):
            if name == "envelope-no-seq":
                m = {"kind": "envelope", "shape": "no-seq"}
                req = {"op": "msg", "msg": {"type": "request", "command": "threads"}, "own_seq": False}
            else:
                body = SEQ_MSG[name](caps)
                body["type"] = "request"
                m = {"kind": "request", "shape": "seq", "command": body["command"], "exp": {"fresh": ["ok", "error"]},
                     "mayend": name in ("disconnect", "terminate"), "eff": "seq"}
                req = {"op": "msg", "msg": body}
            action = "dap:" + (m.get("command") or "envelope")
            try:
                res = w.call(req, timeout=WATCHDOG * 2 + 22)
            except Died as d:
                ctx.mismatch(d.cls, action, leg="dap-seqs", state="seq", shape=f"{m['kind']}:{m['shape']}", seq=list(seq[:i + 1]),
                             expected=["ok", "error"], actual=d.cls, script=script, **death_fields(d))
                obs.append((d.cls, d.info.get("site")))
                break
            judge_dap(ctx, "dap-seqs", "fresh", m, res, dict(script, step=i), action)
            obs.append((res.get("r"), (res.get("sentinel") or {}).get("r"), bool(res.get("ended"))))
            if res.get("ended") or (res.get("sentinel") or {}).get("r") not in ("ok", "error"):
                break
    finally:
        w.kill()
    ctx.note("dap-seqs", tuple(seq), tuple(obs))


# ------------------------------------------------------------------------------------------------
# the check
# ------------------------------------------------------------------------------------------------
def pick(items, n, seed, always=()):
    """seeded sample of n items, `always` first"""
    items = list(items)
    head = [x for x in items if x in always]
    rest = [x for x in items if x not in always]
    random.Random(seed).shuffle(rest)
    return head + rest[:max(0, n - len(head))]


def dedupe_lines(recs):
    seen, out = set(), []
    for c in recs:
        if isinstance(c, dict) and c["text"] not in seen:
            seen.add(c["text"])
            out.append(c)
    return out


def run(rep, tier, replay):
    t0 = time.time()
    exe = vlib.cargo_build("c08")
    puppet, probe = build_puppet()
    ctx = Ctx(rep, exe, puppet, probe, tier)
    if replay:
        return run_replay(ctx, replay)
    quick = tier == "quick"
    cov = not quick
    cfgs = {
        "lines": "Console_lines_lean.cfg" if quick else "Console_lines_rich.cfg",
        "seqs": "Console_seqs_lean.cfg" if quick else "Console_seqs_rich.cfg",
        "dqe": "Console_dqe_d1.cfg" if quick else "Console_dqe_d2.cfg",
        "dmsgs": "DapInput_msgs.cfg",
        "dseqs": "DapInput_seqs_lean.cfg" if quick else "DapInput_seqs_rich.cfg",
    }
    # ---- TLC: the enumerations (three runs at a time, 2 workers each) ----
    with ThreadPoolExecutor(5) as tp:
        f_lines = tp.submit(tlc_cases, "Console", cfgs["lines"], ["LINE", "POISONS"], cov, 900, 2)
        f_seqs = tp.submit(tlc_cases, "Console", cfgs["seqs"], ["SEQ"], cov, 900, 2)
        f_dqe = tp.submit(tlc_cases, "Console", cfgs["dqe"], ["DQE"], cov, 1500)
        f_dm = tp.submit(tlc_cases, "DapInput", cfgs["dmsgs"], ["MSG"], False)
        f_ds = tp.submit(tlc_cases, "DapInput", cfgs["dseqs"], ["DSEQ"], cov)
        r_lines, o_lines = f_lines.result()
        r_seqs, o_seqs = f_seqs.result()
        r_dqe, o_dqe = f_dqe.result()
        r_dm, o_dm = f_dm.result()
        r_ds, o_ds = f_ds.result()
    tlc_runs = [r_lines, r_seqs, r_dqe, r_dm, r_ds]
    lines = dedupe_lines(o_lines["LINE"])
    patterns = o_lines["POISONS"][0]
    maxseq = max(len(h["steps"]) for h in o_seqs["SEQ"])
    groups = seq_groups(o_seqs["SEQ"], maxseq)
    ctx.affix = {}
    dqes = dqe_by_root(o_dqe["DQE"], ctx.affix)
    dmsgs = [m for m in o_dm["MSG"] if isinstance(m, dict)]
    dseqs = [tuple(d["seq"]) for d in o_ds["DSEQ"] if isinstance(d, dict)]
    # maximal message sequences only (a prefix is exercised by its extensions)
    dmax = max(len(s) for s in dseqs)
    dseqs = sorted({s for s in dseqs if len(s) == dmax or s[-1] in ("disconnect", "terminate")})
    if not lines or not groups or not dqes or not dmsgs or not dseqs:
        raise vlib.ToolError("TLC enumerated nothing for one of the legs")
    vlib.log(f"[c08] enumerated: {len(lines)} lines, {len(groups)} command sequences, "
             f"{sum(len(v) for v in dqes.values())} data queries over {len(dqes)} locals, {len(dmsgs)} DAP messages, "
             f"{len(dseqs)} DAP sequences; TLC done at {time.time() - t0:.0f}s")

    bootstrap(ctx)
    try:
        (SCRATCH / "progress.ndjson").unlink()
    except OSError:
        pass
    budget = float(os.environ.get("C08_BUDGET_S") or (105 if quick else 1300))
    ctx.deadline = time.time() + budget
    seed = vlib.seed()
    legs = set((os.environ.get("C08_LEGS") or "lines,seqs,poison,dap,dapseqs").split(","))
    # ---- what is executed in this tier ----
    lines_other = [c for c in lines if not c["resume"] or c["form"]]
    if quick:
        nseq, nwalk = 36, 3
        dseq_run = pick(dseqs, 36, seed, always=[s for s in dseqs if s[:2] == ("initialize", "launch")][:8])
        line_sets = {"stopped": lines, "notstarted": pick(lines_other, 900, seed), "exited": pick(lines_other, 600, seed)}
        dmsg_sets = {"stopped": [m for m in dmsgs if m["kind"] != "request" or m.get("eff") == "q"
                                 or m["shape"] in ("valid", "huge", "neg", "whole-null")],
                     "fresh": [m for m in dmsgs if m["kind"] == "request" and m["shape"] in ("valid", "huge", "missing")
                               and (m.get("eff") in ("q", "resume") or (m["command"] == "launch" and m["shape"] == "valid"))]}
        npoison = 3
    else:
        nseq, nwalk = 500, 5
        dseq_run = pick(dseqs, 500, seed, always=[s for s in dseqs if s[:2] == ("initialize", "launch")])
        line_sets = {"stopped": lines, "notstarted": lines_other, "exited": lines_other}
        dmsg_sets = {"stopped": dmsgs, "fresh": [m for m in dmsgs if m["kind"] == "request"]}
        npoison = 5
    poison_vars = sorted(dqes)
    plan_dqe = {}
    for var in poison_vars:
        xs = dqes[var]
        if not quick and len(xs) > 260:
            head = [x for x in xs if x in ctx.affix[var]]
            rest = [x for x in xs if x not in ctx.affix[var]]
            xs = head + pick(rest, 240, seed)
        plan_dqe[var] = xs

    # ---- run the legs side by side ----
    with ThreadPoolExecutor(12) as pool:
        futs = []
        if "lines" in legs:
            for st in ("stopped", "notstarted", "exited"):
                futs.append(pool.submit(run_console_lines, ctx, st, line_sets[st], cfgs["lines"]))
        if "seqs" in legs:
            for i in range(nwalk):
                futs.append(pool.submit(run_console_walk, ctx, groups, nseq, seed, cfgs["seqs"], i))
        if "dap" in legs:
            futs.append(pool.submit(run_dap_selfref, ctx, cfgs["dmsgs"]))
            for st in ("stopped", "fresh"):
                futs.append(pool.submit(run_dap_msgs, ctx, st, dmsg_sets[st], cfgs["dmsgs"]))
        if "dapseqs" in legs:
            half = len(dseq_run) // 2
            for part in (dseq_run[:half], dseq_run[half:]):
                futs.append(pool.submit(lambda part=part: [run_dap_seq(ctx, s, cfgs["dseqs"]) for s in part]))
        if "poison" in legs:
            futs.append(pool.submit(run_poison_frame, ctx, patterns, cfgs["dqe"]))
            for i in range(npoison):
                futs.append(pool.submit(run_poison_vars, ctx, poison_vars[i::npoison], plan_dqe, patterns, cfgs["dqe"], None, i))
        for f in futs:
            f.result()
    seq_keys = range(ctx.stats.get("sequences_run", 0))
    poison_patterns = patterns

    # ---- vacuity: the machinery must have seen every kind of thing it judges ----
    kinds = {k[0] for k in ctx.nontrivial}
    legname = {"lines": "lines", "seqs": "seqs", "poison": "poison", "dap": "dap", "dap-seqs": "dapseqs"}
    for need in ("lines", "seqs", "poison", "dap", "dap-seqs"):
        if legname[need] in legs and need not in kinds:
            raise vlib.ToolError(f"vacuous: leg {need} evaluated nothing")
    oks = sum(1 for k in ctx.nontrivial if k[0] == "lines" and k[2][0] == "ok")
    errs = sum(1 for k in ctx.nontrivial if k[0] == "lines" and k[2][0] == "error")
    if "lines" in legs and (oks < 20 or errs < 20):
        raise vlib.ToolError(f"vacuous: console lines gave {oks} ok / {errs} error outcomes")
    stopped_seen = sum(1 for k in ctx.nontrivial if k[0] == "seqs" and any(o[1] == "stopped" for o in k[2] if len(o) == 2))
    if "seqs" in legs and not stopped_seen:
        raise vlib.ToolError("vacuous: no command sequence reached the stopped state")

    by_class = {}
    for rec in rep.records:
        k = f"{rec['class']}@{rec.get('site') or rec.get('shape') or ''}"
        by_class[k] = by_class.get(k, 0) + 1
    vlib.ndjson_write(SCRATCH / "last_mismatches.ndjson", rep.records)
    vlib.log(f"[c08] stats {ctx.stats}")
    vlib.log(f"[c08] evaluations={ctx.evals} workers={Worker.count} records={len(rep.records)} total={time.time() - t0:.0f}s")
    vlib.log("[c08] records by class@site: " + json.dumps(dict(sorted(by_class.items())), indent=0)[:3000])
    samples = [
        {"leg": "lines", "input": "b r 99999999999999999999999", "spec": {"stopped": ["ok", "error"]},
         "observed": next((r.get("panic_msg") for r in rep.records if r.get("text") == "b r 99999999999999999999999"), "not run")},
    ]
    for rec in rep.records[:3]:
        samples.append({"leg": rec.get("leg"), "input": rec.get("text") or rec.get("shape"), "class": rec["class"],
                        "site": rec.get("site"), "spec": rec.get("expected")})
    coverage = {
        "evaluations": ctx.evals,
        "distinct_nontrivial": len(ctx.nontrivial),
        "rule": RULE,
        "samples": samples,
        "tlc_states": sum(r.distinct for r in tlc_runs), "tlc_transitions": sum(r.generated for r in tlc_runs),
        "tlc_wall_s": round(sum(r.wall for r in tlc_runs), 1),
        "cfgs": cfgs,
        "enumerated": {"console_lines": len(lines), "console_sequences": len(groups),
                       "data_queries": sum(len(v) for v in dqes.values()), "dap_messages": len(dmsgs),
                       "dap_sequences": len(dseqs), "poison_patterns_whole": patterns},
        "executed": {"console_lines": {k: len(v) for k, v in line_sets.items()}, "console_sequences": len(seq_keys),
                     "dap_messages": {k: len(v) for k, v in dmsg_sets.items()}, "dap_sequences": len(dseq_run),
                     "poison_variables": len(poison_vars), "poison_query_lines": ctx.stats.get("poison_lines", 0)},
        "worker_processes": Worker.count, "time_budget_for_legs_s": budget, "run_stats": ctx.stats,
        "watchdog_s": WATCHDOG, "watchdog_load_factor_at_end": round(grace(), 2),
        "records_by_class_and_site": by_class,
        "legs": sorted(legs),
        "exhaustive": False,
    }
    return rep.finish("exploration", coverage, assumptions=[
        "grammar-bounded, not coverage-guided: alphabets and templates are the constants of spec/Console.tla and spec/DapInput.tla",
        "puppet compiled with rustc 1.89 -g; one program; x86-64 Linux",
        "quick tier executes a seeded sample of sequences (VERIF_SEED); single lines/messages in state stopped are exhaustive over the lean alphabet",
        "a panic inside the pure parser stage or inside `var`/`arg` evaluation is caught by the worker (reported as class panic) to save a restart; every other panic ends the worker as it would end the console",
        "H3 probes report out-of-buffer reads at three sites only (scalar_from_bytes x2, StructureMember::value)",
    ])


# ------------------------------------------------------------------------------------------------
# replay
# ------------------------------------------------------------------------------------------------
def replay_trail(ctx, sc, g1, tag):
    if sc.get("prefix_dropped"):
        raise vlib.ToolError("replay: the stored trail is truncated")
    w = Worker(ctx.exe, "console", ctx.puppet)
    cur = ("notstarted", False, False, False)
    try:
        for i, (name, t, yes) in enumerate(sc["trail"]):
            grp = g1.get((cur, (name,)))
            if grp is None:
                raise vlib.ToolError(f"replay: the specification has no step {name} from {cur}")
            script = dict(sc, trail=sc["trail"][:i + 1])
            try:
                res = w.call({"op": "line", "text": t, "yes": yes}, timeout=40 if name.startswith("run") else WATCHDOG)
            except Died as d:
                ctx.mismatch(d.cls, "console:" + name, leg="seqs", text=t, step=i, state=cur[0], expected="ok|error",
                             actual=d.cls, script=script, **death_fields(d))
                return
            r = res.get("r")
            ctx.note("seqs", (cur, name, i), (r, res.get("status")))
            if r == "panic":
                ctx.mismatch("panic", "console:" + name, leg="seqs", text=t, step=i, state=cur[0], site=res.get("site"), func=res.get("func") or "",
                             panic_msg=res.get("msg"), expected="ok|error", actual="panic", script=script)
                r = "error"
            if (res.get("sentinel") or {}).get("r") != "ok":
                ctx.mismatch("sentinel_failed", "console:" + name, leg="seqs", text=t, step=i, site="",
                             expected="break info answers", actual=res.get("sentinel"), script=script)
            live = [tr for tr in grp["traces"] if r in tr[0][0] and res.get("status") == tr[0][1]]
            if not live:
                ctx.mismatch("sequence_divergence", "console:" + name, leg="seqs", text=t, step=i, site="", state=cur[0],
                             abstract_state=list(cur), expected=[[sorted(tr[0][0]), tr[0][1]] for tr in grp["traces"]][:4],
                             actual={"r": res.get("r"), "status": res.get("status"), "text": res.get("text")}, script=script)
                return
            cur = live[0][0][2]
    finally:
        w.kill()


def run_replay(ctx, replay):
    rec = json.loads(Path(replay).read_text())
    sc = rec["script"]
    leg, cfg = sc["leg"], sc["cfg"]
    bootstrap(ctx)
    if leg == "lines":
        _, o = tlc_cases("Console", cfg, ["LINE"])
        hit = [c for c in dedupe_lines(o["LINE"]) if c["text"] == sc["text"]]
        if not hit:
            raise vlib.ToolError("replay: the specification no longer generates this line")
        run_console_lines(ctx, sc["state"], hit, cfg)
    elif leg == "seqs":
        # the stored trail is re-driven from a fresh session; TLC supplies the one-step classes again
        _, o = tlc_cases("Console", cfg, ["SEQ"], workers=2)
        g1 = seq_groups(o["SEQ"], 1)
        replay_trail(ctx, sc, g1, cfg)
    elif leg == "poison":
        _, o = tlc_cases("Console", cfg, ["DQE", "POISONS"])
        dq = dqe_by_root(o["DQE"])
        if sc["text"] not in dq.get(sc["var"], []):
            raise vlib.ToolError("replay: the specification no longer generates this data query")
        ctx.tier = "thorough"
        run_poison_vars(ctx, [sc["var"]], {sc["var"]: [sc["text"]]}, o["POISONS"][0], cfg, only=sc["poison"])
    elif leg == "poison-frame":
        run_poison_frame(ctx, [sc["poison"]], cfg)
    elif leg == "dap-msgs":
        _, o = tlc_cases("DapInput", cfg, ["MSG"])
        hit = []
        for m in o["MSG"]:
            if m["kind"] == "request":
                key = [m["command"], m["shape"], m.get("field"), json.dumps(m.get("args"), sort_keys=True)[:200], m.get("whole")]
            else:
                key = [m["kind"], m["shape"]]
            if key == sc["key"]:
                hit.append(m)
        if not hit:
            raise vlib.ToolError("replay: the specification no longer generates this message")
        run_dap_msgs(ctx, sc["state"], hit[:1], cfg)
    elif leg == "dap-seqs":
        run_dap_seq(ctx, tuple(sc["seq"]), cfg)
    elif leg == "dap-selfref":
        run_dap_selfref(ctx, cfg)
    else:
        raise vlib.ToolError(f"replay: unknown leg {leg}")
    return ctx.rep.finish("exploration", {"evaluations": ctx.evals, "distinct_nontrivial": len(ctx.nontrivial), "rule": RULE,
                                           "samples": [{"replayed": sc}], "replay_of": str(replay)})

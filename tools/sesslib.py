"""Shared machinery of the single-threaded session checks (C01 C02 C03 C05 C11 C19).

puppet source -> binary -> (independent) reference trace + line table -> TLA+ data module ->
TLC (Session.tla: histories; TraceSession.tla: verdicts on recorded real sessions).
"""
import hashlib
import json
import os
import random
import re
import subprocess
from pathlib import Path

import vlib
from vlib import ToolError, VERIF, WORK, SPEC, PUPPET_BUILD, sh, log

SESS_SRC = VERIF / "puppets" / "sess"
REFTRACE_VERSION = "v3"      # bump when reftrace.rs or the range computation changes (cache key)
TOOLCHAINS = {"1.89": "+1.89", "1.95": "+stable", "nightly": "+nightly"}


# ------------------------------------------------------------------------------------------
# puppets
# ------------------------------------------------------------------------------------------
def build_puppet(src, toolchain="1.89", opt=0, pie=True, extra=()):
    """Compile a puppet; cached by content hash + flags + rustc version."""
    src = Path(src)
    tc = TOOLCHAINS[toolchain]
    flags = ["--edition", "2021", "-g", "-C", f"opt-level={opt}", "-C", "overflow-checks=off",
             "-C", "force-frame-pointers=yes", "-C", "debug-assertions=off"]
    if not pie:
        flags += ["-C", "relocation-model=static", "-C", "link-arg=-no-pie"]
    flags += list(extra)
    _, ver, _ = sh(["rustc", tc, "-vV"])
    # optional C companion <stem>.c: linked in, compiled WITHOUT .eh_frame entries, so that the call frame
    # information of its functions exists in .debug_frame only (mixed binaries: C05)
    csrc = src.with_suffix(".c")
    ctext = csrc.read_text() if csrc.exists() else ""
    h = hashlib.sha1((src.read_text() + ctext + " ".join(flags) + ver).encode()).hexdigest()[:12]
    PUPPET_BUILD.mkdir(parents=True, exist_ok=True)
    d = PUPPET_BUILD / f"{src.stem}-{toolchain}-O{opt}-{'pie' if pie else 'nopie'}-{h}"
    exe = d / src.stem
    if not exe.exists():
        d.mkdir(parents=True, exist_ok=True)
        # keep the source next to the binary under its own name: DW_AT_name / line tables refer to it
        tmp = d / f"{src.stem}.{os.getpid()}.tmp"
        if ctext:
            obj = d / f"{src.stem}_c.{os.getpid()}.o"
            rc, so, se = sh(["cc", "-g", "-O0", "-fno-asynchronous-unwind-tables", "-fno-unwind-tables", "-fno-omit-frame-pointer",
                             "-c", str(csrc), "-o", str(obj)], check=False, timeout=120)
            if rc != 0:
                raise ToolError(f"C companion {csrc} does not compile: {se[-2000:]}")
            flags = flags + ["-C", f"link-arg={obj}"]
        rc, so, se = sh(["rustc", tc] + flags + ["--crate-name", src.stem, "-o", str(tmp), str(src)],
                        check=False, timeout=600)
        if rc != 0:
            raise ToolError(f"puppet {src} does not compile with {toolchain}: {se[-2000:]}")
        os.replace(tmp, exe)
    return exe


def nm_symbols(exe):
    """name(demangled) -> (addr, size), plus mangled names."""
    out = {}
    _, so, _ = sh(["nm", "-S", "-C", "--defined-only", str(exe)])
    for line in so.splitlines():
        p = line.split(None, 3)
        if len(p) == 4 and re.fullmatch(r"[0-9a-f]+", p[0]) and re.fullmatch(r"[0-9a-f]+", p[1]):
            out.setdefault(p[3], (int(p[0], 16), int(p[1], 16)))
        elif len(p) == 3 and re.fullmatch(r"[0-9a-f]+", p[0]):
            out.setdefault(p[2], (int(p[0], 16), 0))
    return out


def user_funcs(exe, crate):
    """[(name, lo, hi)] of the functions whose demangled path starts with `<crate>::` (every
    instantiation: several symbols may share a demangled name)."""
    res = []
    _, so, _ = sh(["nm", "-S", "-C", "--defined-only", str(exe)])
    for line in so.splitlines():
        p = line.split(None, 3)
        if len(p) == 4 and re.fullmatch(r"[0-9a-f]+", p[0]) and re.fullmatch(r"[0-9a-f]+", p[1]) and p[2] in "tTwW":
            name, a, s = p[3], int(p[0], 16), int(p[1], 16)
            if (name.startswith(crate + "::") or name.startswith("<" + crate + "::") or name.startswith(crate + "_c_")) and s > 0:
                res.append((name, a, a + s))
    return sorted(set(res), key=lambda x: x[1])


_ROW = re.compile(r"^0x([0-9a-f]+)\s+(\d+)\s+(\d+)\s+(\d+)\s+\d+\s+\d+\s*(.*)$")


def line_rows(exe, srcname):
    """Rows of every line-table sequence whose file is `srcname` (independent decode:
    llvm-dwarfdump).  Returns list of dicts sorted by (seq, addr)."""
    _, so, _ = sh(["llvm-dwarfdump", "--debug-line", str(exe)], timeout=120)
    rows = []
    files = {}
    seq = 0
    cur_idx = None
    for line in so.splitlines():
        if line.startswith("debug_line["):
            files = {}
            cur_idx = None
            continue
        m = re.match(r"^file_names\[\s*(\d+)\]:", line)
        if m:
            cur_idx = int(m.group(1))
            continue
        m = re.match(r'^\s+name: "(.*)"', line)
        if m and cur_idx is not None:
            files[cur_idx] = m.group(1)
            cur_idx = None
            continue
        m = _ROW.match(line)
        if m:
            addr, ln, col, fidx, flags = int(m.group(1), 16), int(m.group(2)), int(m.group(3)), int(m.group(4)), m.group(5)
            fname = files.get(fidx, "")
            rows.append({"addr": addr, "line": ln, "col": col, "file": fname, "seq": seq,
                         "is_stmt": "is_stmt" in flags, "prologue_end": "prologue_end" in flags,
                         "epilogue_begin": "epilogue_begin" in flags, "end_sequence": "end_sequence" in flags})
            if "end_sequence" in flags:
                seq += 1
    # keep sequences that contain at least one row of the puppet's file
    keep = {r["seq"] for r in rows if r["file"].endswith(srcname)}
    return [r for r in rows if r["seq"] in keep]


class LineIndex:
    def __init__(self, rows, srcname):
        self.rows = rows
        self.src = srcname
        self.by_seq = {}
        for r in rows:
            self.by_seq.setdefault(r["seq"], []).append(r)
        self.stmt_addrs = {}
        for r in rows:
            if not r["end_sequence"]:
                self.stmt_addrs[r["addr"]] = self.stmt_addrs.get(r["addr"], False) or r["is_stmt"]

    def place(self, pc):
        """(file, line) of the row covering pc, or None."""
        for rs in self.by_seq.values():
            if rs[0]["addr"] <= pc < rs[-1]["addr"] or (rs[0]["addr"] <= pc and rs[-1]["addr"] == pc and not rs[-1]["end_sequence"]):
                best = None
                for r in rs:
                    if r["end_sequence"]:
                        continue
                    if r["addr"] <= pc:
                        # rows at the same address: the last one wins (DWARF state machine order)
                        best = r
                    else:
                        break
                if best:
                    return best["file"], best["line"]
        return None

    def is_stmt_start(self, pc):
        return self.stmt_addrs.get(pc, False)


def ref_trace(exe, crate, maxsteps=400000):
    """Run the independent reference tracer; returns (entries, meta)."""
    rt = vlib.cargo_build("reftrace")
    funcs = user_funcs(exe, crate)
    syms = nm_symbols(exe)
    if f"{crate}::main" not in syms:
        raise ToolError(f"{exe}: no {crate}::main")
    tick = syms.get("TICK", (0, 0))[0]
    ranges = ",".join(f"{lo:x}-{hi:x}" for _, lo, hi in funcs)
    out = WORK / "sess" / (Path(exe).parent.name + f".{REFTRACE_VERSION}.reftrace")
    out.parent.mkdir(parents=True, exist_ok=True)
    if not out.exists():
        tmp = out.with_suffix(f".{os.getpid()}.tmp")
        sh([str(rt), str(exe), str(tmp), "--ranges", ranges, "--main", f"{syms[crate + '::main'][0]:x}",
            "--tick", f"{tick:x}", "--max", str(maxsteps)], timeout=600)
        os.replace(tmp, out)            # atomic: a concurrent reader never sees a partial trace
    ents, meta = [], {}
    for o in vlib.ndjson_read(out):
        if o["ev"] == "i":
            ents.append(o)
        elif o["ev"] == "ext":
            if ents:
                ents[-1]["ext"] = True
        elif o["ev"] in ("meta", "end"):
            meta.update(o)
        elif o["ev"] == "truncated":
            raise ToolError(f"{exe}: reference trace truncated at {maxsteps} steps")
    meta["funcs"] = funcs
    meta["tick_addr"] = tick
    return ents, meta


class Puppet:
    """Everything the specification needs to know about one puppet binary."""

    def __init__(self, src, toolchain="1.89", opt=0, pie=True):
        self.src = Path(src)
        self.crate = self.src.stem
        self.key = f"{self.crate}-{toolchain}-O{opt}-{'pie' if pie else 'nopie'}"
        self.exe = build_puppet(src, toolchain, opt, pie)
        self.rows = line_rows(self.exe, self.src.name)
        self.lines = LineIndex(self.rows, self.src.name)
        self.ents, self.meta = ref_trace(self.exe, self.crate)
        self.funcs = self.meta["funcs"]
        self.native_exit = self.meta.get("exit")
        self.native_stdout = self.meta.get("stdout", "")
        if "TICK=" not in self.native_stdout:
            raise ToolError(f"{self.key}: the reference run did not capture the puppet's report line (stdout={self.native_stdout!r})")
        self._annotate()

    def fn_of(self, pc):
        for k, (_, lo, hi) in enumerate(self.funcs):
            if lo <= pc < hi:
                return k + 1
        return 0

    def _annotate(self):
        # prologue end per function: first prologue_end row inside it (else function start)
        pe = {}
        for k, (_, lo, hi) in enumerate(self.funcs):
            c = [r["addr"] for r in self.rows if lo <= r["addr"] < hi and r["prologue_end"]]
            pe[k + 1] = min(c) if c else lo
        stacks, sidx = [], {}
        self.X = []
        self.index = {}
        cfas, prev = [], None
        for e in self.ents:
            # canonical frame address of the activation = rsp at its first instruction + 8
            if prev is None:
                cfas = [e["rsp"] + 8]
            elif e["depth"] > prev["depth"]:
                cfas.append(e["rsp"] + 8)
            elif e["depth"] < prev["depth"] and len(cfas) > 1:
                cfas.pop()
            prev = e
            co = cfas[-1] - e["rsp"]
            pc = e["pc"]
            pl = self.lines.place(pc)
            f = self.fn_of(pc)
            sk = tuple(e["stk"])
            if sk not in sidx:
                stacks.append(list(sk))
                sidx[sk] = len(stacks)
            rec = {"pc": pc, "d": e["depth"], "ln": pl[1] if pl and pl[0].endswith(self.src.name) else 0,
                   "st": self.lines.is_stmt_start(pc), "pe": pc >= pe.get(f, 0), "fn": f,
                   "sk": sidx[sk], "tk": e["tick"], "ext": bool(e.get("ext")), "co": co}
            self.X.append(rec)
            self.index.setdefault((pc, e["tick"]), len(self.X))      # 1-based
        self.stacks = stacks
        # first position inside the final report() (calls into std follow): steps are not judged from there
        rep = [k + 1 for k, (n, _, _) in enumerate(self.funcs) if n.endswith("::report")]
        self.tail = len(self.X) + 1
        for n, x in enumerate(self.X):
            if x["fn"] in rep or x["ext"]:
                self.tail = n + 1
                break
        # uniqueness of (pc, tick) is what makes real stops identifiable
        if len(self.index) != len(self.X):
            dup = len(self.X) - len(self.index)
            self.ambiguous = dup
        else:
            self.ambiguous = 0

    def stmt_lines(self):
        """source line -> first executed statement-row address of that line (post-prologue), for
        lines that the native execution actually reaches."""
        res = {}
        for n, x in enumerate(self.X):
            if n + 1 >= self.tail:
                break                      # the final report (calls into std) is not a place for breakpoints
            if x["st"] and x["pe"] and x["ln"] > 0:
                res.setdefault(x["ln"], x["pc"])
        return res

    def tla_data(self, cands, maxcmd, maxbps, root="MC", base="Session", maxbk=3, lifecycle=None):
        lifecycle = getattr(self, "lifecycle", False) if lifecycle is None else lifecycle
        d = WORK / "sess" / f"{self.key}-{os.getpid()}"      # per process: two checks may run at once
        d.mkdir(parents=True, exist_ok=True)

        def rec(x):
            return ("[pc |-> %d, d |-> %d, ln |-> %d, st |-> %s, pe |-> %s, fn |-> %d, sk |-> %d, tk |-> %d, ext |-> %s, co |-> %d]"
                    % (x["pc"], x["d"], x["ln"], "TRUE" if x["st"] else "FALSE", "TRUE" if x["pe"] else "FALSE",
                       x["fn"], x["sk"], x["tk"], "TRUE" if x["ext"] else "FALSE", x["co"]))
        xs = ",\n  ".join(rec(x) for x in self.X)
        st = ", ".join("<<" + ", ".join(str(a) for a in s) + ">>" for s in self.stacks)
        entry = nm_symbols(self.exe).get("_start", (0, 0))[0]
        data = f"""---- MODULE XData ----
X == <<
  {xs}
>>
Stacks == << {st} >>
BpCands == {{ {", ".join(str(c) for c in sorted(cands))} }}
Entry == {{ {entry} }}
ExitCode == {self.native_exit if self.native_exit is not None else -1}
TailPos == {self.tail}
====
"""
        (d / "XData.tla").write_text(data)
        (d / f"{root}.tla").write_text(f"---- MODULE {root} ----\nEXTENDS {base}\n====\n")
        cfg_common = f"""CONSTANTS
  MaxCmd = {maxcmd}
  MaxBps = {maxbps}
  MaxBk = {maxbk}
  Lifecycle = {"TRUE" if lifecycle else "FALSE"}
  Signals = {"TRUE" if getattr(self, "signals", False) else "FALSE"}
  Extras = {"TRUE" if getattr(self, "extras", False) else "FALSE"}
  Frames = {"TRUE" if getattr(self, "frames", False) else "FALSE"}
"""
        return d, cfg_common


def tlc_in(d, root, cfg_text, cfgname, **kw):
    (d / cfgname).write_text(cfg_text)
    jvm = [f"-DTLA-Library={SPEC}"]
    return vlib.tlc(root, cfgname, cwd=d, jvm=jvm, name=f"{d.name}-{Path(cfgname).stem}", **kw)


# ------------------------------------------------------------------------------------------
# running the real debugger and turning observations into trace events
# ------------------------------------------------------------------------------------------
def run_session(exe, script, tag, timeout=180):
    drv = vlib.cargo_build("sess")
    d = WORK / "sess" / "runs"
    d.mkdir(parents=True, exist_ok=True)
    tag = f"{tag}-{os.getpid()}"
    sp, op = d / f"{tag}.script.json", d / f"{tag}.out.ndjson"
    sp.write_text(json.dumps(script))
    if op.exists():
        op.unlink()
    try:
        p = subprocess.run([str(drv), str(exe), str(sp), str(op)], stdout=subprocess.PIPE, stderr=subprocess.PIPE,
                           timeout=timeout, text=True, start_new_session=True)
        rc, err = p.returncode, p.stderr
    except subprocess.TimeoutExpired:
        rc, err = -9, "watchdog timeout"
        sh("pkill -9 -f %s || true" % re.escape(str(exe)), check=False)
    obs = vlib.ndjson_read(op) if op.exists() else []
    return rc, err, obs


def to_events(p, obs, attach=False):
    """Project driver observations onto the trace-event vocabulary of TraceSession.tla."""
    evs = []
    prev_nums = {}
    base = {"ok": True, "err": "", "addrs": [], "idx": 0, "said": "none", "rpc": -1, "rline": -1, "code": -1,
            "patched": [-1], "bt": [-1], "tick": -1, "panic": False, "nums_kept": True, "gone": True,
            "alive": True, "running": True, "dr_armed": False, "cfa_off": -1, "fi_ret": -1, "stale": 0}
    exited_seen = False
    for o in obs:
        ret = (o.get("res") or {}).get("ret") if o.get("ev") == "obs" else None
        if o.get("ev") == "obs" and (any(h.get("hook") == "exit" for h in o.get("hooks", []))
                                     or (isinstance(ret, dict) and ret.get("kind") == "exit")):
            exited_seen = True
        if o.get("ev") == "released" and exited_seen:
            continue          # the program ran to its end under the debugger: nothing was released
        if o.get("ev") == "released":
            dr = o.get("dr7") or {}
            armed = [t for t, v in dr.items() if isinstance(v, int) and (v & 0xFF) != 0]
            bad = [t for t, v in dr.items() if not isinstance(v, int)]
            if o.get("proc_state") not in (None, "Z") and bad:
                raise ToolError(f"independent DR7 probe failed on a live process: {dr}")
            st = o.get("proc_state")
            tasks = o.get("tasks") or {}
            e = dict(base)
            e.update({"cmd": "released", "alive": st is not None and st != "Z" or o.get("exit_code") is not None,
                      "running": all(v in ("R", "S", "D", "Z") for v in tasks.values()) if tasks else True,
                      "patched": sorted(o["patched"]) if o.get("patched") is not None else [-1],
                      "dr_armed": bool(armed), "code": o["exit_code"] if o.get("exit_code") is not None else -1,
                      "err": json.dumps({"state": st, "tasks": tasks, "dr7": dr, "probe_errors": bad})[:300], "k": 10 ** 6,
                      "stdout": o.get("stdout")})
            evs.append(e)
            continue
        if o.get("ev") != "obs":
            continue
        c, res, after, hooks = o["cmd"], o["res"], o.get("after", {}), o.get("hooks", [])
        name = c["cmd"]
        if attach and name == "continue" and not any(x["cmd"] in ("start", "continue", "restart") for x in evs):
            name = "start"        # the attached process waits before main: same reference as a start
        ok = bool(res.get("ok"))
        err = res.get("err") or res.get("panic") or ""
        patched = after.get("patched")
        e = dict(base)
        e.update({"cmd": name, "ok": ok, "err": str(err)[:200], "patched": sorted(patched) if patched is not None else [-1],
                  "tick": after.get("tick") if after.get("tick") is not None else -1, "panic": res.get("panic") is not None})
        nums = {v["num"]: v["link"] for v in (after.get("snapshot") or []) if v.get("line") is not None or v["kind"] == "reloc" or True}
        e["stale"] = len(after.get("stale") or [])
        if name == "drop":
            tasks = after.get("tasks") or {}
            e["gone"] = after.get("proc_state") is None and not tasks and not after.get("stale")
            e["err"] = json.dumps({"state": after.get("proc_state"), "tasks": tasks, "panic": res.get("panic")})[:300]
            e["k"] = o["k"]
            evs.append(e)
            continue
        if name in ("break_addr", "break_line", "break_fn"):
            e["cmd"] = "break"
            e["addrs"] = sorted({v["link"] for v in (res.get("ret") or [])}) if ok else []
        elif name in ("remove_addr", "remove_line", "remove_fn", "remove_num"):
            e["cmd"] = "remove"
            e["addrs"] = sorted({v["link"] for v in (res.get("ret") or [])}) if ok else []
        elif name in ("start", "continue", "stepi", "step", "next", "finish", "restart"):
            if name == "restart":
                e["nums_kept"] = (set(nums) == set(prev_nums)) if prev_nums else True
            kinds = [h["hook"] for h in hooks]
            ret = res.get("ret") or {}
            exited = ("exit" in kinds) or ret.get("kind") == "exit" or not after.get("alive", True)
            if exited:
                e["idx"] = len(p.X) + 1
                e["said"] = "exit" if ("exit" in kinds or ret.get("kind") == "exit") else "none"
                for h in hooks:
                    if h["hook"] == "exit":
                        e["code"] = h["code"]
                if ret.get("kind") == "exit":
                    e["code"] = ret.get("code", e["code"])
            else:
                rip, tick = after.get("rip"), after.get("tick")
                e["idx"] = p.index.get((rip, tick), 0)
                e["real_pc"] = rip if rip is not None else -1
                if "breakpoint" in kinds or ret.get("kind") == "breakpoint" and name in ("start", "continue"):
                    e["said"] = "breakpoint"
                elif "signal" in kinds or ret.get("kind") == "signal":
                    e["said"] = "signal"
                elif "step" in kinds:
                    e["said"] = "step"
                hk = [h for h in hooks if h["hook"] in ("breakpoint", "step")]
                if hk:
                    e["rpc"] = hk[-1]["pc"] - (after["rip_bias"] if "rip_bias" in after else (0x555555554000 if p.meta.get("pie") else 0))
                    pl = hk[-1].get("place")
                    e["rline"] = pl["line"] if pl else -1
                elif after.get("ecx_pc") is not None:
                    e["rpc"] = after["ecx_pc"]
                fi = after.get("frame_info")
                if fi and after.get("rsp") is not None and after.get("frame_num", 0) == 0:
                    e["cfa_off"] = fi["cfa"] - after["rsp"]
                    e["fi_ret"] = fi["ret"] if fi.get("ret") is not None else -1
                if "bt" in after:
                    e["bt"] = [f["ip"] for f in after["bt"]]
                elif "bt_err" in after or "bt_panic" in after:
                    e["bt"] = []
        elif name in ("call", "watch_addr", "frame"):
            e["cmd"] = {"call": "call", "watch_addr": "watch", "frame": "frame"}[name]
            rip, tick = after.get("rip"), after.get("tick")
            e["idx"] = p.index.get((rip, tick), 0)
        else:
            e["cmd"] = name
        e["k"] = o["k"]
        if after.get("snapshot") is not None:
            prev_nums = nums
        evs.append(e)
    return evs


def judge(p, events, tag):
    """TLC evaluates TraceSession over the recorded events; returns list of verdict records."""
    d, cfg = p.tla_data(set(), 0, 0, root="MCT", base="TraceSession")
    tf = d / f"{tag}.trace.ndjson"
    # TLC's JSON reader has no null: an observation that could not be made is -1 (the spec's "unknown")
    events = [{k: (-1 if v is None else v) for k, v in e.items()} for e in events]
    vlib.ndjson_write(tf, events, tla=True)
    cfgt = cfg + "SPECIFICATION TraceSpec\nINVARIANT TraceDone\n"
    r = tlc_in(d, "MCT", cfgt, "MCT.cfg", workers=1, env={"TRACE": str(tf)}, timeout=300, heap="3g")
    if r.error or r.violated:
        raise ToolError(f"trace validation could not run ({r.violated or r.error}):\n{r.out[-3000:]}")
    v = vlib.printed(r.out, "VERDICT")
    if not v:
        raise ToolError(f"trace validation printed no verdict:\n{r.out[-2000:]}")
    verdict = v[-1]
    if verdict["n"] != len(events):
        raise ToolError("trace validation consumed a different number of events")
    return verdict["viol"], r

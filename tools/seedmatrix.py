#!/usr/bin/env python3
"""Regenerates seeded/README.md from seeded/*/meta.json and result.json."""
import json
from pathlib import Path
V = Path(__file__).resolve().parent.parent / "seeded"
rows = []
for d in sorted(V.iterdir()):
    if not (d / "patch.diff").exists():
        continue
    meta = json.loads((d / "meta.json").read_text()) if (d / "meta.json").exists() else {}
    res = json.loads((d / "result.json").read_text()) if (d / "result.json").exists() else {}
    caught, missed = [], []
    for tier, checks in res.items():
        for c, r in checks.items():
            tag = f"{c}" + ("" if tier == "quick" else f" ({tier})")
            if r["exit"] == 1:
                caught.append(f"{tag} `{'`, `'.join(r['classes'][:4])}`")
            elif r["exit"] == 0:
                missed.append(tag)
            else:
                missed.append(f"{tag} (tool error)")
    conf = meta.get("confirmed_by_me", {})
    rows.append((d.name, meta.get("property", "?"), meta.get("needs_to_manifest", ""), "; ".join(caught) or "—",
                 ", ".join(missed) or "—", conf.get("demo_with_change", "?"), conf.get("demo_without_change", "?")))
out = """# Independently seeded breaking changes

Each directory holds one change to godzie44/BugStalker produced by a fresh sub-agent that was given only the
text of one property and its own scratch worktree of /repo (nothing from /verif): `patch.diff`, the author's
demonstration (a test that fails with the change and passes without it), `meta.author.json` (the author's own
account), `meta.json` (what it breaks, what it needs to manifest, what I confirmed and ran) and `result.json`
(exit code and verdict classes of every registered check run against it with `tools/seedrun.py`; the latest
run of a check replaces its earlier entry).  A change is kept only after `tools/seedverify.sh` confirmed in the
author's worktree that the demonstration fails with the change and passes without it and that the pinned
non-DAP tests still pass with it (the DAP tests are timing-sensitive under the load this machine was under;
the authors re-ran those individually).  `tools/seedmatrix.py` regenerates this file.

| id | property | what it needs to manifest | caught by (quick tier unless said) | run without alarm |
|---|---|---|---|---|
"""
for r in rows:
    out += f"| {r[0]} | {r[1]} | {r[2]} | {r[3]} | {r[4]} |\n"
out += """
History of the checks against these changes (what was strengthened because of a miss):

* C01-1, C03-1 - first missed (no signals in the generated histories); `Signals = TRUE` (SIGUSR1 sent at prompts,
  design/SESSION.md) was added to C01/C02/C03 and catches both.
* C02-1 - first missed (single-threaded puppets only); the multi-threaded leg of C02 (spec/TracePatch.tla: breakpoint
  created while a worker thread is in focus, removed after it exited) catches it.
* C04-1 - needed a source file spread over two compilation units: two-crate puppet added to C04's quick tier.
* C05-1 - frame-k variable reads are judged by C19 (rsp-relative locations in outer frames: puppet `align7` added).
* C10-1 - canonical scripts "parked non-quiet signal + second step + quiet arrival" added, monitor attributes mechanisms.
* C11-1 - `restart` of a never-started process and a stale-process probe after every restart/quit added to C11.
* C12-1 - relaunch histories with an event-enqueuing request while terminated added (DapWire `ExecEnqTerm`).
* C13-1 - function names with several places added to DapBp and the puppet.
* C18-1 - link base of every object made a model parameter; cdylib with a non-zero text-segment base added.

Second round (eight more changes, `*-2`), asked to need something specific to manifest:

* C01-2 (breakpoints < 8 bytes apart) - first run ended in a tool error (a `null` observation reached TLC's JSON
  reader; unknown observations are now -1); `also_adjacent` batches (two candidate addresses on neighbouring
  instructions) added to C01 and C02: caught by both.
* C02-2 (temporaries left behind by an interrupted `next`) - caught by C02's signal histories (`residual_patch`).
* C03-2 (`stepi` with a caller's frame selected) - first missed: `Frame` action added to Session.tla and
  context-aware selection of histories (design/SESSION.md); caught.
* C05-2 (`.debug_frame` ignored when `.eh_frame` exists) - first not covered: mixed Rust + C puppet `cmix8` whose C
  functions have their CFI in `.debug_frame` only; caught (`backtrace_truncated`).
* C09-2 (cloned thread not registered) - first run ended in a tool error: the kernel model entered a new-born thread
  into its event stop at its creator's clone event and took `R` in /proc for a model error; an uncollected birth
  stop is now exempt from that self-check (TraceKernel.tla `ProbeDisagrees`); caught (`not_all_stopped`,
  `thread_list_mismatch`).
* C11-2 (attach, restart, quit leaves the relaunched process behind) - first missed: attached sessions never
  restarted; the harness now follows a restart of an attached program (it becomes a launched one) and half of the
  attached lifecycle histories keep their `restart`.
* C13-2 (sourceMap: previous set looked up under the client path) - first missed: no session used a sourceMap; a third
  of the replayed sessions (half of those that replace a source's set) now go through one; caught.
* C14-2 (DR7 written before the address registers) - caught as it was (`accepted_add_not_armed`).

Third round (six more, `*-3`, for C04, C10, C12, C16, C17, C19):

* C04-3 (rows of a file index sorted by line: one place per line and unit) - caught as it was (`line_instantiation_missed`).
* C16-3 (`sp & !0xf - RED_ZONE`: the red zone is skipped only when bit 7 of rsp is set) - caught as it was
  (`red_zone_clobbered`).
* C17-3 (DIE-tree parent lost after a range-less subprogram with children: namespace of functions without a linkage
  name) - first missed: the puppet had no such function inside a module; `#[no_mangle]` functions in `ffi`,
  `ffi::deep` and `a::b` (after the impl blocks) added; caught (`missed_match`).
* C19-3 (DWARF registers 1 and 2 swapped in the register map handed to expression evaluation) - first missed: the
  quick tier had no optimised build and no value in rdx/rcx; puppet `regs8` (four and six integer arguments, judged at
  the first statements of the callee) is built at opt-level 1 in both tiers; caught (`wrong_register`).
* C12-3 (a `stackTrace` whose generated-source progress was cancelled in advance is answered twice) - first missed: no
  session cancelled by `progressId`; sessions `cancel-next-progress`, `cancel-progress-storm` added (progress ids are
  predictable); caught (`duplicate_response`).
* C10-3 (only the thread of the *next* queue entry is kept stopped when a queued signal is injected) - first missed
  twice: (1) the driver and puppet knew two threads only - now up to four, with scripts that bring three queue-worthy
  signals into delivery-stops at once (the tracer is held after the wait that returns the first); (2) the loss then
  happened but the monitor attributed it to the listed "injected into an event-stop" finding - `TraceKernelSig.tla` now
  remembers which request cancelled a delivery-stop's signal (`supby`), and an injection into an event-stop after a
  cancel by `cont` (never the case on the pinned tree, where only a user's `stepi` leaves such a stop) is a cause of
  its own, not covered by the listed finding; caught (`injected_into_event_stop`, `signal_lost`).
"""
(V / "README.md").write_text(out)
print(out[-2500:])

#!/bin/sh
# seedverify.sh <author worktree>  : re-run the author's demonstration with and without the change,
# and the non-DAP part of the pinned suite with the change.  Writes <wt>/SEED/verify.log
WT=$1
cd "$WT" || exit 2
L=SEED/verify.log
: > $L
git diff --quiet && { echo "worktree has no change applied" >> $L; git apply SEED/patch.diff || exit 2; }
echo "== demo WITH change" >> $L
timeout 3000 sh SEED/demo.sh > SEED/verify_with.log 2>&1; echo "exit=$?" >> $L
git apply -R SEED/patch.diff || { echo "cannot revert" >> $L; exit 2; }
echo "== demo WITHOUT change" >> $L
timeout 3000 sh SEED/demo.sh > SEED/verify_without.log 2>&1; echo "exit=$?" >> $L
git apply SEED/patch.diff
echo "== non-DAP suite WITH change (unit tests + tests/debugger)" >> $L
timeout 3000 nice -n 10 cargo nextest run --offline --lib --test debugger --no-fail-fast --test-threads 2 > SEED/verify_suite.log 2>&1
python3 - >> $L <<'PY'
import json,re
base=set(json.load(open('/root/.vp/BASELINE.json'))['stable_pass'])
want={b for b in base if '::dap::' not in b}
ok=set()
for l in open('SEED/verify_suite.log'):
    m=re.search(r'PASS \[.*?\] \(\s*\d+/\d+\) (\S+) (\S+)',l)
    if m: ok.add(m.group(1).replace('bugstalker::debugger','bugstalker::debugger').strip()+'::'+m.group(2))
norm=lambda s:s.replace('bugstalker::bugstalker','bugstalker')
ok2=set()
for o in ok:
    # nextest prints "bugstalker debugger::...::test" for lib tests and "bugstalker::debugger name" for integration tests
    ok2.add(o); ok2.add(o.replace('bugstalker::','bugstalker::',1))
miss=[w for w in sorted(want) if not any(w.endswith(o.split('::',1)[-1]) for o in ok)]
print(f"stable non-DAP tests: {len(want)-len(miss)}/{len(want)} pass with the change")
for m in miss: print("  NOT PASSING:", m)
PY
cat $L

"""C04: independent decode of a binary's DWARF line tables / function ranges into a TLA+ constant
module (LTData) for spec/LineTableEval.tla.

Sources (none of them BugStalker or gimli): `llvm-dwarfdump --debug-info / --debug-line`,
`objdump -d` (instruction boundaries), `readelf -lW` (executable segments).
Python only parses text and renders constants; every expected answer is computed by TLC.
"""
import os
import re
import shutil
import subprocess
from pathlib import Path

import vlib


def _tool(*names):
    for n in names:
        p = shutil.which(n)
        if p:
            return p
    raise vlib.ToolError(f"none of {names} installed")


DWARFDUMP = None
OBJDUMP = None


def tools():
    global DWARFDUMP, OBJDUMP
    if DWARFDUMP is None:
        DWARFDUMP = _tool("llvm-dwarfdump", "llvm-dwarfdump-14")
        OBJDUMP = _tool("objdump", "llvm-objdump", "llvm-objdump-14")
    return DWARFDUMP, OBJDUMP


def _run(cmd):
    p = subprocess.run(cmd, stdout=subprocess.PIPE, stderr=subprocess.PIPE, text=True, errors="replace")
    if p.returncode != 0:
        raise vlib.ToolError(f"{cmd}: rc={p.returncode} {p.stderr[-500:]}")
    return p.stdout


# ---------------------------------------------------------------------------------------------
# .debug_info
# ---------------------------------------------------------------------------------------------
_DIE = re.compile(r"^(0x[0-9a-f]+):(\s+)(DW_TAG_\w+|NULL)")
_ATTR = re.compile(r"^\s+(DW_AT_\w+)\s+\((.*)$")
_RANGE = re.compile(r"\[0x([0-9a-f]+), 0x([0-9a-f]+)\)")


def parse_dies(text):
    """-> list of dicts {off, depth, tag, attrs{name: raw string}, ranges[(lo,hi)]} in file order."""
    dies, cur, in_ranges = [], None, False
    for line in text.splitlines():
        m = _DIE.match(line)
        if m:
            in_ranges = False
            if m.group(3) == "NULL":
                cur = None
                continue
            cur = {"off": int(m.group(1), 16), "depth": len(m.group(2)), "tag": m.group(3), "attrs": {}, "ranges": []}
            dies.append(cur)
            continue
        if cur is None:
            continue
        m = _ATTR.match(line)
        if m:
            name, val = m.group(1), m.group(2)
            if name == "DW_AT_ranges":
                for r in _RANGE.finditer(val):
                    cur["ranges"].append((int(r.group(1), 16), int(r.group(2), 16)))
                in_ranges = not val.rstrip().endswith("))")
                cur["attrs"][name] = val
            else:
                in_ranges = False
                cur["attrs"][name] = val[:-1] if val.endswith(")") else val
            continue
        if in_ranges:
            for r in _RANGE.finditer(line):
                cur["ranges"].append((int(r.group(1), 16), int(r.group(2), 16)))
            if line.rstrip().endswith("))"):
                in_ranges = False
    return dies


def _strval(raw):
    m = re.match(r'^"(.*)"$', raw.strip())
    return m.group(1) if m else None


def _intval(raw):
    raw = raw.strip()
    m = re.match(r"^(0x[0-9a-f]+|\d+)", raw)
    if not m:
        return None
    return int(m.group(1), 0)


def compile_units(binary):
    dd, _ = tools()
    out = _run([dd, "--debug-info", "-r", "0", binary])
    cus = []
    for d in parse_dies(out):
        if d["tag"] != "DW_TAG_compile_unit":
            continue
        a = d["attrs"]
        cus.append({"off": d["off"], "name": _strval(a.get("DW_AT_name", "")) or "",
                    "comp_dir": _strval(a.get("DW_AT_comp_dir", "")) or "",
                    "stmt_list": _intval(a.get("DW_AT_stmt_list", "")),
                    "producer": _strval(a.get("DW_AT_producer", "")) or ""})
    return cus


def functions_of_cu(binary, cu):
    """Concrete subprograms (with code) of one CU."""
    dd, _ = tools()
    out = _run([dd, f"--debug-info=0x{cu['off']:x}", "-c", binary])
    dies = parse_dies(out)
    by_off = {d["off"]: d for d in dies}

    def ref(raw):
        m = re.match(r"^(0x[0-9a-f]+)", raw.strip())
        return by_off.get(int(m.group(1), 16)) if m else None

    def resolve(d, attr, depth=0):
        if attr in d["attrs"]:
            return d["attrs"][attr]
        if depth > 4:
            return None
        for link in ("DW_AT_specification", "DW_AT_abstract_origin"):
            if link in d["attrs"]:
                t = ref(d["attrs"][link])
                if t is not None:
                    v = resolve(t, attr, depth + 1)
                    if v is not None:
                        return v
        return None

    funcs = []
    for d in dies:
        if d["tag"] != "DW_TAG_subprogram":
            continue
        a = d["attrs"]
        ranges = list(d["ranges"])
        if "DW_AT_low_pc" in a and "DW_AT_high_pc" in a:
            lo, hi = _intval(a["DW_AT_low_pc"]), _intval(a["DW_AT_high_pc"])
            if lo is not None and hi is not None:
                ranges.append((lo, hi))
        ranges = [r for r in ranges if r[1] > r[0]]
        if not ranges:
            continue
        name = _strval(resolve(d, "DW_AT_name") or "") or ""
        decl_file = _strval(resolve(d, "DW_AT_decl_file") or "") or ""
        decl_line = _intval(resolve(d, "DW_AT_decl_line") or "") or 0
        linkage = _strval(resolve(d, "DW_AT_linkage_name") or "") or ""
        funcs.append({"off": d["off"], "name": name, "linkage": linkage, "ranges": sorted(set(ranges)),
                      "decl_file": os.path.normpath(decl_file) if decl_file else "", "decl_line": decl_line})
    return funcs


# ---------------------------------------------------------------------------------------------
# .debug_line
# ---------------------------------------------------------------------------------------------
def line_table(binary, cu):
    """-> (files {index: path}, rows [dict] in program order with local `seq` numbers)."""
    dd, _ = tools()
    out = _run([dd, f"--debug-line=0x{cu['stmt_list']:x}", binary])
    version = None
    dirs, files, rows = {}, {}, []
    cur_file = None
    seq = 0
    cols = None
    for line in out.splitlines():
        s = line.strip()
        m = re.match(r"^version:\s+(\d+)", s)
        if m and version is None:
            version = int(m.group(1))
            continue
        m = re.match(r'^include_directories\[\s*(\d+)\] = "(.*)"$', s)
        if m:
            dirs[int(m.group(1))] = m.group(2)
            continue
        m = re.match(r"^file_names\[\s*(\d+)\]:", s)
        if m:
            cur_file = int(m.group(1))
            files[cur_file] = {"name": "", "dir": 0}
            continue
        if cur_file is not None:
            m = re.match(r'^name: "(.*)"$', s)
            if m:
                files[cur_file]["name"] = m.group(1)
                continue
            m = re.match(r"^dir_index: (\d+)", s)
            if m:
                files[cur_file]["dir"] = int(m.group(1))
                continue
        if s.startswith("Address") and "Line" in s:
            cols = s.split()
            continue
        m = re.match(r"^0x([0-9a-f]{8,16})\s+(\d+)\s+(\d+)\s+(\d+)\s+(\d+)\s+(\d+)\s*(.*)$", s)
        if m and cols:
            flags = m.group(7).split()
            row = {"addr": int(m.group(1), 16), "line": int(m.group(2)), "col": int(m.group(3)),
                   "file": int(m.group(4)), "stmt": "is_stmt" in flags, "pe": "prologue_end" in flags,
                   "eb": "epilogue_begin" in flags, "es": "end_sequence" in flags, "seq": seq}
            rows.append(row)
            if row["es"]:
                seq += 1
    if version is None:
        raise vlib.ToolError(f"no line table at 0x{cu['stmt_list']:x} in {binary}")
    comp = cu["comp_dir"]
    paths = {}
    for idx, f in files.items():
        d = f["dir"]
        if version >= 5:
            base = dirs.get(d, comp)
            if not os.path.isabs(base):
                base = os.path.join(comp, base)
        else:
            base = comp if d == 0 else dirs.get(d, "")
            if not os.path.isabs(base):
                base = os.path.join(comp, base)
        p = f["name"] if os.path.isabs(f["name"]) else os.path.join(base, f["name"])
        paths[idx] = os.path.normpath(p)
    return version, paths, rows


# ---------------------------------------------------------------------------------------------
# ELF facts
# ---------------------------------------------------------------------------------------------
def exec_segments(binary):
    out = _run(["readelf", "-lW", binary])
    segs = []
    for line in out.splitlines():
        p = line.split()
        if len(p) >= 7 and p[0] == "LOAD":
            # LOAD off vaddr paddr filesz memsz flags... align ; flags may be split ("R E")
            flags = "".join(p[6:-1])
            if "E" in flags:
                segs.append((int(p[2], 16), int(p[2], 16) + int(p[5], 16)))
    if not segs:
        raise vlib.ToolError(f"no executable LOAD segment in {binary}")
    return segs


def is_pie(binary):
    out = _run(["readelf", "-hW", binary])
    return "DYN" in re.search(r"Type:\s+(\S+)", out).group(1)


def instruction_addresses(binary):
    _, od = tools()
    out = _run([od, "-d", "--no-show-raw-insn", binary])
    addrs = []
    for line in out.splitlines():
        m = re.match(r"^\s*([0-9a-f]+):\s", line)
        if m:
            addrs.append(int(m.group(1), 16))
    return addrs


# ---------------------------------------------------------------------------------------------
# constant module
# ---------------------------------------------------------------------------------------------
def tla_str(s):
    return '"' + s.replace("\\", "\\\\").replace('"', '\\"') + '"'


def tla_bool(b):
    return "TRUE" if b else "FALSE"


def query_name(name):
    """The name a user types for a function: DW_AT_name without generic arguments.  Closures and
    other non-identifier names are not queried (name denotation is C17's subject)."""
    base = re.sub(r"<.*$", "", name)
    return base if re.fullmatch(r"[A-Za-z_][A-Za-z0-9_]*", base) else ""


def decode(binary, source, cu_name=None, crate_roots=None):
    """Independent decode of the puppet's own compilation units.
    `source`: absolute path of the puppet's source file."""
    source = os.path.normpath(source)
    # crate roots: the source files whose compilation units are decoded.  A source file's code can live in
    # several units (a library crate's generics are instantiated in the unit of the crate that uses them), so
    # for a multi-crate puppet every crate of the puppet is decoded and `source` is the file that is queried.
    roots = [os.path.normpath(str(r)) for r in (crate_roots or [source])]
    bases = {os.path.basename(r) for r in roots}

    def mine(c):
        head = c["name"].split("/@/")[0]
        return (c["name"] == cu_name or head in bases or
                os.path.normpath(os.path.join(c["comp_dir"], head)) in roots)

    cus = [c for c in compile_units(binary) if c["stmt_list"] is not None and mine(c)]
    if not cus:
        raise vlib.ToolError(f"no compilation unit of {source} in {binary}")
    segs = exec_segments(binary)

    def in_text(a):
        return a != 0 and any(lo <= a < hi for lo, hi in segs)

    file_ids, file_list = {}, []

    def fid(path):
        if path not in file_ids:
            file_ids[path] = len(file_list)
            file_list.append(path)
        return file_ids[path]

    src_id = fid(source)
    rows, funcs = [], []
    units_with_source = 0
    seq_base = 0
    dropped_seq = dropped_fn = 0
    versions = set()
    for cu in cus:
        version, paths, rws = line_table(binary, cu)
        versions.add(version)
        # drop tombstoned sequences (garbage-collected sections: addresses outside the text)
        byseq = {}
        for r in rws:
            byseq.setdefault(r["seq"], []).append(r)
        nseq = 0
        for s in sorted(byseq):
            rs = byseq[s]
            if not rs[-1]["es"]:
                raise vlib.ToolError(f"sequence without end_sequence row in {binary}")
            if not all(in_text(r["addr"]) or (r["es"] and in_text(r["addr"] - 1)) for r in rs):
                dropped_seq += 1
                continue
            for r in rs:
                r = dict(r)
                r["unit"] = cu["off"]
                r["seq"] = seq_base + nseq
                r["file"] = fid(paths.get(r["file"], f"<file {r['file']}>"))
                rows.append(r)
            nseq += 1
        seq_base += nseq
        if any(r["unit"] == cu["off"] and r["file"] == src_id and not r["es"] for r in rows):
            units_with_source += 1
        for f in functions_of_cu(binary, cu):
            if not all(in_text(lo) and in_text(hi - 1) for lo, hi in f["ranges"]):
                dropped_fn += 1
                continue
            f["cu"] = cu["off"]
            f["user"] = f["decl_file"] == source or f["decl_file"] in roots
            f["q"] = query_name(f["name"])
            funcs.append(f)
    insn = instruction_addresses(binary)
    user_ranges = [r for f in funcs if f["user"] for r in f["ranges"]]
    pcs = sorted({a for a in insn if any(lo <= a < hi for lo, hi in user_ranges)})
    nlines = len(Path(source).read_text().splitlines())
    line_qs = [(src_id, l) for l in range(1, nlines + 2)]
    fn_qs = sorted({f["q"] for f in funcs if f["user"] and f["q"]})
    range_qs = [(src_id, 1, nlines + 1)]
    return {"binary": str(binary), "source": source, "src_id": src_id, "files": file_list, "rows": rows,
            "funcs": funcs, "pcs": pcs, "line_qs": line_qs, "fn_qs": fn_qs, "range_qs": range_qs, "nlines": nlines, "dwarf_versions": sorted(versions),
            "dropped_sequences": dropped_seq, "dropped_functions": dropped_fn, "pie": is_pie(binary),
            "cus": [c["name"] for c in cus], "units_with_rows_of_source": units_with_source, "exec_segments": segs}


def write_module(dec, outdir):
    outdir = Path(outdir)
    outdir.mkdir(parents=True, exist_ok=True)
    L = ["---- MODULE LTData ----", f"\\* generated by tools/c04_oracle.py from {dec['binary']}",
         "DataRows == <<"]
    rl = []
    for r in dec["rows"]:
        rl.append("  [addr |-> %d, file |-> %d, line |-> %d, col |-> %d, stmt |-> %s, pe |-> %s, eb |-> %s, "
                  "es |-> %s, seq |-> %d]" % (r["addr"], r["file"], r["line"], r["col"], tla_bool(r["stmt"]),
                                             tla_bool(r["pe"]), tla_bool(r["eb"]), tla_bool(r["es"]), r["seq"]))
    L.append(",\n".join(rl))
    L.append(">>")
    L.append("DataFuncs == <<")
    fl = []
    for f in dec["funcs"]:
        rs = ", ".join(f"<<{lo}, {hi}>>" for lo, hi in f["ranges"])
        fl.append("  [name |-> %s, q |-> %s, ranges |-> {%s}, decl |-> %d]" %
                  (tla_str(f["name"]), tla_str(f["q"]), rs, f["decl_line"]))
    L.append(",\n".join(fl))
    L.append(">>")
    L.append("DataPcs == <<" + ", ".join(str(p) for p in dec["pcs"]) + ">>")
    L.append("DataLineQs == <<" + ", ".join(f"<<{a}, {b}>>" for a, b in dec["line_qs"]) + ">>")
    L.append("DataFnQs == <<" + ", ".join(tla_str(n) for n in dec["fn_qs"]) + ">>")
    L.append("DataRangeQs == <<" + ", ".join(f"<<{a}, {b}, {c}>>" for a, b, c in dec["range_qs"]) + ">>")
    L.append("====")
    (outdir / "LTData.tla").write_text("\n".join(L) + "\n")
    return outdir / "LTData.tla"


def evaluate(dec, outdir, timeout=600, workers=1):
    """TLC evaluates the declarative operators; returns (list of answer records, TlcResult)."""
    outdir = Path(outdir)
    write_module(dec, outdir)
    out = outdir / "expected.ndjson"
    if out.exists():
        out.unlink()
    r = vlib.tlc("LineTableEval", "LineTableEval.cfg", workers=workers, timeout=timeout, heap="3g",
                 jvm=[f"-DTLA-Library={outdir}"], env={"OUT": str(out)},
                 name="LineTableEval-" + outdir.name)
    if r.violated or r.error or not out.exists():
        raise vlib.ToolError(f"TLC oracle evaluation failed for {dec['binary']}: violated={r.violated} "
                             f"error={r.error}\n{r.out[-2500:]}")
    m = re.search(r'<<"C04EVAL", (\d+), (\d+), (\d+), (\d+), (\d+)>>', r.out)
    if not m or int(m.group(1)) != len(dec["rows"]) or int(m.group(3)) != len(dec["pcs"]):
        raise vlib.ToolError("TLC oracle evaluation: size echo does not match the generated module")
    return vlib.ndjson_read(out), r

"""Shared machinery for /verif/tools/vcheck.

Conventions (DESIGN.md §3.6, §7):
  exit 0  property held on everything explored (KNOWN-FINDING lines allowed)
  exit 1  + line "VIOLATION property=<id> replay=<path>"  for a violation not in known_findings.json
  exit 2  tool error / timeout / vacuous run / generator-vs-model mismatch (never a violation)
"""
import hashlib
import json
import os
import re
import shutil
import subprocess
import sys
import time
from pathlib import Path

VERIF = Path(__file__).resolve().parent.parent
REPO = Path(os.environ.get("VERIF_REPO", "/repo"))
HARNESS = VERIF / "harness"
SPEC = VERIF / "spec"
EVIDENCE = Path(os.environ.get("VERIF_EVIDENCE_DIR") or (VERIF / "evidence"))   # seeded runs write elsewhere
REPLAYS = VERIF / "replays"
WORK = VERIF / "work"          # scratch (git-ignored); never /tmp
PUPPET_BUILD = VERIF / "puppets" / "build"
TLA_JAR = "/opt/veriftools/tla/tla2tools.jar"
COMMUNITY = "/opt/veriftools/tla/CommunityModules-deps.jar"


class ToolError(Exception):
    """Anything that is not a statement about the property (exit 2)."""


def seed():
    try:
        return int(os.environ.get("VERIF_SEED", "1"))
    except ValueError:
        return 1


def log(*a):
    print(*a, file=sys.stderr, flush=True)


def sh(cmd, cwd=None, env=None, timeout=None, check=True, input=None):
    """Run a command, return (rc, stdout, stderr).  Timeout -> ToolError."""
    e = dict(os.environ)
    if env:
        e.update(env)
    try:
        p = subprocess.run(cmd, cwd=cwd, env=e, timeout=timeout, input=input,
                           stdout=subprocess.PIPE, stderr=subprocess.PIPE, text=True,
                           shell=isinstance(cmd, str))
    except subprocess.TimeoutExpired as ex:
        raise ToolError(f"timeout after {timeout}s: {cmd}") from ex
    if check and p.returncode != 0:
        raise ToolError(f"command failed rc={p.returncode}: {cmd}\n{p.stdout[-3000:]}\n{p.stderr[-3000:]}")
    return p.returncode, p.stdout, p.stderr


# --------------------------------------------------------------------------------------------
# harness build
# --------------------------------------------------------------------------------------------
_built = set()


def harness_dir():
    """The harness crate to build.  For /repo it is /verif/harness.  When VERIF_REPO points at a
    scratch worktree (mutant runs, never a registered check) a private copy with its own target
    directory is made under work/ so that concurrent users of /verif/harness are not disturbed."""
    if str(REPO) == "/repo":
        return HARNESS
    alt = WORK / ("harness-" + hashlib.sha1(str(REPO).encode()).hexdigest()[:8])
    if not (alt / "Cargo.toml").exists():
        alt.mkdir(parents=True, exist_ok=True)
        toml = (HARNESS / "Cargo.toml").read_text().replace('path = "/repo"', f'path = "{REPO}"')
        (alt / "Cargo.toml").write_text(toml)
        shutil.copy(HARNESS / "Cargo.lock", alt / "Cargo.lock")
        shutil.copy(HARNESS / "build.rs", alt / "build.rs")
        shutil.copy(HARNESS / "rust-toolchain.toml", alt / "rust-toolchain.toml")
        shutil.copytree(HARNESS / ".cargo", alt / ".cargo", dirs_exist_ok=True)
        if not (alt / "src").exists():
            os.symlink(HARNESS / "src", alt / "src")
        if (HARNESS / "target").exists() and not (alt / "target").exists():
            # best effort: files may vanish while someone else builds; cargo rebuilds what is missing
            sh(["cp", "-a", str(HARNESS / "target"), str(alt / "target")], timeout=900, check=False)
    return alt


def cargo_build(binname, timeout=1500):
    """(Re)build one harness binary against the repository's current working tree.  Returns its path."""
    hd = harness_dir()
    out = hd / "target" / "debug" / binname
    if binname in _built:
        return out
    t0 = time.time()
    lock = hd / "Cargo.lock"
    if not lock.exists():
        shutil.copy(REPO / "Cargo.lock", lock)
    env = {"CARGO_NET_OFFLINE": "true"}
    if os.environ.get("VERIF_TARGET_DIR"):          # development only: private target dir
        env["CARGO_TARGET_DIR"] = os.environ["VERIF_TARGET_DIR"]
        out = Path(os.environ["VERIF_TARGET_DIR"]) / "debug" / binname
    rc, so, se = sh(["cargo", "build", "--offline", "--bin", binname], cwd=hd, env=env,
                    timeout=timeout, check=False)
    if rc != 0:
        raise ToolError(f"harness build failed for {binname} (does the repository still compile?)\n{se[-4000:]}")
    log(f"[build] {binname} {time.time()-t0:.1f}s")
    _built.add(binname)
    return out


# --------------------------------------------------------------------------------------------
# TLC
# --------------------------------------------------------------------------------------------
class TlcResult:
    def __init__(self):
        self.rc = None
        self.out = ""
        self.generated = 0      # states generated == transitions taken
        self.distinct = 0
        self.depth = 0
        self.violated = None    # name of violated invariant / property / "deadlock" / "assumption"
        self.error = None       # other TLC error text
        self.coverage = {}      # action name -> (distinct, total)
        self.wall = 0.0

    @property
    def ok(self):
        return self.violated is None and self.error is None


_TLA_STR = re.compile(r'"((?:[^"\\]|\\.)*)"')


def tla_unescape(s):
    return s.replace('\\"', '"').replace("\\\\", "\\")


def printed(out, tag):
    """Values printed by PrintT(<<"TAG", ToJson(x)>>): returns the decoded JSON objects."""
    res = []
    pref = '<<"%s", ' % tag
    for line in out.splitlines():
        line = line.strip()
        if line.startswith(pref) and line.endswith(">>"):
            body = line[len(pref):-2].strip()
            m = _TLA_STR.fullmatch(body)
            if m:
                try:
                    res.append(json.loads(tla_unescape(m.group(1))))
                except json.JSONDecodeError:
                    res.append(tla_unescape(m.group(1)))
            else:
                res.append(body)
    return res


def tlc(module, cfg=None, workers=8, simulate=None, depth=None, env=None, timeout=900,
        coverage=False, jvm=None, extra=None, heap="6g", dfs=False, name=None, cwd=None,
        deadlock=False, seed_arg=None):
    """Run TLC on spec/<module>.tla with spec/<cfg>.  Returns TlcResult (never raises on a
    property violation; raises ToolError on timeouts and on parse/semantic errors)."""
    cwd = Path(cwd or SPEC)
    cfg = cfg or (module + ".cfg")
    name = name or (Path(cfg).stem)
    meta = WORK / "tlc" / f"{name}-{os.getpid()}"
    if meta.exists():
        shutil.rmtree(meta, ignore_errors=True)
    meta.mkdir(parents=True, exist_ok=True)
    jopts = ["-XX:+UseParallelGC", f"-Xmx{heap}", "-Xss1g"]
    if dfs:
        jopts.append("-Dtlc2.tool.queue.IStateQueue=StateDeque")
    if jvm:
        jopts += jvm
    cmd = ["java"] + jopts + ["-cp", f"{TLA_JAR}:{COMMUNITY}", "tlc2.TLC",
                              "-workers", str(workers), "-metadir", str(meta), "-cleanup",
                              "-noGenerateSpecTE", "-config", cfg]
    if not deadlock:
        cmd.append("-deadlock")   # "-deadlock" switches deadlock checking OFF
    if coverage:
        cmd += ["-coverage", "1"]
    if simulate is not None:
        cmd += ["-simulate", f"num={simulate}"]
        if depth:
            cmd += ["-depth", str(depth)]
        if seed_arg is not None:
            cmd += ["-seed", str(seed_arg)]
    if extra:
        cmd += extra
    cmd.append(module + ".tla" if not module.endswith(".tla") else module)
    t0 = time.time()
    rc, so, se = sh(cmd, cwd=cwd, env=env, timeout=timeout, check=False)
    shutil.rmtree(meta, ignore_errors=True)
    r = TlcResult()
    r.rc, r.out, r.wall = rc, so + se, time.time() - t0
    m = None
    for m in re.finditer(r"(\d+) states generated, (\d+) distinct states found", r.out):
        pass
    if m:
        r.generated, r.distinct = int(m.group(1)), int(m.group(2))
    m = re.search(r"The depth of the complete state graph search is (\d+)", r.out)
    if m:
        r.depth = int(m.group(1))
    m = re.search(r"Error: Invariant (\S+) is violated", r.out)
    if m:
        r.violated = m.group(1)
    elif re.search(r"Error: Action property (\S+) is violated", r.out):
        r.violated = re.search(r"Error: Action property (\S+) is violated", r.out).group(1)
    elif "Temporal properties were violated" in r.out:
        r.violated = "temporal"
    elif "Error: Deadlock reached" in r.out:
        r.violated = "deadlock"
    elif re.search(r"Assumption .* is false", r.out):
        r.violated = "assumption"
    elif "The postcondition" in r.out and "false" in r.out and "Error" in r.out:
        r.violated = "postcondition"
    elif rc != 0 or "Error:" in r.out:
        if "Finished in" not in r.out or "Error:" in r.out:
            r.error = "\n".join(l for l in r.out.splitlines() if "rror" in l)[:2000] or f"rc={rc}"
    if coverage:
        for m in re.finditer(r"<(\w+) line \d+, col \d+ to line \d+, col \d+ of module \w+(?: \([^)]*\))?>: (\d+):(\d+)", r.out):
            nm, a, b = m.group(1), int(m.group(2)), int(m.group(3))
            pa, pb = r.coverage.get(nm, (0, 0))
            r.coverage[nm] = (pa + a, pb + b)
    if r.error and ("Parse" in r.out or "Semantic" in r.out or "Unknown operator" in r.out):
        raise ToolError(f"TLC could not load {module}/{cfg}:\n{r.out[-3000:]}")
    return r


def tlc_expect_ok(r, what):
    if r.error:
        raise ToolError(f"TLC error in {what}: {r.error}\n{r.out[-2500:]}")


def vacuous_actions(r, ignore=()):
    return sorted(n for n, (a, b) in r.coverage.items() if b == 0 and n not in ignore)


def pcal(module):
    """Translate PlusCal in spec/<module>.tla in place if the translation is missing/stale."""
    f = SPEC / (module + ".tla")
    sh(["java", "-cp", TLA_JAR, "pcal.trans", "-nocfg", str(f)], cwd=SPEC, timeout=120)


# --------------------------------------------------------------------------------------------
# findings / reporting / evidence
# --------------------------------------------------------------------------------------------
def load_known():
    f = VERIF / "known_findings.json"
    if not f.exists():
        return []
    return json.loads(f.read_text()).get("findings", [])


def _matches(entry, rec):
    if entry.get("status") != "known":
        return False
    if entry.get("property") != rec.get("property"):
        return False
    for k, v in entry.get("match", {}).items():
        rv = rec.get(k)
        if isinstance(v, list):
            if rv not in v:
                return False
        elif isinstance(v, dict) and "regex" in v:
            if rv is None or not re.search(v["regex"], str(rv)):
                return False
        elif rv != v:
            return False
    return True


class Reporter:
    """Collects mismatch records {property, class, action, ...}; decides exit code."""

    def __init__(self, prop, tier):
        self.prop, self.tier = prop, tier
        self.t0 = time.time()
        self.records = []
        self.known = load_known()
        self.notes = []

    def mismatch(self, cls, action, **kw):
        rec = {"property": self.prop, "class": cls, "action": action}
        rec.update(kw)
        self.records.append(rec)
        return rec

    def finish(self, level, coverage, assumptions=None):
        new, known_hit = [], {}
        for rec in self.records:
            hit = None
            for i, e in enumerate(self.known):
                if _matches(e, rec):
                    hit = i
                    break
            if hit is None:
                new.append(rec)
            else:
                known_hit.setdefault(hit, []).append(rec)
        for i, recs in sorted(known_hit.items()):
            e = self.known[i]
            print(f"KNOWN-FINDING: property={self.prop} {e.get('what', json.dumps(e.get('match')))} "
                  f"[{len(recs)} occurrence(s) this run]", flush=True)
        REPLAYS.mkdir(exist_ok=True)
        seen = set()
        for rec in new:
            key = (rec.get("class"), rec.get("action"), json.dumps(rec.get("script"), sort_keys=True)[:2000])
            if key in seen:
                continue
            seen.add(key)
            h = hashlib.sha1(json.dumps(rec, sort_keys=True, default=str).encode()).hexdigest()[:12]
            path = REPLAYS / f"{self.prop}-{h}.json"
            path.write_text(json.dumps(rec, indent=1, default=str))
            print(f"VIOLATION property={self.prop} replay={path}", flush=True)
            log(f"  class={rec.get('class')} action={rec.get('action')} "
                f"expected={str(rec.get('expected'))[:300]} actual={str(rec.get('actual'))[:300]}")
            if len(seen) >= 25:
                break
        cov = dict(coverage)
        cov.setdefault("known_findings_observed", sum(len(v) for v in known_hit.values()))
        ev = {"property_id": self.prop, "tier": self.tier, "seed": seed(), "level": level,
              "coverage": cov, "assumptions": assumptions or [], "wall_s": round(time.time() - self.t0, 2),
              "violations": len(new)}
        if self.notes:
            ev["notes"] = self.notes
        EVIDENCE.mkdir(exist_ok=True)
        (EVIDENCE / f"{self.prop}.json").write_text(json.dumps(ev, indent=1, default=str))
        return 1 if new else 0


def stable_hash(obj):
    return hashlib.sha1(json.dumps(obj, sort_keys=True, default=str).encode()).hexdigest()


def no_nulls(v):
    """TLC's JSON reader has no null: an observation that could not be made becomes -1 (recursively)."""
    if v is None:
        return -1
    if isinstance(v, dict):
        return {k: no_nulls(x) for k, x in v.items()}
    if isinstance(v, (list, tuple)):
        return [no_nulls(x) for x in v]
    return v


def ndjson_write(path, rows, tla=False):
    """`tla=True`: the file is read by a TLA+ trace specification (nulls are replaced, see no_nulls)."""
    Path(path).parent.mkdir(parents=True, exist_ok=True)
    with open(path, "w") as f:
        for r in rows:
            f.write(json.dumps(no_nulls(r) if tla else r) + "\n")


def ndjson_read(path):
    out = []
    with open(path) as f:
        for line in f:
            line = line.strip()
            if line:
                out.append(json.loads(line))
    return out

"""C04 leg E: TLC over ALL small line tables (spec/LineTableSmall.tla) + leg S: the witness tables as real ELF objects.

quick:    LineTableSmall_Q.cfg exhaustively with invariant ClassesAllowed (no disagreement class beyond the
          candidate list below), then every committed witness table (spec/LineTableSmall.witnesses.json) is
          synthesised (tools/c04_synth.py) and put through the same oracle + debugger pipeline as the puppets.
thorough: additionally LineTableSmall_T*.cfg, vacuity runs, and the witnesses are re-derived with TLC (one run per
          class with invariant No_<class>) and must still cover exactly the classes of the committed file.
"""
import json
import re
from pathlib import Path

import vlib

# disagreement classes between the algorithm transcriptions and the declarative spec that TLC finds on small
# tables (design/C04.md explains each).  They are CANDIDATE defects; only leg S / leg O turn one into a finding.
CANDIDATES = [
    "place_end_sequence_row", "place_wrong_row", "info_place_zero_length_row",
    "fn_break_outside_function_no_pe", "fn_break_outside_function_despite_pe", "fn_break_not_first_prologue_end",
    "line_end_sequence_row", "line_wrong_address", "line_function_missed",
]
NOT_EXPECTED = ["place_missing", "func_wrong", "fn_break_none"]
WITNESSES = vlib.SPEC / "LineTableSmall.witnesses.json"
CFGDIR = vlib.WORK / "c04" / "cfg"


def _cfg(base, invariant, allowed=None, name=None):
    CFGDIR.mkdir(parents=True, exist_ok=True)
    txt = (vlib.SPEC / base).read_text()
    if allowed is not None:
        txt = re.sub(r"Allowed = \{[^}]*\}", "Allowed = {" + ", ".join('"%s"' % c for c in allowed) + "}", txt)
    txt += f"\nINVARIANT {invariant}\n"
    out = CFGDIR / (name or f"{Path(base).stem}-{invariant}.cfg")
    out.write_text(txt)
    return str(out)


def _witness(r):
    m = re.findall(r'^json = "(.*)"$', r.out, re.M)     # the last state of the trace is the table
    if not m:
        return None
    return json.loads(vlib.tla_unescape(m[-1]))


def exhaustive(base, workers, timeout):
    r = vlib.tlc("LineTableSmall", _cfg(base, "ClassesAllowed", CANDIDATES), workers=workers, timeout=timeout,
                 heap="3g", name=f"{Path(base).stem}-all")
    vlib.tlc_expect_ok(r, f"LineTableSmall {base}")
    if r.violated:
        w = _witness(r)
        raise vlib.ToolError(f"LineTableSmall/{base}: a disagreement class outside the candidate list appeared "
                             f"(the specification changed, not the code): {w and w.get('classes')}\n{json.dumps(w)}")
    if r.distinct < 100:
        raise vlib.ToolError(f"LineTableSmall/{base}: vacuous ({r.distinct} states)")
    return r


def derive_witness(base, cls, workers, timeout=600):
    r = vlib.tlc("LineTableSmall", _cfg(base, "No_" + cls), workers=workers, timeout=timeout, heap="3g",
                 name=f"{Path(base).stem}-{cls}")
    vlib.tlc_expect_ok(r, f"LineTableSmall witness {cls}")
    if not r.violated:
        return None
    w = _witness(r)
    if w is None or cls not in w["classes"]:
        raise vlib.ToolError(f"could not read TLC's witness for {cls}:\n{r.out[-1500:]}")
    return w


def must_violate(base, inv, workers):
    r = vlib.tlc("LineTableSmall", _cfg(base, inv), workers=workers, timeout=600, heap="3g",
                 name=f"{Path(base).stem}-{inv}")
    vlib.tlc_expect_ok(r, f"LineTableSmall vacuity {inv}")
    if not r.violated:
        raise vlib.ToolError(f"LineTableSmall/{base}: vacuous - no table with the shape {inv} excludes")


def regen(workers=2, bases=("LineTableSmall_Q.cfg", "LineTableSmall_U.cfg")):
    """Re-derive one witness per (class, base) and write the committed witness file."""
    out = []
    for base in bases:
        for cls in CANDIDATES + NOT_EXPECTED:
            w = derive_witness(base, cls, workers)
            if w is not None:
                out.append({"class": cls, "cfg": base, "table": {"rows": w["rows"], "funcs": w["funcs"]},
                            "classes": sorted(w["classes"])})
                vlib.log(f"[C04/E] witness {base} {cls}: {len(w['rows'])} rows")
    WITNESSES.write_text(json.dumps(out, indent=1) + "\n")
    return out


def run_models(tier, workers=4):
    """Leg E.  Returns {"states", "transitions", "summary"}.  Raises ToolError on a vacuous run, on a class
    outside the candidate list, or (thorough) on a stale witness file."""
    res = {"states": 0, "transitions": 0, "summary": {}}
    bases = ["LineTableSmall_Q.cfg"] if tier == "quick" else \
        ["LineTableSmall_Q.cfg", "LineTableSmall_U.cfg", "LineTableSmall_T.cfg"]
    for base in bases:
        r = exhaustive(base, workers, 1500)
        res["states"] += r.distinct
        res["transitions"] += r.generated
        res["summary"][base] = {"tables": r.distinct - 1, "wall_s": round(r.wall, 1)}
        vlib.log(f"[C04/E] {base}: {r.distinct - 1} tables, no class outside the candidate list, {r.wall:.0f}s")
    res["summary"]["classes_allowed"] = CANDIDATES
    if tier == "thorough":
        committed = json.loads(WITNESSES.read_text())
        must_violate("LineTableSmall_Q.cfg", "Never_SharedAddress", workers)
        must_violate("LineTableSmall_Q.cfg", "Never_NoPe", workers)
        # every committed witness must still be a TLC counterexample of its class (classes outside the
        # candidate list cannot appear: ClassesAllowed above would have been violated)
        for w in committed:
            d = derive_witness(w["cfg"], w["class"], workers)
            if d is None:
                raise vlib.ToolError(f"LineTableSmall: committed witness for {w['class']}/{w['cfg']} is stale "
                                     f"(run `python3-vt tools/c04_small.py regen`)")
        have = committed
        res["summary"]["witnesses_rederived"] = len(have)
    return res


def run_synth(rep, exe, totals):
    """Leg S: the committed witness tables as one real ELF object through oracle + debugger."""
    import c04_synth
    committed = json.loads(WITNESSES.read_text())
    case, ntab, r = c04_synth.run_tables(rep, exe, committed, "gas", totals)
    return {"synth_objects": ntab, "states": r.distinct, "transitions": r.generated,
            "samples": [{"synth_tables": ntab, "class": committed[0]["class"], "first_table": committed[0]["table"]}]}


if __name__ == "__main__":
    import sys
    if len(sys.argv) > 1 and sys.argv[1] == "regen":
        print(len(regen()), "witnesses written to", WITNESSES)

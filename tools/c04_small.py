"""C04 leg E: TLC over ALL small line tables (spec/LineTableSmall.tla) + leg S: witness tables as real ELF objects.

Since the fix commits a32cc53 / 28a0576 / 074d460 part 2 of LineTable.tla transcribes the FIXED algorithms and the
invariant is plain AlgorithmAgreesWithSpec (no disagreement class at all).
quick:    LineTableSmall_Q.cfg (one unit) and LineTableSmall_M.cfg (two compilation units sharing the file).
thorough: + LineTableSmall_T.cfg, LineTableSmall_MT.cfg, vacuity runs (shared address, no prologue_end, a line split
          over two units) and the seeded swapped loop nest (PerUnitFallback = TRUE) which TLC must reject.
Leg S:    spec/LineTableSmall.witnesses.json holds TLC's counterexample tables of the PRE-fix transcriptions (commit
          8aa1749); they stay as a regression corpus and are synthesised (tools/c04_synth.py) into one real object
          that goes through the same oracle + debugger pipeline as the puppets.
"""
import json
import re
from pathlib import Path

import vlib

WITNESSES = vlib.SPEC / "LineTableSmall.witnesses.json"
CFGDIR = vlib.WORK / "c04" / "cfg"


def _cfg(base, invariant, override=None, name=None):
    CFGDIR.mkdir(parents=True, exist_ok=True)
    txt = (vlib.SPEC / base).read_text()
    for k, v in (override or {}).items():
        txt, n = re.subn(rf"(?m)^  {k} = .*$", f"  {k} = {v}", txt)
        if n != 1:
            raise vlib.ToolError(f"{base}: constant {k} not found")
    txt += f"\nINVARIANT {invariant}\n"
    out = CFGDIR / (name or f"{Path(base).stem}-{invariant}{'-' + '-'.join(override) if override else ''}.cfg")
    out.write_text(txt)
    return str(out)


def _witness(r):
    m = re.findall(r'^json = "(.*)"$', r.out, re.M)     # the last state of the trace is the table
    if not m:
        return None
    return json.loads(vlib.tla_unescape(m[-1]))


def exhaustive(base, workers, timeout):
    r = vlib.tlc("LineTableSmall", _cfg(base, "AlgorithmAgreesWithSpec"), workers=workers, timeout=timeout,
                 heap="3g", name=f"{Path(base).stem}-all")
    vlib.tlc_expect_ok(r, f"LineTableSmall {base}")
    if r.violated:
        w = _witness(r)
        # the model does not read /repo: a disagreement here means spec and transcription drifted apart
        raise vlib.ToolError(f"LineTableSmall/{base}: the transcribed algorithms disagree with the declarative "
                             f"specification: {w and w.get('classes')}\n{json.dumps(w)}")
    if r.distinct < 100:
        raise vlib.ToolError(f"LineTableSmall/{base}: vacuous ({r.distinct} states)")
    return r


def must_violate(base, inv, workers, override=None):
    r = vlib.tlc("LineTableSmall", _cfg(base, inv, override), workers=workers, timeout=600, heap="3g",
                 name=f"{Path(base).stem}-{inv}")
    vlib.tlc_expect_ok(r, f"LineTableSmall {inv}")
    if not r.violated:
        raise vlib.ToolError(f"LineTableSmall/{base}: expected a violation of {inv} {override or ''} (vacuous / insensitive)")
    return _witness(r)


def run_models(tier, workers=4):
    """Leg E.  Returns {"states", "transitions", "summary"}."""
    res = {"states": 0, "transitions": 0, "summary": {}}
    bases = ["LineTableSmall_Q.cfg", "LineTableSmall_M.cfg"]
    if tier == "thorough":
        bases += ["LineTableSmall_T.cfg", "LineTableSmall_MT.cfg"]
    for base in bases:
        r = exhaustive(base, workers, 1500)
        res["states"] += r.distinct
        res["transitions"] += r.generated
        res["summary"][base] = {"tables": r.distinct - 1, "wall_s": round(r.wall, 1)}
        vlib.log(f"[C04/E] {base}: {r.distinct - 1} tables, AlgorithmAgreesWithSpec holds, {r.wall:.0f}s")
    if tier == "thorough":
        must_violate("LineTableSmall_Q.cfg", "Never_SharedAddress", workers)
        must_violate("LineTableSmall_Q.cfg", "Never_NoPe", workers)
        must_violate("LineTableSmall_M.cfg", "Never_SplitLine", workers)
        w = must_violate("LineTableSmall_M.cfg", "AlgorithmAgreesWithSpec", workers, {"PerUnitFallback": "TRUE"})
        res["summary"]["swapped_loop_nest_rejected_by_tlc"] = w and w.get("classes")
    return res


def run_synth(rep, exe, totals):
    """Leg S: the committed witness tables as one real ELF object through oracle + debugger."""
    import c04_synth
    committed = json.loads(WITNESSES.read_text())
    case, ntab, r = c04_synth.run_tables(rep, exe, committed, "gas", totals)
    return {"synth_objects": ntab, "states": r.distinct, "transitions": r.generated,
            "samples": [{"synth_tables": ntab, "class": committed[0]["class"], "first_table": committed[0]["table"]}]}

"""C17: puppet build, independent ground truth, needle generation, TLA+ data module.

Ground truth never goes through BugStalker: function instances come from `llvm-dwarfdump --debug-info`
(+ `c++filt` for the demangled path), source files from `llvm-dwarfdump --debug-line`, ELF symbols from
`readelf -sW`.  This module only *decodes* and *enumerates inputs*; which entities a needle denotes is
computed by TLC (spec/PathGT.tla).
"""
import bisect
import hashlib
import json
import os
import random
import re
import shutil
import subprocess
from pathlib import Path

import vlib

PUPPET_SRC = vlib.VERIF / "puppets" / "c17"
RUSTC = ["rustc", "+1.89", "--edition", "2021", "-g"]
DWARFDUMP = "llvm-dwarfdump"


def _run(cmd, **kw):
    rc, so, se = vlib.sh(cmd, **kw)
    return so


# --------------------------------------------------------------------------------------------
# build (cached by content hash)
# --------------------------------------------------------------------------------------------
def source_hash():
    h = hashlib.sha1()
    for f in sorted(PUPPET_SRC.rglob("*.rs")):
        h.update(str(f.relative_to(PUPPET_SRC)).encode())
        h.update(f.read_bytes())
    h.update(_run(["rustc", "+1.89", "--version"]).encode())
    h.update(Path(__file__).read_bytes())      # the decoder is part of the cached ground truth
    return h.hexdigest()[:12]


def build():
    """Returns (dir, exe, [objects])."""
    d = vlib.PUPPET_BUILD / f"c17-{source_hash()}"
    exe, lib = d / "c17p", d / "libc17dep.so"
    if not (d / "ok").exists():
        tmp = Path(str(d) + f".tmp{os.getpid()}")
        shutil.rmtree(tmp, ignore_errors=True)
        tmp.mkdir(parents=True)
        _run(RUSTC + ["--crate-type", "cdylib", "--crate-name", "c17dep", str(PUPPET_SRC / "dep" / "lib.rs"),
                      "-o", str(tmp / "libc17dep.so")], timeout=300)
        _run(RUSTC + ["--crate-name", "c17p", str(PUPPET_SRC / "src" / "main.rs"), "-L", str(tmp),
                      "-l", "dylib=c17dep", "-C", "link-arg=-Wl,-rpath,$ORIGIN", "-o", str(tmp / "c17p")],
             timeout=300)
        (tmp / "ok").write_text("ok")
        if d.exists():
            shutil.rmtree(tmp, ignore_errors=True)
        else:
            os.rename(tmp, d)
    return d, exe, [exe, lib]


# --------------------------------------------------------------------------------------------
# decoding
# --------------------------------------------------------------------------------------------
_DIE = re.compile(r"^0x([0-9a-f]{8}):(\s+)(DW_TAG_\w+|NULL)")
_ATTR = re.compile(r"^\s+(DW_AT_\w+)\s+\((.*)\)\s*$")


def split_top(name):
    """Split a demangled Rust path on `::` outside <...> / (...) / [...] nesting."""
    out, cur, depth, i = [], "", 0, 0
    while i < len(name):
        c = name[i]
        if c in "<([{":
            depth += 1
        elif c in ">)]}":
            if not (c == ">" and i > 0 and name[i - 1] == "-"):     # `->` is not a bracket
                depth -= 1
        if depth == 0 and name.startswith("::", i):
            out.append(cur)
            cur = ""
            i += 2
            continue
        cur += c
        i += 1
    out.append(cur)
    return out


def demangle_many(names):
    if not names:
        return {}
    p = subprocess.run(["c++filt", "-s", "rust"], input="\n".join(names) + "\n", stdout=subprocess.PIPE, text=True, check=True)
    outs = p.stdout.split("\n")[:len(names)]
    if len(outs) != len(names):
        raise vlib.ToolError("c++filt line count mismatch")
    return dict(zip(names, outs))


_HASHED = re.compile(r"^_ZN.*17(h[0-9a-f]{16})E((?:\.[\w$.]+)?)$")
_V0 = re.compile(r"^_R.*?((?:\.[\w$.]+)?)$")
_DISAMB = re.compile(r"\[[0-9a-f]{1,16}\]")


def strip_hash(mangled, dem):
    """Path spelling of a demangled name: without the legacy `::h<hash>` component, without the crate
    disambiguators `[..]` of v0 names (what the demangler's alternate form omits).  Returns (path, hash or None)."""
    m = _HASHED.match(mangled)
    if m and dem.endswith("::" + m.group(1)):
        return dem[: -len(m.group(1)) - 2], m.group(1)
    if mangled.startswith("_R"):
        return _DISAMB.sub("", dem), None
    return dem, None


def symbol_forms(mangled, dem):
    """Spellings under which a symbol's demangled name may be read; the LAST one is the full spelling
    (hash / disambiguator / `.suffix` kept, what a verbatim demangler prints)."""
    base, h = strip_hash(mangled, dem)
    forms = [base]
    if h is not None:
        forms.append(base + "::" + h)
        suffix = _HASHED.match(mangled).group(2)
        if suffix:
            forms += [base + suffix, base + "::" + h + suffix]
    elif mangled.startswith("_R"):
        if dem != base:
            forms.append(dem)
        suffix = _V0.match(mangled).group(1)
        if suffix and not dem.endswith(suffix):
            forms += [base + suffix, dem + suffix]
    out = []
    for f in forms:
        if f not in out:
            out.append(f)
    return out


def decode_functions(obj):
    """Every DW_TAG_subprogram with a code range: dict(lo, hi, linkage, name, chain, via)."""
    txt = _run([DWARFDUMP, "--debug-info", str(obj)], timeout=300)
    dies = {}          # offset -> dict
    stack = []         # (depth, offset)
    cur = None
    for line in txt.splitlines():
        m = _DIE.match(line)
        if m:
            off, depth, tag = int(m.group(1), 16), (len(m.group(2)) - 3) // 2, m.group(3)
            if tag == "NULL":
                cur = None
                continue
            while stack and stack[-1][0] >= depth:
                stack.pop()
            cur = {"off": off, "tag": tag, "parent": stack[-1][1] if stack else None, "attrs": {}}
            dies[off] = cur
            stack.append((depth, off))
            continue
        if cur is not None:
            a = _ATTR.match(line)
            if a and a.group(1) not in cur["attrs"]:
                cur["attrs"][a.group(1)] = a.group(2)

    def sval(v):
        m = re.match(r'^"(.*)"$', v)
        return m.group(1) if m else None

    def ref(v):
        m = re.match(r"^0x([0-9a-f]+)", v)
        return int(m.group(1), 16) if m else None

    def chain(off):
        out, p = [], dies[off]["parent"]
        while p is not None:
            d = dies[p]
            if d["tag"] == "DW_TAG_compile_unit":
                break
            nm = sval(d["attrs"].get("DW_AT_name", ""))
            out.append(nm if nm is not None else "")
            p = d["parent"]
        return list(reversed(out))

    def resolve(off, seen=()):
        """(linkage, name, chain, via) following specification / abstract_origin."""
        d = dies[off]
        a = d["attrs"]
        link, name = sval(a.get("DW_AT_linkage_name", "")), sval(a.get("DW_AT_name", ""))
        via = "own"
        for attr, tag in (("DW_AT_specification", "specification"), ("DW_AT_abstract_origin", "abstract_origin")):
            if (link is None and name is None) or (link is None and attr in a):
                r = ref(a.get(attr, ""))
                if r is not None and r in dies and r not in seen:
                    l2, n2, c2, _ = resolve(r, seen + (off,))
                    if link is None and l2 is not None:
                        link, via = l2, tag
                    if name is None and n2 is not None:
                        name, via = n2, tag
                        if link is None:
                            return link, name, c2, via
        return link, name, chain(off), via

    funcs = []
    for off, d in dies.items():
        if d["tag"] != "DW_TAG_subprogram":
            continue
        a = d["attrs"]
        if "DW_AT_low_pc" not in a:
            if "DW_AT_ranges" in a:
                raise vlib.ToolError(f"subprogram with DW_AT_ranges at {off:#x}: extend the decoder")
            continue
        lo = int(a["DW_AT_low_pc"].split(")")[0], 16)
        hi = int(a["DW_AT_high_pc"].split(")")[0], 16)
        link, name, ch, via = resolve(off)
        funcs.append({"off": off, "lo": lo, "hi": hi, "linkage": link, "name": name, "chain": ch, "via": via})
    return funcs


def decode_lines(obj, comp_dirs):
    """Per line-table: files (full path string) and rows.  Returns list of dict(files={idx:path}, rows=[(addr,line,file,is_stmt)])."""
    txt = _run([DWARFDUMP, "--debug-line", str(obj)], timeout=300)
    tables, cur = [], None
    fname = None
    for line in txt.splitlines():
        m = re.match(r"^debug_line\[0x([0-9a-f]+)\]", line)
        if m:
            cur = {"off": int(m.group(1), 16), "dirs": {}, "files": {}, "rows": [], "version": 4}
            tables.append(cur)
            continue
        if cur is None:
            continue
        m = re.match(r"^\s+version: (\d+)", line)
        if m:
            cur["version"] = int(m.group(1))
            continue
        m = re.match(r'^include_directories\[\s*(\d+)\] = "(.*)"', line)
        if m:
            cur["dirs"][int(m.group(1))] = m.group(2)
            continue
        m = re.match(r"^file_names\[\s*(\d+)\]:", line)
        if m:
            fname = int(m.group(1))
            cur["files"][fname] = {"name": None, "dir": 0}
            continue
        m = re.match(r'^\s+name: "(.*)"', line)
        if m and fname is not None:
            cur["files"][fname]["name"] = m.group(1)
            continue
        m = re.match(r"^\s+dir_index: (\d+)", line)
        if m and fname is not None:
            cur["files"][fname]["dir"] = int(m.group(1))
            continue
        m = re.match(r"^0x([0-9a-f]{16})\s+(\d+)\s+(\d+)\s+(\d+)\s+(\d+)\s+(\d+)\s*(.*)$", line)
        if m:
            cur["rows"].append((int(m.group(1), 16), int(m.group(2)), int(m.group(4)), "is_stmt" in m.group(7),
                                "end_sequence" in m.group(7)))
    out = []
    for t in tables:
        if t["version"] != 4:
            raise vlib.ToolError(f"line table version {t['version']}: extend the decoder (DWARF 5 numbering)")
        comp = comp_dirs.get(t["off"], "")
        files = {}
        for idx, f in t["files"].items():
            d = comp
            if f["dir"] != 0:
                dd = t["dirs"].get(f["dir"], "")
                d = dd if dd.startswith("/") else os.path.join(comp, dd)
            files[idx] = f["name"] if f["name"].startswith("/") else os.path.join(d, f["name"])
        out.append({"off": t["off"], "files": files, "rows": t["rows"]})
    return out


def decode_comp_dirs(obj):
    """stmt_list offset -> comp_dir, from the CU DIEs."""
    txt = _run([DWARFDUMP, "--debug-info", "-r", "0", str(obj)], timeout=300)      # CU DIEs only
    res, comp, stmt = {}, None, None
    for line in txt.splitlines() + ["0x00000000: DW_TAG_compile_unit"]:
        if "DW_TAG_compile_unit" in line:
            if stmt is not None:
                res[stmt] = comp or ""
            comp, stmt = None, None
        m = re.match(r'^\s+DW_AT_comp_dir\s+\("(.*)"\)', line)
        if m:
            comp = m.group(1)
        m = re.match(r"^\s+DW_AT_stmt_list\s+\(0x([0-9a-f]+)\)", line)
        if m:
            stmt = int(m.group(1), 16)
    return res


def path_components(p):
    """Components of a file path the way every path library reads it: root, then the non-empty,
    non-`.` pieces."""
    comps = ["/"] if p.startswith("/") else []
    comps += [c for c in p.split("/") if c not in ("", ".")]
    return comps


def decode_symbols(obj):
    """Entries of .symtab with a non-empty name that are not section symbols: (value, type, ndx, name)."""
    txt = _run(["readelf", "-sW", str(obj)], timeout=120)
    syms, on = [], False
    for line in txt.splitlines():
        if line.startswith("Symbol table '"):
            on = line.startswith("Symbol table '.symtab'")
            continue
        if not on:
            continue
        m = re.match(r"^\s*\d+:\s+([0-9a-f]+)\s+\S+\s+(\S+)\s+(\S+)\s+(\S+)\s+(\S+)(?:\s+(.*))?$", line)
        if not m:
            continue
        val, typ, ndx, name = int(m.group(1), 16), m.group(2), m.group(5), (m.group(6) or "").strip()
        if typ == "SECTION" or not name:
            continue
        syms.append((val, typ, ndx, name))
    return syms


_SYSROOT = None


def system_objects(exe):
    """The other objects `ldd` reports (what BugStalker loads next to the executable)."""
    out = []
    for line in _run(["ldd", str(exe)], timeout=60).splitlines():
        m = re.search(r"=>\s+(\S+)\s+\(0x", line) or re.match(r"^\s*(/\S+)\s+\(0x", line)
        if m and "vdso" not in m.group(1):
            out.append(os.path.realpath(m.group(1)))
    return out


def symbol_file(obj):
    """BugStalker reads the symbol table of the separate debug file when /usr/lib/debug/.build-id has one."""
    notes = _run(["readelf", "-n", str(obj)], timeout=60)
    m = re.search(r"Build ID: ([0-9a-f]+)", notes)
    if m:
        p = Path("/usr/lib/debug/.build-id") / m.group(1)[:2] / (m.group(1)[2:] + ".debug")
        if p.exists():
            return p
    return Path(obj)


def rust_src_remap(path):
    """BugStalker shows /rustc/<hash>/... files under the local rust-src of the default toolchain; a file
    template may be typed against either spelling, so both are readings of the file's path."""
    if not path.startswith("/rustc/"):
        return None
    global _SYSROOT
    if _SYSROOT is None:
        try:
            _SYSROOT = _run(["rustc", "--print", "sysroot"], cwd="/").strip()
        except vlib.ToolError:
            _SYSROOT = ""
    sysroot = _SYSROOT
    if not sysroot:
        return None
    comps = path_components(path)
    return os.path.join(sysroot, "lib/rustlib/src/rust", *comps[3:])


def ground_truth():
    """Build (cached) and decode.  Returns dict with objects, functions, files, symbols."""
    d, exe, objs = build()
    cache = d / "gt.json"
    if cache.exists():
        return json.loads(cache.read_text())
    gt = {"dir": str(d), "exe": str(exe), "objects": [str(o) for o in objs], "functions": [], "files": [],
          "symbols": [], "sys_objects": []}
    filemap = {}
    for oi, obj in enumerate(objs):
        fns = decode_functions(obj)
        dm = demangle_many(sorted({f["linkage"] for f in fns if f["linkage"]}))
        live = [f for f in fns if f["lo"] != 0]
        for f in fns:
            if f["linkage"]:
                dem, _ = strip_hash(f["linkage"], dm[f["linkage"]])
                top = split_top(dem)
                flat = dem.split("::")
                readings = [top] if top == flat else [top, flat]
            else:
                dem = "::".join(f["chain"] + [f["name"] or ""])
                readings = [f["chain"] + [f["name"] or ""]]
            if any(c == "" for r in readings for c in r):
                readings = []          # unnamed: not addressable by any template
            gt["functions"].append({"obj": oi, "lo": f["lo"], "hi": f["hi"], "live": f["lo"] != 0,
                                    "path": dem, "readings": readings, "via": f["via"],
                                    "has_linkage": bool(f["linkage"])})
        live_ranges = sorted((f["lo"], f["hi"]) for f in live)
        live_los = [lo for lo, _ in live_ranges]

        def in_live(addr):
            i = bisect.bisect_right(live_los, addr) - 1
            return i >= 0 and live_ranges[i][0] <= addr < live_ranges[i][1]
        comp = decode_comp_dirs(obj)
        for t in decode_lines(obj, comp):
            used = {}
            for addr, line, fidx, is_stmt, endseq in t["rows"]:
                if endseq:
                    continue
                used.setdefault(fidx, []).append((addr, line, is_stmt))
            for fidx, rows in used.items():
                p = t["files"].get(fidx)
                if p is None:
                    continue
                comps = path_components(p)
                key = "/".join(comps)
                e = filemap.get(key)
                if e is None:
                    alt = rust_src_remap(p)
                    readings = [comps] + ([path_components(alt)] if alt else [])
                    e = {"path": p, "readings": readings, "stmt_lines_live": set(), "objs": set()}
                    filemap[key] = e
                e["objs"].add(oi)
                for addr, line, is_stmt in rows:
                    if is_stmt and in_live(addr):
                        e["stmt_lines_live"].add(line)
        names = decode_symbols(obj)
        dm = demangle_many(sorted({n for _, _, _, n in names}))
        for val, typ, ndx, name in names:
            forms = symbol_forms(name, dm[name])
            gt["symbols"].append({"obj": oi, "addr": val, "type": typ, "ndx": ndx, "mangled": name, "forms": forms})
    # system libraries: symbols only (their functions are outside the compared universe, see design/C17.md)
    puppet_real = {os.path.realpath(o) for o in objs}
    for so in system_objects(exe):
        if so in puppet_real:
            continue
        oi = len(objs) + len(gt["sys_objects"])
        gt["sys_objects"].append(so)
        names = decode_symbols(symbol_file(so))
        for val, typ, ndx, name in names:
            gt["symbols"].append({"obj": oi, "addr": val, "type": typ, "ndx": ndx, "mangled": name, "forms": [name]})
    for e in filemap.values():
        lines = sorted(e["stmt_lines_live"])
        gt["files"].append({"path": e["path"], "readings": e["readings"], "has_line3": 3 in e["stmt_lines_live"],
                            "n_stmt_lines": len(lines), "objs": sorted(e["objs"])})
    gt["files"].sort(key=lambda x: x["path"])
    cache.write_text(json.dumps(gt))
    return gt


# --------------------------------------------------------------------------------------------
# needles (inputs only: the quantifier domain "all suffixes / near-misses of all paths")
# --------------------------------------------------------------------------------------------
def _near_misses(comps, delim, rooted, thorough):
    """Near-miss texts derived from one suffix (list of components)."""
    def text(cs):
        if rooted and cs and cs[0] == delim:
            return delim + delim.join(cs[1:])
        return delim.join(cs)
    out = []
    first, last = comps[0], comps[-1]
    body = [c for c in comps]
    # dropped letter (first char of the first component = partial component; last char of the last)
    if len(first) > 1 and first != delim:
        out.append(text([first[1:]] + body[1:]))
    if len(last) > 1:
        out.append(text(body[:-1] + [last[:-1]]))
    # extra letter glued to the first / last component
    if first != delim:
        out.append(text(["x" + first] + body[1:]))
    out.append(text(body[:-1] + [last + "x"]))
    # extra component in front / in the middle
    if first != delim:
        out.append(text(["zz"] + body))
    if len(body) > 1:
        out.append(text(body[:-1] + ["zz", last]))
    # case
    if last.lower() != last.upper():
        out.append(text(body[:-1] + [last.swapcase()]))
    if thorough:
        if len(first) > 2 and first != delim:
            out.append(text([first[:1] + first[2:]] + body[1:]))       # drop an inner letter
        if len(last) > 2:
            out.append(text(body[:-1] + [last[1:]]))
        # delimiter abuse
        t = text(body)
        out += [t + delim, delim[0] + t if len(delim) > 1 else t + delim + delim]
        if not (rooted and first == delim):
            out.append(delim + t)
        if len(body) > 1 and len(delim) > 1:
            out.append(delim.join(body[:-1]) + delim[0] + last)
        if len(body) > 1:
            out.append(delim.join(body[:-1]) + delim + delim + last)
    return out


def needles_for(paths, delim, rooted, thorough, max_suffix=None):
    out = []
    for comps in paths:
        ks = range(1, len(comps) + 1)
        for k in ks:
            suf = comps[len(comps) - k:]
            if rooted and suf[0] == delim and len(suf) == 1:
                continue
            if max_suffix and k > max_suffix and k != len(comps):
                continue
            if rooted and suf[0] == delim:
                t = delim + delim.join(suf[1:])
            else:
                t = delim.join(suf)
            out.append(t)
            out += _near_misses(suf, delim, rooted, thorough)
    seen, res = set(), []
    for t in out:
        if t not in seen and t != "":
            seen.add(t)
            res.append(t)
    return res


def is_puppet_fn(f):
    return f["path"].startswith("c17p::") or f["path"].startswith("c17dep::") or " as c17p::" in f["path"] \
        or f["path"] in ("c17dep::c17dep_entry",)


def choose_inputs(gt, tier, seed):
    """Needle texts / patterns for the tier.  Deterministic for a seed."""
    rnd = random.Random(seed)
    thorough = tier == "thorough"
    fns = [f for f in gt["functions"] if f["live"] and f["readings"]]
    pup = [f for f in fns if is_puppet_fn(f)]
    other = [f for f in fns if not is_puppet_fn(f)]
    # fixed picks: a function named only through DW_AT_abstract_origin, one with a very common last
    # component, plus a seeded sample of the rest
    picks = [f for f in other if f["via"] == "abstract_origin"][:1]
    picks += [f for f in other if f["readings"][0][-1] == "fmt"][:1]
    picks += rnd.sample(other, min(len(other), 60 if thorough else 6))
    tp = []
    for f in pup + picks:
        if f["readings"][0] not in tp:
            tp.append(f["readings"][0])
    fn_needles = needles_for(tp, "::", False, thorough)

    files = gt["files"]
    pf = [f for f in files if f["path"].startswith(str(PUPPET_SRC))]
    of = [f for f in files if not f["path"].startswith(str(PUPPET_SRC))]
    fpick = pf + rnd.sample(of, min(len(of), 30 if thorough else 3))
    file_needles = needles_for([f["readings"][0] for f in fpick], "/", True, thorough,
                               max_suffix=None if thorough else 3)

    syms = gt["symbols"]
    ps = [s for s in syms if re.search(r"c17p|c17dep", s["forms"][0])]
    by_name = {}
    for s in syms:
        by_name.setdefault((s["obj"], s["mangled"]), []).append(s)
    dups = [v[0] for v in by_name.values() if len({x["addr"] for x in v}) > 1]
    chosen = rnd.sample(ps, min(len(ps), 40 if thorough else 5)) + dups[:(6 if thorough else 1)]
    chosen += [s for s in syms if s["forms"][0] in ("main", "c17dep_entry", "_start")][:4]
    chosen += rnd.sample(syms, min(len(syms), 20 if thorough else 2))
    pats, seen = [], set()

    def add(s, lit, e):
        if lit and (s, lit, e) not in seen:
            seen.add((s, lit, e))
            pats.append({"s": s, "lit": lit, "e": e})
    for i, s in enumerate(chosen):
        lit = s["forms"][0]
        add(True, lit, True)                       # ^name$
        add(True, lit, False)                      # ^name
        add(False, lit[-min(len(lit), 12):], True)  # tail$
        if thorough or i < 3:
            add(False, lit[len(lit) // 3: len(lit) // 3 + 10], False)   # unanchored infix
        add(True, lit[:-1], True)                  # near miss: dropped last letter, anchored
        add(True, lit[1:], False)                  # near miss: dropped first letter, anchored at start
    return fn_needles, file_needles, pats


# --------------------------------------------------------------------------------------------
# TLA+ data module
# --------------------------------------------------------------------------------------------
def tla_text(s):
    """A TLA+ string literal.  In TLA+ a string IS a sequence of characters; TLC implements Len, \\o, SubSeq and =
    on strings natively, so the operators of PathMatch apply unchanged (and far faster than on tuples)."""
    return '"' + s.replace("\\", "\\\\").replace('"', '\\"') + '"'


def tla_comps(cs):
    return "<<" + ",".join(tla_text(c) for c in cs) + ">>"


def tla_set(items):
    return "{" + ",".join(items) + "}"


def tla_seq(items):
    return "<<" + ",\n  ".join(items) + ">>"


def write_data_module(path, fns, files, syms, fn_needles, file_needles, pats, fn_delim="::", file_delim="/"):
    """fns/files: list of lists of readings (component lists); syms: list of lists of names."""
    for t in list(fn_needles) + list(file_needles) + [p["lit"] for p in pats] + \
            [c for rs in fns + files for r in rs for c in r] + [n for ns in syms for n in ns]:
        if any(ord(ch) < 32 or ord(ch) > 126 for ch in t):
            raise vlib.ToolError(f"non-printable character in ground truth text {t!r}")
    body = ["---- MODULE C17Data ----", "(* generated by tools/c17_gt.py -- do not edit *)",
            f"FnDelim == {tla_text(fn_delim)}", f"FileDelim == {tla_text(file_delim)}",
            "Fns == " + tla_seq([tla_set([tla_comps(r) for r in rs]) for rs in fns]),
            "Files == " + tla_seq([tla_set([tla_comps(r) for r in rs]) for rs in files]),
            "Syms == " + tla_seq([tla_set([tla_text(n) for n in ns]) for ns in syms]),
            "FnNeedles == " + tla_seq([tla_text(t) for t in fn_needles]),
            "FileNeedles == " + tla_seq([tla_text(t) for t in file_needles]),
            "Pats == " + tla_seq(["[s |-> %s, lit |-> %s, e |-> %s]" % (
                "TRUE" if p["s"] else "FALSE", tla_text(p["lit"]), "TRUE" if p["e"] else "FALSE") for p in pats]),
            "===="]
    Path(path).parent.mkdir(parents=True, exist_ok=True)
    Path(path).write_text("\n".join(body) + "\n")


def regex_of(p):
    """The concrete regex text for a pattern of the family (escaping as regex::escape does)."""
    return ("^" if p["s"] else "") + re.sub(r"([\\.+*?()|\[\]{}^$#&\-~])", r"\\\1", p["lit"]) + ("$" if p["e"] else "")

#!/bin/sh
# Offline setup: build the harness (against /repo's working tree) and pre-translate PlusCal.
set -e
cd "$(dirname "$0")/.."
mkdir -p work evidence replays puppets/build
[ -f harness/Cargo.lock ] || cp /repo/Cargo.lock harness/Cargo.lock
(cd harness && CARGO_NET_OFFLINE=true cargo build --offline --bins 2>&1 | tail -3)
echo setup done

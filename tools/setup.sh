#!/bin/sh
# Offline setup: build every harness binary against /repo's working tree (cfg bs_verif on).
# Puppets, TLC work directories and PlusCal translations are produced on demand by the checks
# (translations of Stalk.tla / StalkSig.tla are committed).
cd "$(dirname "$0")/.." || exit 2
mkdir -p work evidence replays puppets/build
[ -f harness/Cargo.lock ] || cp /repo/Cargo.lock harness/Cargo.lock
cd harness || exit 2
if ! CARGO_NET_OFFLINE=true cargo build --offline --bins > ../work/setup_build.log 2>&1; then
    tail -40 ../work/setup_build.log
    echo "setup: harness build failed"
    exit 1
fi
tail -2 ../work/setup_build.log
echo setup done

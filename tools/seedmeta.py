#!/usr/bin/env python3
"""seedmeta.py <seeded/ID> [<author worktree>] : (re)writes seeded/ID/meta.json from the author's account
(meta.author.json), my own confirmation (verify.log written by tools/seedverify.sh in the author's worktree,
copied to seeded/ID/verify.log) and the recorded check runs (result.json)."""
import json
import re
import shutil
import subprocess
import sys
from pathlib import Path

d = Path(sys.argv[1]).resolve()
if len(sys.argv) > 2:
    v = Path(sys.argv[2]) / "SEED" / "verify.log"
    if v.exists():
        shutil.copy(v, d / "verify.log")
au = json.loads((d / "meta.author.json").read_text()) if (d / "meta.author.json").exists() else {}
old = json.loads((d / "meta.json").read_text()) if (d / "meta.json").exists() else {}
ver = (d / "verify.log").read_text() if (d / "verify.log").exists() else ""
m = re.findall(r"exit=(\d+)", ver)
conf = old.get("confirmed_by_me", {})
if len(m) >= 2:
    conf = {"demo_with_change": "fails (exit=%s)" % m[0] if m[0] != "0" else "PASSES (exit=0)",
            "demo_without_change": "passes" if m[1] == "0" else "FAILS (exit=%s)" % m[1],
            "pinned_suite_with_change": [l.strip() for l in ver.splitlines() if "stable non-DAP" in l or "NOT PASSING" in l],
            "how": "tools/seedverify.sh <author worktree>"}
files = sorted(set(re.findall(r"^\+\+\+ b/(\S+)", (d / "patch.diff").read_text(), re.M)))
res = json.loads((d / "result.json").read_text()) if (d / "result.json").exists() else {}
meta = {"id": d.name, "property": au.get("property", d.name.split("-")[0]),
        "author": "fresh sub-agent given only the property text and a scratch worktree of /repo (nothing from /verif)",
        "summary": au.get("summary", old.get("summary", "")),
        "needs_to_manifest": au.get("needs_to_manifest", old.get("needs_to_manifest", "")),
        "files_changed": files, "confirmed_by_me": conf, "checks_run": res,
        "ran": f"tools/seedrun.py seeded/{d.name} <checks>  (scratch worktree + VERIF_REPO; /repo untouched)"}
for k in ("strengthened", "notes"):
    if k in old:
        meta[k] = old[k]
(d / "meta.json").write_text(json.dumps(meta, indent=1) + "\n")
print(d.name, conf.get("demo_with_change"), conf.get("demo_without_change"), {t: {c: r["exit"] for c, r in x.items()} for t, x in res.items()})

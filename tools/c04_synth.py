"""C04 leg S: small line tables (TLC's witness tables of leg E) as REAL ELF executables.

Each table becomes an assembly file: one section per function (=> one line-number sequence per function,
closed by an end_sequence row at the function's end; sections are laid out back to back, so with gap 0 the
end_sequence row shares its address with the next function's first row), one 1-byte `nop` per address unit,
`.loc` directives with `prologue_end` / `is_stmt 0` options for the rows (assembled by GNU `as`, which writes
.debug_line), and hand-written .debug_info/.debug_abbrev with one DW_TAG_subprogram per function - gcc style
objects where nothing forces a prologue_end row.  A `main` with its own rows is added in front (the debugger needs
a place to stop); it is separated from the table by padding.

The result goes through the same pipeline as every puppet: llvm-dwarfdump decode -> TLC evaluates the declarative
operators -> harness asks the real debugger -> compare.  The table is only the *input*; no expectation is taken
from the model's algorithm part.
"""
import hashlib
import json
import os
import subprocess
from pathlib import Path

import vlib
import c04_oracle as oracle

FLAVOURS = ["gas"]
SRCNAME = "c04synth.c"


def asm_for(table):
    rows, funcs = table["rows"], table["funcs"]
    L = ['\t.file 1 "%s"' % SRCNAME]
    # main first, then padding, then the table
    L += ['\t.section .text.c04s0,"ax",@progbits', '\t.globl main', '\t.type main,@function', 'main:',
          '\t.loc 1 100 1', '\tpush %rbp', '\t.loc 1 101 1 prologue_end', '\txor %eax,%eax', '\tpop %rbp',
          '\t.loc 1 102 1', '\tret', '.Lmain_end:', '\t.size main,.-main',
          '\t.section .text.c04s0p,"ax",@progbits', '\t.fill 7,1,0xcc']
    seqs = sorted({r["seq"] for r in rows})
    prev_hi = None
    for k, (sq, f) in enumerate(zip(seqs, funcs)):
        rs = [r for r in rows if r["seq"] == sq]
        if prev_hi is not None and f["lo"] > prev_hi:
            L += ['\t.section .text.c04s%dp,"ax",@progbits' % (k + 1), '\t.fill %d,1,0xcc' % (f["lo"] - prev_hi)]
        L += ['\t.section .text.c04s%d,"ax",@progbits' % (k + 1), '\t.globl c04s_f%d' % (k + 1),
              '\t.type c04s_f%d,@function' % (k + 1), 'c04s_f%d:' % (k + 1)]
        cur = f["lo"]
        for i, r in enumerate(rs):
            if r["es"]:
                L += ['\tnop'] * (r["addr"] - cur)
                cur = r["addr"]
                break
            L += ['\tnop'] * (r["addr"] - cur)
            cur = r["addr"]
            opts = (" prologue_end" if r["pe"] else "") + (" is_stmt 1" if r["stmt"] else " is_stmt 0")
            L.append('\t.loc 1 %d %d%s' % (r["line"], r["col"], opts))
        L += ['.Lf%d_end:' % (k + 1), '\t.size c04s_f%d,.-c04s_f%d' % (k + 1, k + 1)]
        prev_hi = f["hi"]
    n = len(funcs)
    # ---- .debug_abbrev
    L += ['\t.section .debug_abbrev,"",@progbits',
          '\t.uleb128 1', '\t.uleb128 0x11', '\t.byte 1',          # compile_unit, children
          '\t.uleb128 0x25', '\t.uleb128 0x08',                     # producer string
          '\t.uleb128 0x13', '\t.uleb128 0x0b',                     # language data1
          '\t.uleb128 0x03', '\t.uleb128 0x08',                     # name string
          '\t.uleb128 0x1b', '\t.uleb128 0x08',                     # comp_dir string
          '\t.uleb128 0x11', '\t.uleb128 0x01',                     # low_pc addr
          '\t.uleb128 0x12', '\t.uleb128 0x01',                     # high_pc addr (sections differ)
          '\t.uleb128 0x10', '\t.uleb128 0x17',                     # stmt_list sec_offset
          '\t.byte 0', '\t.byte 0',
          '\t.uleb128 2', '\t.uleb128 0x2e', '\t.byte 0',           # subprogram, no children
          '\t.uleb128 0x3f', '\t.uleb128 0x19',                     # external flag_present
          '\t.uleb128 0x03', '\t.uleb128 0x08',                     # name string
          '\t.uleb128 0x3a', '\t.uleb128 0x0b',                     # decl_file data1
          '\t.uleb128 0x3b', '\t.uleb128 0x0b',                     # decl_line data1
          '\t.uleb128 0x11', '\t.uleb128 0x01',                     # low_pc
          '\t.uleb128 0x12', '\t.uleb128 0x07',                     # high_pc data8
          '\t.byte 0', '\t.byte 0', '\t.byte 0']
    # ---- .debug_info (DWARF 4, 64-bit addresses)
    last = '.Lf%d_end' % n
    L += ['\t.section .debug_info,"",@progbits', '\t.long .Linfo_end-.Linfo_start', '.Linfo_start:',
          '\t.value 4', '\t.long .debug_abbrev', '\t.byte 8',
          '\t.uleb128 1', '\t.string "c04 synth (gcc style, no forced prologue_end)"', '\t.byte 0x0c',
          '\t.string "%s"' % SRCNAME, '\t.string "%s"' % str(vlib.WORK / "c04"),
          '\t.quad main', '\t.quad %s' % last, '\t.long .debug_line',
          '\t.uleb128 2', '\t.string "main"', '\t.byte 1', '\t.byte 100', '\t.quad main', '\t.quad .Lmain_end-main']
    for k, f in enumerate(funcs):
        L += ['\t.uleb128 2', '\t.string "c04s_f%d"' % (k + 1), '\t.byte 1', '\t.byte %d' % (k + 1),
              '\t.quad c04s_f%d' % (k + 1), '\t.quad .Lf%d_end-c04s_f%d' % (k + 1, k + 1)]
    L += ['\t.byte 0', '.Linfo_end:', '\t.section .note.GNU-stack,"",@progbits']
    return "\n".join(L) + "\n"


def build(table, flavour):
    text = asm_for(table)
    h = hashlib.sha1((text + flavour).encode()).hexdigest()[:16]
    outdir = vlib.PUPPET_BUILD / f"c04-synth-{h}"
    exe = outdir / "c04synth"
    if exe.exists():
        return exe
    outdir.mkdir(parents=True, exist_ok=True)
    (outdir / "c04synth.s").write_text(text)
    if flavour == "gas":
        vlib.sh(["as", "--64", "-o", "c04synth.o", "c04synth.s"], cwd=outdir, timeout=60)
    else:
        vlib.sh(["clang", "-c", "-o", "c04synth.o", "c04synth.s"], cwd=outdir, timeout=60)
    vlib.sh(["cc", "-pie", "-o", "c04synth.tmp", "c04synth.o"], cwd=outdir, timeout=60)
    os.replace(outdir / "c04synth.tmp", exe)
    rc = subprocess.run([str(exe)], timeout=20).returncode
    if rc != 0:
        raise vlib.ToolError(f"synthesised object {exe} does not run natively (rc={rc})")
    return exe


def source_file():
    """The (contentless) source the synthesised DWARF names; line queries go from 1 to 6."""
    p = vlib.WORK / "c04" / SRCNAME
    p.parent.mkdir(parents=True, exist_ok=True)
    if not p.exists():
        p.write_text("\n" * 5)
    return p


def decode(exe, table):
    """Independent decode of the synthesised object + the check that it carries the intended table."""
    src = source_file()
    dec = oracle.decode(str(exe), str(src), cu_name=SRCNAME)
    fs = [f for f in dec["funcs"] if f["name"].startswith("c04s_f")]
    if len(fs) != len(table["funcs"]):
        return None, "function count differs"
    base = fs[0]["ranges"][0][0] - table["funcs"][0]["lo"]
    got = sorted((r["addr"] - base, r["line"], r["col"], r["stmt"], r["pe"], r["es"])
                 for r in dec["rows"] if r["addr"] - base >= table["funcs"][0]["lo"] and r["line"] < 100)
    want = sorted((r["addr"], r["line"], r["col"], r["stmt"], r["pe"], r["es"]) for r in table["rows"])
    if got != want:
        return None, f"assembler produced a different table: {got} instead of {want}"
    for f in dec["funcs"]:
        f["user"] = True
    # every byte of the synthesised functions is an instruction (nop); main's instructions from objdump
    return dec, None


def run_table(rep, exe_harness, witness, flavour, totals, only=None):
    from checks import c04 as chk
    table = witness["table"]
    try:
        exe = build(table, flavour)
    except vlib.ToolError as e:
        vlib.log(f"[C04/S] {witness['class']}/{flavour}: cannot assemble ({str(e)[:200]})")
        totals.setdefault("synth-skipped", {})[f"{witness['class']}/{flavour}"] = "cannot assemble"
        return None
    dec, why = decode(exe, table)
    tag = hashlib.sha1(json.dumps(table, sort_keys=True).encode()).hexdigest()[:8]
    if dec is None:
        vlib.log(f"[C04/S] {witness['class']}/{flavour}: not representable ({why[:160]})")
        totals.setdefault("synth-skipped", {})[f"{witness['class']}/{flavour}"] = why[:300]
        return None
    expected, r = oracle.evaluate(dec, vlib.WORK / "c04" / f"eval-synth-{tag}-{flavour}", workers=1)
    return chk.run_binary(rep, exe_harness, f"synth:{tag}", flavour, exe, source_file(), dec, expected, totals,
                          only=only, synth={"table": table, "flavour": flavour, "class": witness["class"]})


def replay(rep, exe_harness, sc, totals):
    w = {"class": sc["synth"].get("class", "replay"), "table": sc["synth"]["table"]}
    q = sc["query"] if sc["query"].get("q") not in ("start", "session") else None
    case = run_table(rep, exe_harness, w, sc["synth"]["flavour"], totals, only=q)
    if case is None:
        raise vlib.ToolError("replay: the synthesised object could not be rebuilt")
    return 1

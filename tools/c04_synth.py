"""C04 leg S: small line tables (TLC's witness tables of leg E) as REAL ELF executables.

Each table becomes an assembly file: one section per function (=> one line-number sequence per function,
closed by an end_sequence row at the function's end; sections are laid out back to back, so with gap 0 the
end_sequence row shares its address with the next function's first row), one 1-byte `nop` per address unit,
`.loc` directives with `prologue_end` / `is_stmt 0` options for the rows (assembled by GNU `as`, which writes
.debug_line), and hand-written .debug_info/.debug_abbrev with one DW_TAG_subprogram per function - gcc style
objects where nothing forces a prologue_end row.  A `main` with its own rows is added in front (the debugger needs
a place to stop); it is separated from the table by padding.

The result goes through the same pipeline as every puppet: llvm-dwarfdump decode -> TLC evaluates the declarative
operators -> harness asks the real debugger -> compare.  The table is only the *input*; no expectation is taken
from the model's algorithm part.
"""
import hashlib
import json
import os
import subprocess
from pathlib import Path

import vlib
import c04_oracle as oracle

FLAVOURS = ["gas"]
SRCNAME = "c04synth.c"


def layout(tables):
    """Several witness tables side by side in one object: table k keeps its shape, its lines are shifted by
    10*k (so file:line queries of different tables do not interact), its functions are named c04s_t<k>_f<i>,
    and 16 bytes of padding separate it from the next table."""
    groups = []
    for k, t in enumerate(tables):
        seqs = sorted({r["seq"] for r in t["rows"]})
        fns = []
        for i, (sq, f) in enumerate(zip(seqs, t["funcs"])):
            rs = [dict(r, line=r["line"] + 10 * k) for r in t["rows"] if r["seq"] == sq]
            fns.append({"name": "c04s_t%d_f%d" % (k, i + 1), "lo": f["lo"], "hi": f["hi"], "rows": rs})
        groups.append(fns)
    return groups


def asm_for(tables):
    groups = layout(tables)
    L = ['\t.file 1 "%s"' % SRCNAME]
    # main first, then padding, then the tables
    L += ['\t.section .text.c04s0,"ax",@progbits', '\t.globl main', '\t.type main,@function', 'main:',
          '\t.loc 1 200 1', '\tpush %rbp', '\t.loc 1 201 1 prologue_end', '\txor %eax,%eax', '\tpop %rbp',
          '\t.loc 1 202 1', '\tret', '.Lmain_end:', '\t.size main,.-main']
    sec = 0
    allf = []
    for fns in groups:
        sec += 1
        L += ['\t.section .text.c04s%03dp,"ax",@progbits' % sec, '\t.fill 16,1,0xcc']
        prev_hi = None
        for f in fns:
            if prev_hi is not None and f["lo"] > prev_hi:
                sec += 1
                L += ['\t.section .text.c04s%03dg,"ax",@progbits' % sec, '\t.fill %d,1,0xcc' % (f["lo"] - prev_hi)]
            sec += 1
            n = f["name"]
            L += ['\t.section .text.c04s%03d,"ax",@progbits' % sec, '\t.globl %s' % n, '\t.type %s,@function' % n,
                  '%s:' % n]
            cur = f["lo"]
            for r in f["rows"]:
                L += ['\tnop'] * (r["addr"] - cur)
                cur = r["addr"]
                if r["es"]:
                    break
                opts = (" prologue_end" if r["pe"] else "") + (" is_stmt 1" if r["stmt"] else " is_stmt 0")
                L.append('\t.loc 1 %d %d%s' % (r["line"], r["col"], opts))
            L += ['.L%s_end:' % n, '\t.size %s,.-%s' % (n, n)]
            prev_hi = f["hi"]
            allf.append(n)
    # ---- .debug_abbrev
    L += ['\t.section .debug_abbrev,"",@progbits',
          '\t.uleb128 1', '\t.uleb128 0x11', '\t.byte 1',          # compile_unit, children
          '\t.uleb128 0x25', '\t.uleb128 0x08',                     # producer string
          '\t.uleb128 0x13', '\t.uleb128 0x0b',                     # language data1
          '\t.uleb128 0x03', '\t.uleb128 0x08',                     # name string
          '\t.uleb128 0x1b', '\t.uleb128 0x08',                     # comp_dir string
          '\t.uleb128 0x11', '\t.uleb128 0x01',                     # low_pc addr
          '\t.uleb128 0x12', '\t.uleb128 0x01',                     # high_pc addr (sections differ)
          '\t.uleb128 0x10', '\t.uleb128 0x17',                     # stmt_list sec_offset
          '\t.byte 0', '\t.byte 0',
          '\t.uleb128 2', '\t.uleb128 0x2e', '\t.byte 0',           # subprogram, no children
          '\t.uleb128 0x3f', '\t.uleb128 0x19',                     # external flag_present
          '\t.uleb128 0x03', '\t.uleb128 0x08',                     # name string
          '\t.uleb128 0x3a', '\t.uleb128 0x0b',                     # decl_file data1
          '\t.uleb128 0x3b', '\t.uleb128 0x0b',                     # decl_line data1
          '\t.uleb128 0x11', '\t.uleb128 0x01',                     # low_pc
          '\t.uleb128 0x12', '\t.uleb128 0x07',                     # high_pc data8
          '\t.byte 0', '\t.byte 0', '\t.byte 0']
    # ---- .debug_info (DWARF 4, 64-bit addresses)
    L += ['\t.section .debug_info,"",@progbits', '\t.long .Linfo_end-.Linfo_start', '.Linfo_start:',
          '\t.value 4', '\t.long .debug_abbrev', '\t.byte 8',
          '\t.uleb128 1', '\t.string "c04 synth (gcc style, no forced prologue_end)"', '\t.byte 0x0c',
          '\t.string "%s"' % SRCNAME, '\t.string "%s"' % str(vlib.WORK / "c04"),
          '\t.quad main', '\t.quad .L%s_end' % allf[-1], '\t.long .debug_line',
          '\t.uleb128 2', '\t.string "main"', '\t.byte 1', '\t.byte 200', '\t.quad main', '\t.quad .Lmain_end-main']
    for n in allf:
        L += ['\t.uleb128 2', '\t.string "%s"' % n, '\t.byte 1', '\t.byte 1',
              '\t.quad %s' % n, '\t.quad .L%s_end-%s' % (n, n)]
    L += ['\t.byte 0', '.Linfo_end:', '\t.section .note.GNU-stack,"",@progbits']
    return "\n".join(L) + "\n"


def build(tables, flavour):
    text = asm_for(tables)
    h = hashlib.sha1((text + flavour).encode()).hexdigest()[:16]
    outdir = vlib.PUPPET_BUILD / f"c04-synth-{h}"
    exe = outdir / "c04synth"
    if exe.exists():
        return exe
    outdir.mkdir(parents=True, exist_ok=True)
    (outdir / "c04synth.s").write_text(text)
    if flavour == "gas":
        vlib.sh(["as", "--64", "-o", "c04synth.o", "c04synth.s"], cwd=outdir, timeout=60)
    else:
        vlib.sh(["clang", "-c", "-o", "c04synth.o", "c04synth.s"], cwd=outdir, timeout=60)
    vlib.sh(["cc", "-pie", "-o", "c04synth.tmp", "c04synth.o"], cwd=outdir, timeout=60)
    os.replace(outdir / "c04synth.tmp", exe)
    rc = subprocess.run([str(exe)], timeout=20).returncode
    if rc != 0:
        raise vlib.ToolError(f"synthesised object {exe} does not run natively (rc={rc})")
    return exe


def source_file(nlines=120):
    """The (contentless) source the synthesised DWARF names."""
    p = vlib.WORK / "c04" / SRCNAME
    p.parent.mkdir(parents=True, exist_ok=True)
    if not p.exists() or len(p.read_text()) != nlines:
        p.write_text("\n" * nlines)
    return p


def decode(exe, tables):
    """Independent decode of the synthesised object + the check that it carries the intended tables."""
    src = source_file()
    dec = oracle.decode(str(exe), str(src), cu_name=SRCNAME)
    byname = {f["name"]: f for f in dec["funcs"]}
    for fns in layout(tables):
        if any(f["name"] not in byname for f in fns):
            return None, "function missing in the decoded object"
        base = byname[fns[0]["name"]]["ranges"][0][0] - fns[0]["lo"]
        lo, hi = fns[0]["lo"], fns[-1]["hi"]
        got = sorted((r["addr"] - base, r["line"], r["col"], r["stmt"], r["pe"], r["es"])
                     for r in dec["rows"] if lo <= r["addr"] - base <= hi and r["line"] < 200)
        want = sorted((r["addr"], r["line"], r["col"], r["stmt"], r["pe"], r["es"]) for f in fns for r in f["rows"])
        if got != want:
            return None, f"assembler produced a different table for {fns[0]['name']}: {got} instead of {want}"
    for f in dec["funcs"]:
        f["user"] = True
    return dec, None


def representable(table, flavour):
    """Does the assembler reproduce exactly this table?  (cached next to the built object)"""
    try:
        exe = build([table], flavour)
    except vlib.ToolError:
        return False
    mark = exe.parent / "representable.json"
    if mark.exists():
        return json.loads(mark.read_text())["ok"]
    ok = decode(exe, [table])[0] is not None
    mark.write_text(json.dumps({"ok": ok}))
    return ok


def run_tables(rep, exe_harness, witnesses, flavour, totals, only=None):
    """All representable witness tables in ONE object -> one TLC evaluation, one debugger session."""
    from checks import c04 as chk
    tables, classes, skipped = [], [], []
    for w in witnesses:
        if w["table"] in tables:
            continue
        if representable(w["table"], flavour):
            tables.append(w["table"])
            classes.append(w["class"])
        else:
            skipped.append(w["class"])
    if skipped:
        vlib.log(f"[C04/S] not representable with `as` (a trailing .loc without an instruction is dropped): {skipped}")
        totals.setdefault("synth", {})["not_representable"] = skipped
    if not tables:
        raise vlib.ToolError("no witness table could be synthesised")
    exe = build(tables, flavour)
    dec, why = decode(exe, tables)
    if dec is None:
        raise vlib.ToolError(f"combined synthesised object is not the intended table: {why}")
    tag = hashlib.sha1(json.dumps(tables, sort_keys=True).encode()).hexdigest()[:8]
    expected, r = oracle.evaluate(dec, vlib.WORK / "c04" / f"eval-synth-{tag}-{flavour}", workers=1)
    case = chk.run_binary(rep, exe_harness, "synth", flavour, exe, source_file(), dec, expected, totals,
                          only=only, synth={"tables": tables, "flavour": flavour, "classes": classes})
    return case, len(tables), r


def replay(rep, exe_harness, sc, totals):
    ws = [{"class": c, "table": t} for c, t in zip(sc["synth"]["classes"], sc["synth"]["tables"])]
    q = sc["query"] if sc["query"].get("q") not in ("start", "session") else None
    run_tables(rep, exe_harness, ws, sc["synth"]["flavour"], totals, only=q)
    return 1

#!/usr/bin/env python3
"""seedrun.py <seeded/ID dir> [--tier quick|thorough] [--inplace] CHECK [CHECK...]

Runs registered checks against a seeded breaking change and records what each reports.

Default: the patch is applied in a scratch worktree of /repo under /tmp (removed afterwards) and the
checks are pointed at it with VERIF_REPO (tools/vlib.py then builds a private copy of the harness
against that tree), so that /repo itself and concurrently running work are not disturbed.
--inplace: apply the patch to /repo's working tree, run, and undo it straight afterwards
(`git -C /repo checkout -- .`) - the procedure of the task brief, usable when nothing else is building.
"""
import argparse
import hashlib
import json
import os
import re
import shutil
import subprocess
import sys
import time
from pathlib import Path

V = Path(__file__).resolve().parent.parent


def sh(cmd, **kw):
    return subprocess.run(cmd, stdout=subprocess.PIPE, stderr=subprocess.STDOUT, text=True, **kw)


def main():
    ap = argparse.ArgumentParser()
    ap.add_argument("seed")
    ap.add_argument("--tier", default="quick")
    ap.add_argument("--inplace", action="store_true")
    ap.add_argument("checks", nargs="+")
    a = ap.parse_args()
    seed = Path(a.seed).resolve()
    patch = seed / "patch.diff"
    if not patch.exists():
        sys.exit(f"{patch} missing")
    results = {}
    if a.inplace:
        if sh(["git", "-C", "/repo", "status", "--porcelain", "--untracked-files=no"]).stdout.strip():
            sys.exit("/repo working tree is not clean")
        r = sh(["git", "-C", "/repo", "apply", str(patch)])
        if r.returncode:
            sys.exit("patch does not apply: " + r.stdout)
        env = dict(os.environ)
        wt = None
    else:
        wt = Path("/tmp") / f"seedrun-{seed.name}"
        sh(["git", "-C", "/repo", "worktree", "remove", "--force", str(wt)])
        r = sh(["git", "-C", "/repo", "worktree", "add", "--detach", str(wt), "HEAD"])
        if r.returncode:
            sys.exit(r.stdout)
        r = sh(["git", "-C", str(wt), "apply", str(patch)])
        if r.returncode:
            sh(["git", "-C", "/repo", "worktree", "remove", "--force", str(wt)])
            sys.exit("patch does not apply: " + r.stdout)
        env = dict(os.environ, VERIF_REPO=str(wt))
    # evidence of a run against a seeded change must not replace the evidence of the unchanged tree
    ev = V / "work" / "evidence-seeded"
    ev.mkdir(parents=True, exist_ok=True)
    env["VERIF_EVIDENCE_DIR"] = str(ev)
    try:
        for c in a.checks:
            t0 = time.time()
            r = sh([str(V / "tools" / "vcheck"), c, "--tier", a.tier], cwd=V, env=env)
            lines = [l for l in r.stdout.splitlines() if l.startswith(("VIOLATION", "KNOWN-FINDING", "TOOL-ERROR", "MODEL-DRIFT"))]
            classes = sorted(set(re.findall(r"class=(\S+)", r.stdout)))
            results[c] = {"exit": r.returncode, "wall_s": round(time.time() - t0, 1),
                          "violations": sum(1 for l in lines if l.startswith("VIOLATION")),
                          "classes": classes, "lines": lines[:12]}
            print(c, "exit", r.returncode, "violations", results[c]["violations"], classes, flush=True)
            if r.returncode == 2:
                print(r.stdout[-1500:])
    finally:
        if a.inplace:
            sh(["git", "-C", "/repo", "checkout", "--", "."])
        else:
            sh(["git", "-C", "/repo", "worktree", "remove", "--force", str(wt)])
            alt = V / "work" / ("harness-" + hashlib.sha1(str(wt).encode()).hexdigest()[:8])
            shutil.rmtree(alt, ignore_errors=True)
        # replay files written for a seeded change are not findings of the unchanged tree
    out = seed / "result.json"
    prev = json.loads(out.read_text()) if out.exists() else {}
    prev.setdefault(a.tier, {}).update(results)
    out.write_text(json.dumps(prev, indent=1) + "\n")


if __name__ == "__main__":
    main()
